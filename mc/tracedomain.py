"""Abstract execution-trace domain over real pynguin registries (shared by C10 and C11).

Registries
    A handful of tiny functions (0 predicates, 1 predicate, 2 nested, 2 sequential,
    a loop with a nested predicate, 3 nested, two functions with one predicate each)
    is instrumented once with pynguin's real ``InstrumentationTransformer`` (branch +
    line adapters). A *registry* is a fresh real ``SubjectProperties`` into which a
    chosen subset of the resulting real ``CodeObjectMetaData`` (real CFG and CDG),
    ``PredicateMetaData`` (real basic-block nodes) and ``LineMetaData`` objects is
    registered through the public ``register_*`` API, so that the number of
    branch-less code objects, predicates and lines can be chosen freely
    (``REGISTRIES``).

Traces
    ``all_specs(reg)`` enumerates EVERY abstract trace over a registry:

    * per predicate a state ``None`` (not executed, both distances absent) or
      ``(count, true_d, false_d)`` with ``count`` in {1, 2} (2 stands for ">= 2
      evaluations") and distances in {0.0, 5e-17, 0.5, 1.0, 7.0, inf}, consistent with the
      tracer's invariant (``ExecutionTracer._update_metrics``: exactly one distance is
      0.0 per evaluation; distances are minima over evaluations, so after one
      evaluation exactly one is zero, after two both may be) -> 1 + 10 + 11 = 22 states;
    * every subset of executed code objects that contains the code object of every
      executed predicate;
    * every subset of covered lines x every subset of checked lines.

    A spec is plain JSON-able data (``spec_to_json``/``spec_from_json``);
    ``make_trace``/``make_result`` turn it into real ``ExecutionTrace`` /
    ``ExecutionResult`` objects.

Chromosomes
    ``FakeExecutor`` is a real ``AbstractTestCaseExecutor`` subclass whose ``execute``
    returns a freshly built ``ExecutionResult`` for the spec attached to the given
    test case; ``Lab`` builds real ``TestCase`` / ``TestCaseChromosome`` /
    ``TestSuiteChromosome`` objects around it.
"""

from __future__ import annotations

import contextlib
import itertools

INF = float("inf")
NONZERO = (5e-17, 0.5, 1.0, 7.0, INF)   # 5e-17: a float comparison missed by a hair

SOURCE = '''\
def plain():
    return 1

def one(a):
    if a > 0:
        return 1
    return 2

def other(a):
    if a:
        return 1
    return 2

def nested(a, b):
    if a > 0:
        if b > 0:
            return 1
        return 2
    return 3

def seq(a, b):
    r = 0
    if a > 0:
        r += 1
    if b > 0:
        r += 2
    return r

def loop(n):
    while n > 0:
        if n == 3:
            return 1
        n -= 1
    return 0

def chain3(a, b, c):
    if a > 0:
        if b > 0:
            if c > 0:
                return 1
            return 2
        return 3
    return 4
'''

# name -> (functions whose predicates are registered, branch-less code objects, #lines, tier)
REGISTRIES = {
    "empty": ((), (), 0, "quick"),
    "plain1": ((), ("<module>",), 3, "quick"),
    "plain2": ((), ("<module>", "plain"), 1, "quick"),
    "one": (("one",), ("<module>",), 2, "quick"),
    "one_only": (("one",), (), 0, "quick"),
    "nested": (("nested",), (), 1, "quick"),
    "seq": (("seq",), ("<module>",), 1, "quick"),
    "loop": (("loop",), ("<module>",), 1, "thorough"),
    "twoco": (("one", "other"), ("<module>", "plain"), 0, "quick"),
    "chain3": (("chain3",), (), 0, "thorough"),
}


def registry_names(tier: str) -> list[str]:
    return [n for n, r in REGISTRIES.items() if r[3] == "quick" or tier == "thorough"]


class Registry:
    """A real SubjectProperties plus the id lists the enumerators need."""

    def __init__(self, name, sp, code_objects, pred_co, line_ids, branchless):
        self.name = name
        self.sp = sp
        self.code_objects = tuple(code_objects)      # all registered code object ids
        self.pred_co = dict(pred_co)                 # predicate id -> code object id
        self.pred_ids = tuple(pred_co)
        self.line_ids = tuple(line_ids)
        self.branchless = tuple(branchless)

    def describe(self) -> dict:
        return {"name": self.name, "code_objects": len(self.code_objects),
                "branchless": len(self.branchless), "predicates": len(self.pred_ids),
                "lines": len(self.line_ids),
                "diameters": [self.sp.existing_code_objects[c].cfg.diameter
                              for c in self.code_objects]}


_INSTRUMENTED = None


def _instrumented():
    """Instrument SOURCE once with the real transformer; returns the full SubjectProperties."""
    global _INSTRUMENTED
    if _INSTRUMENTED is None:
        import pynguin.configuration as config
        from pynguin.instrumentation.machinery import build_transformer
        from pynguin.instrumentation.tracer import SubjectProperties

        sp = SubjectProperties()
        transformer = build_transformer(
            sp, {config.CoverageMetric.BRANCH, config.CoverageMetric.LINE},
            config.ToCoverConfiguration())
        # no file of that name exists -> ModuleAstInfo.from_path returns None (no exclusions)
        transformer.instrument_code(compile(SOURCE, "<verif_tracedomain>", "exec"),
                                    "verif_tracedomain")
        _INSTRUMENTED = sp
    return _INSTRUMENTED


def build_registry(name: str) -> Registry:
    from pynguin.instrumentation.tracer import (
        LineMetaData,
        PredicateMetaData,
        SubjectProperties,
    )

    full = _instrumented()
    pred_funcs, branchless_funcs, n_lines, _tier = REGISTRIES[name]
    by_name = {m.code_object.co_name: (cid, m) for cid, m in full.existing_code_objects.items()}
    sp = SubjectProperties()
    new_id = {}
    for fn in (*branchless_funcs, *pred_funcs):
        old, meta = by_name[fn]
        cid = sp.create_code_object_id()
        sp.register_code_object(cid, meta)
        new_id[old] = cid
    pred_co = {}
    for fn in pred_funcs:
        old, _ = by_name[fn]
        for _pid, pm in sorted(full.existing_predicates.items()):
            if pm.code_object_id == old:
                pid = sp.register_predicate(
                    PredicateMetaData(line_no=pm.line_no, code_object_id=new_id[old], node=pm.node))
                pred_co[pid] = new_id[old]
    # lines: first the lines of the chosen code objects, then any others, capped at n_lines
    lines = sorted(full.existing_lines.items(),
                   key=lambda kv: (kv[1].code_object_id not in new_id, kv[0]))
    line_ids = []
    for _lid, lm in lines[:n_lines]:
        owner = new_id.get(lm.code_object_id, 0)
        line_ids.append(sp.register_line(
            LineMetaData(code_object_id=owner, file_name=lm.file_name, line_number=lm.line_number)))
    branchless = list(sp.branch_less_code_objects)
    reg = Registry(name, sp, list(sp.existing_code_objects), pred_co, line_ids, branchless)
    assert len(reg.pred_ids) == len(set(reg.pred_ids))
    assert len(branchless) == len(branchless_funcs), (name, branchless)
    assert len(reg.line_ids) == n_lines, (name, reg.line_ids)
    return reg


# ------------------------------------------------------------------ predicate states
def pred_states(nonzero=NONZERO) -> list:
    """All per-predicate states allowed by the tracer's invariant."""
    out = [None]
    for d in nonzero:
        out.append((1, 0.0, d))
        out.append((1, d, 0.0))
    out.append((2, 0.0, 0.0))
    for d in nonzero:
        out.append((2, 0.0, d))
        out.append((2, d, 0.0))
    return out


def _subsets(items):
    items = tuple(items)
    for r in range(len(items) + 1):
        yield from itertools.combinations(items, r)


def all_specs(reg: Registry, nonzero=NONZERO):
    """Every abstract trace over the registry. spec = (cos, preds, covered, checked)."""
    states = pred_states(nonzero)
    line_sets = list(_subsets(reg.line_ids))
    for combo in itertools.product(states, repeat=len(reg.pred_ids)):
        forced = {reg.pred_co[p] for p, st in zip(reg.pred_ids, combo) if st is not None}
        free = [c for c in reg.code_objects if c not in forced]
        for extra in _subsets(free):
            cos = tuple(sorted(forced | set(extra)))
            for cov in line_sets:
                for chk in line_sets:
                    yield (cos, tuple(combo), cov, chk)


def count_specs(reg: Registry, nonzero=NONZERO) -> int:
    n_states = len(pred_states(nonzero))
    total = 0
    for combo in itertools.product(range(n_states), repeat=len(reg.pred_ids)):
        forced = {reg.pred_co[p] for p, st in zip(reg.pred_ids, combo) if st != 0}
        total += 2 ** (len(reg.code_objects) - len(forced))
    return total * 4 ** len(reg.line_ids)


def reduced_alphabet(reg: Registry, cap: int | None = None) -> list:
    """A deterministic alphabet of ~20-40 distinct single-test traces per registry.

    Contains every hit-count class (0, 1, >= 2), zero / small / large / infinite
    distances on either side, several code-object situations and line subsets.
    With ``cap`` the list is thinned to ``cap`` evenly spaced entries.
    """
    menu = [None, (1, 0.0, 7.0), (1, 7.0, 0.0), (1, 0.0, INF), (1, 0.5, 0.0), (1, INF, 0.0),
            (2, 0.0, 0.0), (2, 0.0, 0.5), (2, 7.0, 0.0), (2, 0.0, INF)]
    short = [(1, 0.0, 7.0), (1, 0.5, 0.0), (2, 1.0, 0.0)]
    preds = reg.pred_ids
    combos = []
    if len(preds) == 1:
        combos = [(s,) for s in pred_states()]
    elif len(preds) >= 2:
        none = [None] * len(preds)
        singles_menu = menu[1:] if len(preds) == 2 else menu[1:8:2] + menu[2:8:2][:2]
        for i in range(len(preds)):
            for s in singles_menu:
                c = list(none)
                c[i] = s
                combos.append(tuple(c))
        combos.insert(0, tuple(none))
        for a, b in itertools.product(short, repeat=2):
            c = list(none)
            c[0], c[-1] = a, b
            if len(preds) > 2:
                c[1] = b
            combos.append(tuple(c))
    else:
        combos = [()]
    lines = reg.line_ids
    line_menu = [((), ())]
    if lines:
        line_menu += [((lines[0],), ()), ((lines[-1],), (lines[-1],)), (tuple(lines), (lines[0],)),
                      (tuple(lines), tuple(lines)), ((), (lines[0],))]
    out, seen = [], set()

    def add(spec):
        if spec not in seen:
            seen.add(spec)
            out.append(spec)

    def co_menu(free):
        free = tuple(free)
        m = [(), free]
        if len(free) > 1:
            m += [free[:1], free[-1:]]
        return m

    for k, combo in enumerate(combos):
        forced = {reg.pred_co[p] for p, st in zip(preds, combo) if st is not None}
        # rotate through the code-object and line situations deterministically
        extras = co_menu(c for c in reg.code_objects if c not in forced)
        extra = extras[k % len(extras)]
        cov, chk = line_menu[k % len(line_menu)]
        add((tuple(sorted(forced | set(extra))), combo, cov, chk))
    none = tuple([None] * len(preds))
    for extra in co_menu(reg.code_objects):
        add((tuple(sorted(extra)), none, (), ()))
    for cov, chk in line_menu:
        add(((), none, cov, chk))
    add((tuple(reg.code_objects), tuple((2, 0.0, 0.0) for _ in preds),
         tuple(lines), tuple(lines)))
    if cap is not None and len(out) > cap:
        idx = sorted({round(i * (len(out) - 1) / (cap - 1)) for i in range(cap)})
        out = [out[i] for i in idx]
    return out


# ------------------------------------------------------------------ (de)serialisation
def _f2j(x):
    return "inf" if x == INF else x


def _j2f(x):
    return INF if x == "inf" else float(x)


def spec_to_json(spec):
    cos, preds, cov, chk = spec
    return {"cos": list(cos),
            "preds": [None if s is None else [s[0], _f2j(s[1]), _f2j(s[2])] for s in preds],
            "cov": list(cov), "chk": list(chk)}


def spec_from_json(d):
    return (tuple(d["cos"]),
            tuple(None if s is None else (int(s[0]), _j2f(s[1]), _j2f(s[2])) for s in d["preds"]),
            tuple(d["cov"]), tuple(d["chk"]))


# ------------------------------------------------------------------ real objects
def make_trace(reg: Registry, spec):
    from pynguin.instrumentation.tracer import ExecutionTrace
    from pynguin.utils.orderedset import OrderedSet

    cos, preds, cov, chk = spec
    trace = ExecutionTrace()
    trace.executed_code_objects = OrderedSet(cos)
    for pid, st in zip(reg.pred_ids, preds):
        if st is not None:
            trace.executed_predicates[pid] = st[0]
            trace.true_distances[pid] = st[1]
            trace.false_distances[pid] = st[2]
    trace.covered_line_ids = OrderedSet(cov)
    trace.checked_lines = OrderedSet(chk)
    return trace


def make_result(reg: Registry, spec):
    from pynguin.testcase.execution import ExecutionResult

    result = ExecutionResult()
    result.execution_trace = make_trace(reg, spec)
    reg.sp.validate_execution_trace(result.execution_trace)
    return result


def projection(trace):
    """Coverage/fitness-relevant projection of a trace (order of the ordered sets dropped)."""
    return (tuple(sorted(trace.executed_code_objects)),
            tuple(sorted(trace.executed_predicates.items())),
            tuple(sorted(trace.true_distances.items())),
            tuple(sorted(trace.false_distances.items())),
            tuple(sorted(trace.covered_line_ids)),
            tuple(sorted(trace.checked_lines)))


PROJECTION_FIELDS = ("executed_code_objects", "executed_predicates", "true_distances",
                     "false_distances", "covered_line_ids", "checked_lines")


def make_fake_executor_class():
    from pynguin.testcase.execution import AbstractTestCaseExecutor, ModuleProvider

    class FakeExecutor(AbstractTestCaseExecutor):
        """Real executor subclass; `execute` answers from the spec attached to the test case."""

        def __init__(self, reg):
            self._reg = reg
            self._module_provider = ModuleProvider()
            self._specs = {}        # id(test_case) -> (test_case, spec)
            self.executions = 0

        def attach(self, test_case, spec):
            self._specs[id(test_case)] = (test_case, spec)

        def forget(self):
            self._specs.clear()

        @property
        def module_provider(self):
            return self._module_provider

        def add_observer(self, observer):
            raise NotImplementedError

        def clear_observers(self):
            pass

        def temporarily_add_observer(self, observer):
            return contextlib.nullcontext()

        def add_remote_observer(self, remote_observer):
            raise NotImplementedError

        def clear_remote_observers(self):
            pass

        def temporarily_add_remote_observer(self, remote_observer):
            return contextlib.nullcontext()

        @property
        def subject_properties(self):
            return self._reg.sp

        def execute(self, test_case):
            owner, spec = self._specs[id(test_case)]
            assert owner is test_case
            self.executions += 1
            return make_result(self._reg, spec)

    return FakeExecutor


class Lab:
    """Real chromosomes around a FakeExecutor for one registry."""

    def __init__(self, reg: Registry):
        import libcst as cst

        import pynguin.ga.testcasechromosome as tcc
        import pynguin.ga.testsuitechromosome as tsc
        import pynguin.testcase.testcase as tc

        self.reg = reg
        self.executor = make_fake_executor_class()(reg)
        self._tc, self._tcc, self._tsc = tc, tcc, tsc
        self._node = cst.parse_module("var_0 = 0\n").body[0]

    def test_case(self, spec):
        test_case = self._tc.TestCase()
        test_case.add_statement(self._tc.Statement(node=self._node, bound_variable="var_0",
                                                   bound_type=int))
        self.executor.attach(test_case, spec)
        return test_case

    def chromosome(self, spec):
        return self._tcc.TestCaseChromosome(test_case=self.test_case(spec))

    def suite(self, chromosomes):
        suite = self._tsc.TestSuiteChromosome()
        for chromosome in chromosomes:
            suite.add_test_case_chromosome(chromosome)
        return suite

    def suite_of_specs(self, specs):
        return self.suite([self.chromosome(s) for s in specs])
