"""Dynamic dependence interpreter for the C09 language fragment ``L``.

An independent, deliberately boring AST interpreter.  It executes a module of
the fragment (one global ``G``, one class ``Box`` with a class attribute, two
functions ``f(a)`` and ``g(v)`` whose bodies are statement sequences from the
C09 menu) on one input and builds the *dynamic dependence graph* of that
execution:

* a ``Node`` is one dynamic instance of a statement (or of a parameter binding,
  or of a test-case statement; the latter have ``line is None``);
* an edge ``u -> w`` labelled with a *construct* says: the value computed by
  ``u`` used the value that ``w`` wrote, and the value travelled through that
  construct (``local`` variable, ``global`` variable, ``global-init`` =
  module-level initialisation of the global, instance ``attribute``,
  ``class-attribute``, container ``subscript``, ``call-arg`` = parameter
  binding, ``call-return``; ``attribute-base`` / ``subscript-base`` = the local
  variable that holds the object / container of an attribute or subscript
  access) or ``u`` was executed because the branch condition ``w`` was taken
  (``control``).

The graph is *precise* on purpose (element-wise for containers, a call result
depends on the argument only when the callee's returned value used the
parameter): the C09 oracle demands soundness of the slicer only, so it must
never demand a line the sliced value does not really depend on.

Nothing of pynguin is imported here.  The interpreter is validated by the
harness for every program: its values / raised exception types and its set of
executed lines must equal a real (uninstrumented) CPython execution.
"""

from __future__ import annotations

import ast

CONSTRUCTS = ("local", "global", "global-init", "attribute", "attribute-base", "class-attribute",
              "subscript", "subscript-base", "call-arg", "call-return", "control")


class Node:
    __slots__ = ("nid", "line", "what", "edges")

    def __init__(self, nid, line, what):
        self.nid, self.line, self.what = nid, line, what
        self.edges: list[tuple[Node, str]] = []

    def edge(self, target, kind):
        if target is not None and all(not (t is target and k == kind) for t, k in self.edges):
            self.edges.append((target, kind))

    def __repr__(self):
        return f"<{self.what}@{self.line}#{self.nid}>"


class Obj:
    """Instance of the SUT class."""

    def __init__(self, cls):
        self.cls = cls
        self.attrs: dict[str, tuple] = {}


class Cls:
    def __init__(self, name):
        self.name = name
        self.attrs: dict[str, tuple] = {}


class Lst:
    def __init__(self, elems):
        self.elems = elems  # list of (value, src)


class Dct:
    def __init__(self, items):
        self.items = items  # key -> (value, src)


class Fun:
    def __init__(self, node):
        self.node = node


class Raised(Exception):
    """The interpreted program raised ``exc`` (a Python exception type name)."""

    def __init__(self, exc):
        super().__init__(exc)
        self.exc = exc


class _Return(Exception):
    def __init__(self, value, src):
        self.value, self.src = value, src


class Frame:
    def __init__(self, globals_decl):
        self.locals: dict[str, tuple] = {}
        self.ctrl: list[Node] = []
        self.globals_decl = globals_decl


class Interp:
    def __init__(self, source: str):
        self.tree = ast.parse(source)
        self.globals: dict[str, tuple] = {}
        self.import_lines: set[int] = set()
        self.test_lines: set[int] = set()
        self._lines = self.import_lines
        self._n = 0
        self.nodes: list[Node] = []
        self.fired: set[str] = set()
        self._module()

    # ------------------------------------------------------------ plumbing
    def node(self, line, what):
        n = Node(self._n, line, what)
        self._n += 1
        self.nodes.append(n)
        return n

    def _module(self):
        for st in self.tree.body:
            self._lines.add(st.lineno)
            if isinstance(st, ast.Assign):
                (t,) = st.targets
                assert isinstance(t, ast.Name) and isinstance(st.value, ast.Constant)
                self.globals[t.id] = (st.value.value, self.node(st.lineno, "module-assign"))
            elif isinstance(st, ast.ClassDef):
                c = Cls(st.name)
                for cs in st.body:
                    self._lines.add(cs.lineno)
                    assert isinstance(cs, ast.Assign) and isinstance(cs.value, ast.Constant)
                    c.attrs[cs.targets[0].id] = (cs.value.value, self.node(cs.lineno, "class-assign"))
                self.globals[st.name] = (c, None)
            elif isinstance(st, ast.FunctionDef):
                self.globals[st.name] = (Fun(st), None)
            else:
                raise AssertionError(f"outside fragment: {ast.dump(st)}")

    # ------------------------------------------------------------ expressions
    def _read_name(self, name, frame, n, role=None):
        if name in frame.locals and name not in frame.globals_decl:
            v, src = frame.locals[name]
            if src is not None:
                n.edge(src, role or ("call-arg" if src.what == "param" else "local"))
            return v, src
        if name not in self.globals:
            raise Raised("NameError")
        v, src = self.globals[name]
        if src is not None:
            n.edge(src, "global-init" if src.what == "module-assign" else "global")
        return v, src

    def eval(self, e, frame, n, role=None):
        """Evaluate ``e``; add the dependence edges of the reads to ``n``; return the value."""
        if isinstance(e, ast.Constant):
            return e.value
        if isinstance(e, ast.Name):
            return self._read_name(e.id, frame, n, role)[0]
        if isinstance(e, ast.BinOp):
            lhs, rhs = self.eval(e.left, frame, n), self.eval(e.right, frame, n)
            try:
                if isinstance(e.op, ast.Add):
                    return lhs + rhs
                if isinstance(e.op, ast.Mult):
                    return lhs * rhs
            except TypeError:
                raise Raised("TypeError") from None
            raise AssertionError("operator outside fragment")
        if isinstance(e, ast.Compare):
            lhs = self.eval(e.left, frame, n)
            rhs = self.eval(e.comparators[0], frame, n)
            assert len(e.ops) == 1 and isinstance(e.ops[0], ast.Gt)
            try:
                return lhs > rhs
            except TypeError:
                raise Raised("TypeError") from None
        if isinstance(e, ast.Attribute):
            obj = self.eval(e.value, frame, n, "attribute-base")
            assert isinstance(obj, Obj)
            if e.attr in obj.attrs:
                v, src = obj.attrs[e.attr]
                n.edge(src, "attribute")
                return v
            if e.attr in obj.cls.attrs:
                v, src = obj.cls.attrs[e.attr]
                n.edge(src, "class-attribute")
                return v
            raise Raised("AttributeError")
        if isinstance(e, ast.Subscript):
            cont = self.eval(e.value, frame, n, "subscript-base")
            key = e.slice.value
            if isinstance(cont, Lst):
                v, src = cont.elems[key]
            else:
                assert isinstance(cont, Dct)
                v, src = cont.items[key]
            n.edge(src, "subscript")
            return v
        if isinstance(e, ast.List):
            # element-wise: the container statement itself does not depend on its elements;
            # a later subscript read depends on exactly the element it reads
            return Lst([self._elem(x, frame, n) for x in e.elts])
        if isinstance(e, ast.Dict):
            return Dct({k.value: self._elem(x, frame, n) for k, x in zip(e.keys, e.values)})
        raise AssertionError(f"expression outside fragment: {ast.dump(e)}")

    def _elem(self, x, frame, n):
        """A container element: its own value and the statement that produced that value.

        The element is *copied into* the container by the container statement, so a
        later read depends on the producer of the value and (through the variable that
        holds the container) on the container statement; the container statement's
        line therefore never hides the element's producer.
        """
        assert isinstance(x, ast.Name)
        probe = Node(-1, None, "probe")
        v, src = self._read_name(x.id, frame, probe)
        return (v, src)

    # ------------------------------------------------------------ calls
    def call(self, fun: Fun, arg, arg_src, call_line, ctrl):
        fd = fun.node
        decl = {nm for st in fd.body if isinstance(st, ast.Global) for nm in st.names}
        frame = Frame(decl)
        p = self.node(call_line, "param")
        p.edge(arg_src, "local")
        for c in ctrl:
            p.edge(c, "control")
        frame.locals[fd.args.args[0].arg] = (arg, p)
        try:
            self.block(fd.body, frame)
        except _Return as r:
            return r.value, r.src
        return None, None

    # ------------------------------------------------------------ statements
    def block(self, body, frame):
        for st in body:
            self.stmt(st, frame)

    def _new(self, st, frame, what):
        self._lines.add(st.lineno)
        n = self.node(st.lineno, what)
        for c in frame.ctrl:
            n.edge(c, "control")
        return n

    def stmt(self, st, frame):  # noqa: C901
        if isinstance(st, ast.Global):
            return
        if isinstance(st, ast.Return):
            n = self._new(st, frame, "return")
            v = self.eval(st.value, frame, n)
            self.fired.add("return")
            raise _Return(v, n)
        if isinstance(st, ast.If):
            n = self._new(st, frame, "if")
            cond = self.eval(st.test, frame, n)
            branch = st.body if cond else st.orelse
            self.fired.add("if-taken" if cond else ("if-else" if st.orelse else "if-skipped"))
            frame.ctrl.append(n)
            try:
                self.block(branch, frame)
            finally:
                frame.ctrl.pop()
            return
        assert isinstance(st, ast.Assign), ast.dump(st)
        (t,) = st.targets
        n = self._new(st, frame, "assign")
        if isinstance(st.value, ast.Call):
            fn = st.value.func.id
            callee, _ = self.globals[fn]
            if isinstance(callee, Cls):
                value = Obj(callee)
                self.fired.add("new")
            else:
                (argx,) = st.value.args
                probe = Node(-1, None, "probe")
                av, asrc = self._read_name(argx.id, frame, probe)
                value, rsrc = self.call(callee, av, asrc, st.lineno, frame.ctrl)
                n.edge(rsrc, "call-return")
                self.fired.add("call")
        else:
            value = self.eval(st.value, frame, n)
        if isinstance(t, ast.Name):
            if t.id in frame.globals_decl:
                self.globals[t.id] = (value, n)
                self.fired.add("global-store")
            else:
                frame.locals[t.id] = (value, n)
        elif isinstance(t, ast.Subscript):
            # container store: a later read of that element depends on THIS statement (and through it on the
            # stored value); the container object itself is shared, not copied
            cont = self.eval(t.value, frame, n, "subscript-base")
            key = t.slice.value
            if isinstance(cont, Lst):
                if not -len(cont.elems) <= key < len(cont.elems):
                    raise Raised("IndexError")
                cont.elems[key] = (value, n)
            else:
                assert isinstance(cont, Dct)
                cont.items[key] = (value, n)
            self.fired.add("subscript-store")
        else:
            assert isinstance(t, ast.Attribute)
            obj = self.eval(t.value, frame, n, "attribute-base")
            assert isinstance(obj, Obj)
            obj.attrs[t.attr] = (value, n)
            self.fired.add("attr-store")

    # ------------------------------------------------------------ the test case
    def run_test(self, a):
        """``int_0 = a; var_0 = f(int_0); var_1 = g(var_0)``; stops at the first exception.

        Returns a list with one entry per executed call statement:
        ``("ok", value, root_node)`` or ``("raises", exc_name, None)``.
        """
        self._lines = self.test_lines
        out = []
        t_in = self.node(None, "test-input")
        cur, cur_src = a, t_in
        for fname in ("f", "g"):
            fun, _ = self.globals[fname]
            root = self.node(None, "test-call")
            try:
                v, rsrc = self.call(fun, cur, cur_src, None, [])
            except Raised as r:
                out.append(("raises", r.exc, None))
                break
            root.edge(rsrc, "call-return")
            out.append(("ok", v, root))
            cur, cur_src = v, root
        return out


def demanded(root: Node) -> dict[int, set[str]]:
    """All SUT lines the value of ``root`` depends on -> constructs of the edges that reach them."""
    seen, todo, lines = {root.nid}, [root], {}
    while todo:
        u = todo.pop()
        for w, kind in u.edges:
            if w.line is not None:
                lines.setdefault(w.line, set()).add(kind)
            if w.nid not in seen:
                seen.add(w.nid)
                todo.append(w)
    return lines


def missing_frontier(root: Node, slice_lines: set[int]) -> list[tuple[str, int, int | None]]:
    """Dependence edges that leave the slice: ``(construct, missing line, line of the user)``.

    The graph is walked from the criterion through nodes whose line is in the
    slice (or that belong to the test case); an edge to a node whose line is not
    in the slice is a lost dependence, classified by the construct of that edge.
    """
    seen, todo, out = {root.nid}, [root], []
    while todo:
        u = todo.pop()
        for w, kind in u.edges:
            if w.line is not None and w.line not in slice_lines:
                out.append((kind, w.line, u.line))
                continue
            if w.nid not in seen:
                seen.add(w.nid)
                todo.append(w)
    return sorted(set(out), key=lambda t: (t[0], t[1], -1 if t[2] is None else t[2]))
