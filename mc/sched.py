"""E4 — cooperative scheduler for the executor's timeout / abandon protocol.

Real ``threading.Thread`` objects, one baton: exactly one registered thread runs
at a time; a thread gives the baton away only at *scheduling points*. The
explorer (a ``mc.explore.Chooser``) decides at every point which enabled thread
runs next (index 0 = the running thread continues), and decides when a timed
``Thread.join(timeout)`` "times out" — no real clock is involved.

* ``pynguin.testcase.execution.threading`` is rebound to a shim whose ``Thread``
  is ``CoopThread``; everything else is forwarded to the real module.
* Scheduling points are installed by wrapping, from the harness, the methods
  through which threads can observe each other: every tracer callback reached
  from instrumented code, ``ExecutionTracer.check`` (point *after* the check
  passed: the classic check-then-act window), ``stop``, statement boundaries of
  the executor, and entry/exit of the output-suppression and filesystem
  isolation context managers.
* A thread that has taken ``horizon`` SUT steps (tracer callbacks from instrumented
  code, cooperative sleeps) since the main thread last blocked is not continued any more (a looping SUT is thereby cut); if then only a
  timed join is enabled, its timeout fires. No enabled thread = deadlock.
"""

from __future__ import annotations

import contextlib
import threading as _real_threading
import types

from mc.ctx import HarnessError

ACTIVE = None  # the Scheduler of the running execution, if any


class _T:
    def __init__(self, idx, thread, main=False):
        self.idx = idx
        self.thread = thread
        self.main = main
        self.sem = _real_threading.Semaphore(0)
        self.done = False
        self.status = "ready"
        self.join_target = None
        self.join_timed = False
        self.steps = 0
        self.total_steps = 0
        self.killed = False


class Deadlock(BaseException):
    pass


def _reaped():
    """The exception that unwinds an abandoned thread when its schedule is over: pynguin's own
    thread-kill signal (every handler of the executor lets it propagate)."""
    from pynguin.utils.exceptions import TracingAbortedException

    return TracingAbortedException("schedule over: abandoned thread reaped by the harness")


class Scheduler:
    def __init__(self, chooser, horizon=5):
        self.ch = chooser
        self.H = horizon
        self.order: list[_T] = []
        self.by_ident: dict[int, _T] = {}
        self.cur: _T | None = None
        self.log: list = []
        self.error: BaseException | None = None
        self.deadlock = False
        self.timeouts_fired = 0
        self.preemptions = 0
        self.reaping = False
        main = _T(0, _real_threading.current_thread(), main=True)
        self.order.append(main)
        self.by_ident[_real_threading.get_ident()] = main
        self.cur = main

    # ------------------------------------------------------------ helpers
    def me(self):
        return self.by_ident.get(_real_threading.get_ident())

    def enabled(self, t: _T) -> bool:
        if t.done:
            return False
        if t.status == "ready":
            return t.main or t.steps < self.H
        if t.status == "join":
            return t.join_target.done or t.join_timed
        if t.status == "drain":
            return False
        return False

    def _choose(self, kind, n):
        if n <= 1:
            return 0
        try:
            return self.ch.choose(kind, n)
        except BaseException as exc:  # noqa: BLE001
            if self.error is None:
                self.error = exc
            return 0

    def _switch(self, me: _T, nxt: _T, wait=True):
        if nxt is me:
            return
        self.cur = nxt
        nxt.sem.release()
        if wait:
            me.sem.acquire()
            if me.killed:
                raise _reaped()

    def _pick(self, me: _T, label: str, self_first: bool, self_ok: bool):
        others = [t for t in self.order if t is not me and self.enabled(t)]
        cands = []
        if self_ok and self.enabled(me) and self_first:
            cands.append(me)
        cands.extend(others)
        if self_ok and self.enabled(me) and not self_first:
            cands.append(me)
        return cands

    # ------------------------------------------------------------ points
    def point(self, label: str):
        me = self.me()
        if me is not None and me.killed:
            raise _reaped()   # keeps unwinding even if the SUT swallowed the first one
        if me is None or me is not self.cur:
            return  # unregistered thread (not ours) - ignore
        if not me.main:
            # only steps taken by instrumented SUT code (callbacks, cooperative sleeps) count
            # towards the horizon: the framework part of an execution is finite anyway
            if label.startswith("cb:") or label in ("sleep", "after-check"):
                me.steps += 1
            me.total_steps += 1
        cands = self._pick(me, label, self_first=True, self_ok=True)
        if not cands:
            # running thread exhausted its horizon and nobody else can run
            self.deadlock = True
            raise Deadlock(label)
        idx = self._choose("sched", len(cands))
        nxt = cands[idx]
        self.log.append((me.idx, label, nxt.idx))
        if nxt is not me:
            if cands[0] is me:
                self.preemptions += 1
            self._switch(me, nxt)

    def spawn(self, thread) -> _T:
        t = _T(len(self.order), thread)
        self.order.append(t)
        return t

    def join(self, target: _T, timeout):
        me = self.me()
        if me is None:
            raise HarnessError("join from an unregistered thread")
        for t in self.order:
            if not t.main:
                t.steps = 0
        me.status = "join"
        me.join_target = target
        me.join_timed = timeout is not None
        try:
            while not target.done:
                cands = self._pick(me, "join", self_first=False, self_ok=True)
                # default: the thread we are waiting for runs (older abandoned threads only
                # run when the explorer deviates)
                cands.sort(key=lambda t: (t is me, t is not target, t.idx))
                if not cands:
                    self.deadlock = True
                    raise Deadlock("join: nobody enabled (hang)")
                idx = self._choose("join", len(cands))
                nxt = cands[idx]
                self.log.append((me.idx, "join", nxt.idx))
                if nxt is me:
                    self.timeouts_fired += 1
                    return  # the timeout fires now
                self._switch(me, nxt)
                # woken up: either target finished, or somebody chose us = timeout fires
                if not target.done:
                    self.timeouts_fired += 1
                    return
        finally:
            me.status = "ready"
            me.join_target = None

    def exit(self, me: _T):
        me.done = True
        if self.reaping or me.killed:
            return
        cands = [t for t in self.order if t is not me and self.enabled(t)]
        # default: real work continues; waking a thread whose timed join would thereby
        # "time out" is a deviation
        cands.sort(key=lambda t: (t.status == "join" and not t.join_target.done, t.idx))
        if not cands:
            # nobody to hand the baton to: wake main unconditionally
            main = self.order[0]
            self.cur = main
            main.sem.release()
            return
        idx = self._choose("exit", len(cands))
        nxt = cands[idx]
        self.log.append((me.idx, "exit", nxt.idx))
        self.cur = nxt
        nxt.sem.release()

    def drain(self):
        """Main thread: let every remaining thread run to completion (or to its horizon)."""
        me = self.me()
        for t in self.order:
            if not t.main:
                t.steps = 0
        while True:
            others = [t for t in self.order if t is not me and self.enabled(t)]
            if not others:
                break
            idx = self._choose("drain", len(others))
            nxt = others[idx]
            me.status = "join"
            me.join_target = nxt
            me.join_timed = True  # we can always be woken
            self._switch(me, nxt)
            me.status = "ready"
        return [t.idx for t in self.order if not t.done and not t.main]

    def reap(self):
        """After the schedule: unwind every thread that is still parked (abandoned threads that hit their
        horizon, threads never scheduled) so that explored schedules do not accumulate OS threads."""
        self.reaping = True
        parked = [t for t in self.order if not t.main and not t.done]
        for t in parked:
            t.killed = True
            t.sem.release()
        for t in parked:
            _real_threading.Thread.join(t.thread, 10.0)
        return [t.idx for t in parked if _real_threading.Thread.is_alive(t.thread)]


class CoopThread(_real_threading.Thread):
    """Thread whose start/join/run are mediated by the active Scheduler."""

    def __init__(self, *a, **k):
        super().__init__(*a, **k)
        self._coop = None

    def start(self):
        s = ACTIVE
        if s is None or s.me() is None:
            return super().start()
        self._coop = s.spawn(self)
        super().start()
        s.point("thread.start")

    def run(self):
        s = ACTIVE
        t = self._coop
        if s is None or t is None:
            return super().run()
        t.sem.acquire()          # wait to be scheduled for the first time
        s.by_ident[_real_threading.get_ident()] = t
        if t.killed:             # never scheduled before its schedule ended
            t.done = True
            return
        try:
            super().run()
        except Deadlock:
            pass
        except BaseException:    # noqa: BLE001
            if not t.killed:
                raise
        finally:
            s.exit(t)

    def join(self, timeout=None):
        s = ACTIVE
        if s is None or self._coop is None or s.me() is None:
            return super().join(timeout)
        s.join(self._coop, timeout)
        if self._coop.done:
            super().join(5.0)

    def is_alive(self):
        if self._coop is not None:
            return not self._coop.done
        return super().is_alive()


def _shim_module():
    shim = types.ModuleType("threading_shim")
    for name in dir(_real_threading):
        if not name.startswith("__"):
            setattr(shim, name, getattr(_real_threading, name))
    shim.Thread = CoopThread
    return shim


def _wrap(owner, name, label, when="before"):
    orig = getattr(owner, name)

    def wrapper(*a, **k):
        s = ACTIVE
        if s is not None and when == "before":
            s.point(label)
        r = orig(*a, **k)
        if s is not None and when == "after":
            s.point(label)
        return r

    wrapper.__name__ = getattr(orig, "__name__", name)
    wrapper.__wrapped__ = orig
    setattr(owner, name, wrapper)
    return (owner, name, orig)


@contextlib.contextmanager
def installed():
    """Install the thread shim and the scheduling points (no scheduler active yet)."""
    import pynguin.instrumentation.tracer as tr
    import pynguin.testcase.execution as ex
    import pynguin.testcase.execution_isolation as iso
    import pynguin.utils.fs_isolation as fsi

    saved = []
    old_threading = ex.threading
    ex.threading = _shim_module()
    try:
        for m in ("track_line_visit", "executed_code_object", "executed_compare_predicate",
                  "executed_bool_predicate", "executed_exception_match",
                  "executed_in_presence_predicate"):
            saved.append(_wrap(tr.InstrumentationExecutionTracer, m, "cb:" + m))
        saved.append(_wrap(tr.ExecutionTracer, "check", "after-check", when="after"))
        saved.append(_wrap(tr.ExecutionTracer, "stop", "stop"))
        saved.append(_wrap(tr.ExecutionTracer, "init_trace", "init_trace"))
        saved.append(_wrap(ex.TestCaseExecutor, "_before_statement_execution", "before-stmt"))
        saved.append(_wrap(ex.TestCaseExecutor, "_after_statement_execution", "after-stmt"))
        saved.append(_wrap(ex.TestCaseExecutor, "_after_test_case_execution", "after-test"))
        saved.append(_wrap(iso.OutputSuppressionContext, "__enter__", "out.enter"))
        saved.append(_wrap(iso.OutputSuppressionContext, "__exit__", "out.exit"))
        saved.append(_wrap(iso.OutputSuppressionContext, "restore", "out.restore"))
        saved.append(_wrap(fsi.FilesystemIsolation, "__enter__", "fs.enter"))
        saved.append(_wrap(fsi.FilesystemIsolation, "__exit__", "fs.exit"))
        yield
    finally:
        for owner, name, orig in reversed(saved):
            setattr(owner, name, orig)
        ex.threading = old_threading


@contextlib.contextmanager
def scheduled(chooser, horizon=5):
    """Run the body (on the calling thread = main) under a fresh Scheduler."""
    global ACTIVE
    s = Scheduler(chooser, horizon)
    ACTIVE = s
    try:
        yield s
    finally:
        try:
            s.leaked = s.drain()
        finally:
            try:
                s.unreaped = s.reap()
            finally:
                ACTIVE = None
