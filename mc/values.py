"""Shared adversarial value alphabet (DESIGN 4.2), ordered simplest-first.

Importable without pynguin. Every value is described by a ``V`` record:

``label``   stable unique short name (``"int:2^53+1"``, ``"u:lt+le:bool"``) – replay key
``cls``     fine class label (``"int>2^53"``, ``"float:nan"``, ``"user:{__lt__}:bool"``)
``coarse``  class label meant for fingerprints: all values for which one defect shows
            in the same way share it (all 190 generated user classes are ``"user"``)
``family``  top-level family: num, none, str, bytes, container, iterator, user
``make()``  factory – returns a *fresh* object on every call (one-shot iterators and
            generators are re-created, user objects are new instances)
``oneshot`` True for iterators / generators (``remaining(obj)`` drains what is left)
``sharp``   member of the small "sharp half" used where a product must stay small

User classes are generated from the power set of the six rich-comparison methods
(64 subsets) x {returns bool, returns NotImplemented, raises ValueError}; the empty
subset is the same class for all three behaviours, hence 1 + 63 * 3 = 190 classes.
Every dunder of every user object appends ``(role, dunder)`` to the shared ``OPLOG``;
``role`` is the ``_role`` attribute of the instance (set it after ``make()``; default
``"?"``). The "returns bool" classes implement one consistent total order on the
instance key ``k`` (a foreign int/float operand is its own key, anything else
compares as unequal / unordered = False), so that a wrong verdict about them cannot
be blamed on contradictory user operators.
"""

from __future__ import annotations

import itertools
from decimal import Decimal
from fractions import Fraction

OPLOG: list = []

RICH = ("__lt__", "__le__", "__eq__", "__ne__", "__gt__", "__ge__")
BEHAVIOURS = ("bool", "notimpl", "raises")
_SHORT = {"__lt__": "lt", "__le__": "le", "__eq__": "eq", "__ne__": "ne", "__gt__": "gt",
          "__ge__": "ge"}


def oplog_clear() -> None:
    del OPLOG[:]


def oplog_snapshot() -> list:
    return list(OPLOG)


class UserBase:
    """Base of all generated user objects (only a marker, a key and a role)."""

    _role = "?"
    k = 0

    def __repr__(self):  # never contains an address
        return f"<{type(self).__name__} k={self.k}>"


def _key_of(other):
    k = getattr(other, "k", None)
    if k is not None and isinstance(other, UserBase):
        return k
    if isinstance(other, (int, float)) and other == other:
        return other
    return None


_PLAIN = {
    "__lt__": lambda a, b: a < b,
    "__le__": lambda a, b: a <= b,
    "__eq__": lambda a, b: a == b,
    "__ne__": lambda a, b: a != b,
    "__gt__": lambda a, b: a > b,
    "__ge__": lambda a, b: a >= b,
}


def _make_method(name: str, behaviour: str):
    plain = _PLAIN[name]

    if behaviour == "bool":
        def method(self, other):
            OPLOG.append((self._role, name))
            ko = _key_of(other)
            if ko is None:
                return name == "__ne__"
            return plain(self.k, ko)
    elif behaviour == "notimpl":
        def method(self, other):
            OPLOG.append((self._role, name))
            return NotImplemented
    else:
        def method(self, other):
            OPLOG.append((self._role, name))
            raise ValueError(f"{name} of user object")
    method.__name__ = name
    return method


def _logged_hash(self):
    # consistent with key equality (objects that compare equal to the int k hash like it)
    OPLOG.append((self._role, "__hash__"))
    return hash(self.k)


def make_user_class(methods: tuple, behaviour: str) -> type:
    """The generated class defining exactly ``methods`` (subset of RICH) with ``behaviour``."""
    ns = {name: _make_method(name, behaviour) for name in methods}
    ns["__hash__"] = _logged_hash  # generated classes stay hashable (see EqNoHash for the other case)
    ns["k"] = len(methods)
    short = "+".join(_SHORT[m] for m in methods) or "none"
    cname = f"U_{short.replace('+', '_')}_{behaviour if methods else 'x'}"
    return type(cname, (UserBase,), ns)


def user_class_specs():
    """[(label, cls-label, methods, behaviour, class)] for the 190 generated classes, smallest first."""
    out = []
    for r in range(len(RICH) + 1):
        for methods in itertools.combinations(RICH, r):
            for beh in BEHAVIOURS:
                if not methods and beh != "bool":
                    continue
                short = "+".join(_SHORT[m] for m in methods) or "none"
                label = f"u:{short}:{beh}" if methods else "u:none"
                clsl = "user:{" + ",".join(methods) + "}" + (f":{beh}" if methods else "")
                out.append((label, clsl, methods, beh, make_user_class(methods, beh)))
    return out


# ---------------------------------------------------------------- special user objects
class BoolRaises(UserBase):
    def __bool__(self):
        OPLOG.append((self._role, "__bool__"))
        raise ValueError("__bool__ of user object")


class LenOnly(UserBase):
    """Sized, nothing else; two instances: empty and of length 2."""

    def __init__(self, n=2):
        self.n = n

    def __len__(self):
        OPLOG.append((self._role, "__len__"))
        return self.n


class ContainsOnly(UserBase):
    def __contains__(self, item):
        OPLOG.append((self._role, "__contains__"))
        return type(item) is int and item == 1


class IterOnly(UserBase):
    def __iter__(self):
        OPLOG.append((self._role, "__iter__"))
        return iter([1, 2])


class EqNoHash(UserBase):
    """Defines __eq__ and therefore has ``__hash__ = None``."""

    def __eq__(self, other):
        OPLOG.append((self._role, "__eq__"))
        return isinstance(other, EqNoHash)


class BoolLen(UserBase):
    """Defines BOTH __bool__ and __len__, and they disagree (Python's truth test prefers __bool__)."""

    def __init__(self, truth=True, n=0):
        self.truth, self.n = truth, n

    def __bool__(self):
        OPLOG.append((self._role, "__bool__"))
        return self.truth

    def __len__(self):
        OPLOG.append((self._role, "__len__"))
        return self.n


class StrNeverEq(str):
    """A str subclass whose == is False even for identical content."""

    _role = "?"

    def __eq__(self, other):
        OPLOG.append((self._role, "__eq__"))
        return False

    def __ne__(self, other):
        OPLOG.append((self._role, "__ne__"))
        return True

    __hash__ = str.__hash__


class ContainsDisagreesWithIter(UserBase):
    """__contains__ says no, although iteration yields an equal element."""

    def __contains__(self, item):
        OPLOG.append((self._role, "__contains__"))
        return False

    def __iter__(self):
        OPLOG.append((self._role, "__iter__"))
        return iter([1, 2])


def _gen():
    yield 1
    yield 2


class V:
    __slots__ = ("label", "cls", "coarse", "family", "make", "oneshot", "sharp", "index")

    def __init__(self, label, cls, family, make, coarse=None, oneshot=False, sharp=False):
        self.label, self.cls, self.family, self.make = label, cls, family, make
        self.coarse = coarse or cls
        self.oneshot, self.sharp = oneshot, sharp
        self.index = -1

    def __repr__(self):
        return f"V({self.label})"


def const(x):
    return lambda: x


def int_class(x: int) -> str:
    if abs(x) <= 2 ** 53:
        return "int"
    try:
        float(x)
    except OverflowError:
        return "int>1e308"
    return "int>2^53"


def float_class(x: float) -> str:
    if x != x:
        return "float:nan"
    if x in (float("inf"), float("-inf")):
        return "float:inf"
    return "float"


def _int_label(x: int) -> str:
    for base, name in ((2 ** 53, "2^53"), (2 ** 63, "2^63"), (2 ** 64, "2^64"),
                       (10 ** 400, "1e400"), (2 ** 1024, "2^1024")):
        for sign, sname in ((1, ""), (-1, "-")):
            for d in (-2, -1, 0, 1, 2, 3):
                if x == sign * (base + d):
                    return f"int:{sname}{name}{'%+d' % d if d else ''}"
    return f"int:{x}"


def _ints(xs, sharp=()):
    return [V(_int_label(x), int_class(x), "num", const(x), sharp=x in sharp) for x in xs]


def _floats(xs, sharp=()):
    out = []
    for x in xs:
        # a fresh float object per use (identity of NaN matters inside containers)
        out.append(V(f"float:{x!r}", float_class(x), "num", (lambda r=repr(x): float(r)),
                     sharp=repr(x) in sharp))
    return out


def _strs(xs, sharp=()):
    return [V("str:" + ascii(x)[1:-1], "str", "str", const(x), sharp=x in sharp) for x in xs]


def alphabet(tier: str = "quick") -> list:
    """The ordered alphabet. ``thorough`` is a superset of ``quick`` (same labels)."""
    thorough = tier == "thorough"
    nan = float("nan")
    vs: list[V] = []
    ints = [0, 1, -1, 2, 2 ** 53, 2 ** 53 + 1, 10 ** 400, -10 ** 400]
    if thorough:
        ints += [3, -2, 255, 2 ** 53 - 1, 2 ** 53 + 2, 2 ** 53 + 3, -(2 ** 53), -(2 ** 53 + 1),
                 2 ** 63, 2 ** 64 + 1, 2 ** 1024 - 1, 2 ** 1024, 10 ** 400 + 1]
    vs += _ints(ints, sharp=(0, 1, 2 ** 53 + 1, 10 ** 400))
    floats = [0.0, -0.0, 1.5, 0.1, 1e308, 5e-324, 2.0 ** 53, float("inf"), float("-inf"), nan]
    if thorough:
        floats[6:6] = [1.0, -1.5, -1e308, -5e-324, 2.0 ** 53 + 2.0, -(2.0 ** 53),
                       1.7976931348623157e308, 2.2250738585072014e-308]
    vs += _floats(floats, sharp=("0.0", "-0.0", "inf", "nan"))
    vs += [V("bool:True", "bool", "num", const(True), sharp=True),
           V("bool:False", "bool", "num", const(False)),
           V("None", "none", "none", const(None), sharp=True)]
    vs += [V("complex:1+2j", "complex", "num", const(1 + 2j)),
           V("complex:nan", "complex:nan", "num", lambda: complex(float("nan"), 0))]
    if thorough:
        vs += [V("complex:1+0j", "complex", "num", const(1 + 0j)),
               V("complex:inf", "complex:inf", "num", lambda: complex(float("inf"), 0))]
    vs += [V("Decimal:1.5", "decimal", "num", lambda: Decimal("1.5")),
           V("Decimal:NaN", "decimal:nan", "num", lambda: Decimal("NaN"), sharp=True),
           V("Fraction:1/3", "fraction", "num", lambda: Fraction(1, 3)),
           # unequal to a float / Fraction above although float() maps both to the same double
           # (and Decimal - float / Decimal - Fraction raise TypeError: the conversion fallback)
           V("Decimal:0.1", "decimal~float", "num", lambda: Decimal("0.1")),
           V("Decimal:2^53+1", "decimal~float", "num", lambda: Decimal(2 ** 53 + 1)),
           V("Decimal:1/3", "decimal~float", "num", lambda: Decimal(1) / Decimal(3))]
    if thorough:
        vs += [V("Decimal:0", "decimal", "num", lambda: Decimal("0")),
               V("Decimal:Infinity", "decimal:inf", "num", lambda: Decimal("Infinity")),
               V("Decimal:sNaN", "decimal:nan", "num", lambda: Decimal("sNaN")),
               V("Fraction:3/2", "fraction", "num", lambda: Fraction(3, 2)),
               V("Fraction:2^53+1", "fraction>2^53", "num", lambda: Fraction(2 ** 53 + 1, 1))]
    strs = ["", "a", "b", "ab", "\x00", "é", "\U0001F600"]
    if thorough:
        have = set(strs)
        strs += [s for n in (2, 3) for s in map("".join, itertools.product("ab", repeat=n))
                 if s not in have]
        strs += ["A", "a\x00"]
    vs += _strs(strs, sharp=("", "a"))
    vs += [V("bytes:", "bytes", "bytes", const(b"")),
           V("bytes:a", "bytes", "bytes", const(b"a"), sharp=True),
           V("bytes:ff", "bytes", "bytes", const(b"\xff")),
           V("bytearray:a", "bytes", "bytes", lambda: bytearray(b"a"))]
    if thorough:
        vs += [V("bytes:b", "bytes", "bytes", const(b"b")),
               V("bytes:ab", "bytes", "bytes", const(b"ab")),
               V("bytearray:", "bytes", "bytes", lambda: bytearray())]
    vs += [V("list:[]", "list", "container", list),
           V("list:[1]", "list", "container", lambda: [1], sharp=True),
           V("list:[nan]", "list:nan", "container", lambda: [float("nan")], sharp=True),
           V("tuple:(1,)", "tuple", "container", lambda: (1,)),
           V("tuple:(a,b)", "tuple", "container", lambda: ("a", "b")),
           V("set:{1}", "set", "container", lambda: {1}),
           V("set:{2}", "set", "container", lambda: {2}),
           V("frozenset:{1}", "set", "container", lambda: frozenset({1})),
           V("dict:{a:1}", "dict", "container", lambda: {"a": 1}),
           V("range:3", "range", "container", lambda: range(3))]
    if thorough:
        vs += [V("list:[1,2]", "list", "container", lambda: [1, 2]),
               V("list:[[]]", "list", "container", lambda: [[]]),
               V("tuple:()", "tuple", "container", tuple),
               V("tuple:(nan,)", "tuple:nan", "container", lambda: (float("nan"),)),
               V("set:{1,2}", "set", "container", lambda: {1, 2}),
               V("set:{}", "set", "container", set),
               V("dict:{}", "dict", "container", dict),
               V("dict:{1:a}", "dict", "container", lambda: {1: "a"}),
               V("range:0", "range", "container", lambda: range(0))]
    vs += [V("iter:[1,2]", "iterator", "iterator", lambda: iter([1, 2]), oneshot=True, sharp=True),
           V("gen:1,2", "iterator", "iterator", _gen, oneshot=True)]
    if thorough:
        vs += [V("iter:[]", "iterator", "iterator", lambda: iter([]), oneshot=True),
               V("iter:ab", "iterator", "iterator", lambda: iter("ab"), oneshot=True)]
    for label, clsl, methods, beh, klass in _user_specs():
        vs.append(V(label, clsl, "user", klass, coarse="user",
                    sharp=label in ("u:lt:bool", "u:eq:raises")))
    vs += [V("u:bool-raises", "user:bool-raises", "user", BoolRaises),
           V("u:len-only:2", "user:len-only", "user", LenOnly),
           V("u:len-only:0", "user:len-only", "user", lambda: LenOnly(0)),
           V("u:contains-only", "user:contains-only", "user", ContainsOnly),
           V("u:iter-only", "user:iter-only", "user", IterOnly),
           V("u:eq-nohash", "user:eq-nohash", "user", EqNoHash),
           V("u:bool-true-len-0", "user:bool+len", "user", lambda: BoolLen(True, 0), sharp=True),
           V("u:bool-false-len-2", "user:bool+len", "user", lambda: BoolLen(False, 2)),
           V("u:str-never-eq:a", "user:str-subclass", "user", lambda: StrNeverEq("a")),
           V("u:contains-no-iter-yes", "user:contains+iter", "user", ContainsDisagreesWithIter)]
    seen = set()
    for i, v in enumerate(vs):
        assert v.label not in seen, v.label
        seen.add(v.label)
        v.index = i
    return vs


_USER_SPECS = None


def _user_specs():
    global _USER_SPECS
    if _USER_SPECS is None:
        _USER_SPECS = user_class_specs()
    return _USER_SPECS


def by_label(tier: str = "thorough") -> dict:
    return {v.label: v for v in alphabet(tier)}


def sharp_values(tier: str = "quick") -> list:
    return [v for v in alphabet(tier) if v.sharp]


def set_role(obj, role: str):
    """Tag a user object so that its OPLOG entries say which operand it was."""
    if isinstance(obj, UserBase):
        obj._role = role
    return obj


def remaining(obj) -> list:
    """Drain a one-shot iterator and return what was left in it."""
    return list(obj)


def is_generated_user(v: V) -> bool:
    return v.coarse == "user"
