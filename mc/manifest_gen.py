"""Generates /verif/MANIFEST.json from the table below (``python3 -m mc.manifest_gen``).

Only properties with a working, registered check appear under ``checks``; the
others are listed under ``not_applicable`` with the reason (for properties not
yet built the reason says so plainly).
"""

from __future__ import annotations

import json
import os

HOME = os.path.dirname(os.path.dirname(os.path.abspath(__file__)))

ALL = [f"C{i:02d}" for i in range(1, 36)]

# id -> (category, technique, text, note, design_ref)
CHECKS: dict[str, tuple[str, str, str, str, str]] = {
    "C01": (
        "exploration",
        "bounded-exhaustive differential execution (plain vs. instrumented module) with process isolation",
        "Every program of the progen grammar up to size 3 / depth 2 (quick: size <= 2 in full plus a deterministic "
        "1/6 of size 3), 52 seeds and 37 C01 programs is called on its input menu extended with 21 adversarial "
        "values (NaN, -0.0, inf, ints > 2^53 and > 1e308, Decimal, Fraction, one-shot iterators, user classes with "
        "partial / raising comparison protocols, tuples for startswith) under all 8 subsets of {BRANCH, LINE, "
        "CHECKED} with dynamic seeding always on, and compared with the uninstrumented module: return value, "
        "exception type, stdout, module and argument state, user-operator log, iterator consumption. 34-44 "
        "pure-Python stdlib modules are instrumented with all metrics, imported and smoke-called. Interpreter "
        "crashes and hangs of instrumented code are detected by process isolation.",
        "CPython 3.12; the default seeding provider install_import_hook creates; exceptions compared by type. "
        "Quick is sampled at size 3 (exhaustive=false); thorough is exhaustive for the stated bounds.",
        "5/C01",
    ),
    "C02": (
        "exploration",
        "bounded-exhaustive program x input enumeration, differential against sys.monitoring LINE events",
        "Every progen program up to size 3 (4849) plus 60 seeds (one construct each; one-line bodies; string methods that are referenced, not called) is loaded through the real import "
        "hook and every menu input is executed by the real TestCaseExecutor under LINE, BRANCH+LINE and "
        "BRANCH+LINE+CHECKED. For every execution, reported covered lines must equal the LINE events of the "
        "uninstrumented code restricted to existing_lines; executed lines must be coverable; registered lines must "
        "be real lines of the SUT file; compute_line_coverage must equal the executed/existing ratio. Quick runs "
        "size 3 under LINE only; thorough runs everything under all sets.",
        "Reference = CPython 3.12 LINE events, cross-validated on every call against sys.settrace opcode tracing "
        "(disagreement = harness error). Modules the hook cannot load / CHECKED on inlined comprehensions are "
        "counted and left to C01. No exclusions configured (C08).",
        "5/C02",
    ),
    "C03": (
        "exploration",
        "bounded-exhaustive program x input enumeration, differential against sys.monitoring BRANCH events",
        "Same program and input space, under BRANCH and BRANCH+LINE. Every reachable conditional jump or FOR_ITER "
        "must be a predicate (matched by rank, opcode and line); both outcomes of every predicate and every "
        "branch-less code object must be goals in the real BranchGoalPool; BranchGoal.is_covered and "
        "BranchlessCodeObjectGoal.is_covered must agree with the outcomes the interpreter took; the CFG true edge "
        "must be the direction taken when the tested condition holds.",
        "Outcome of a BRANCH event is read off the jump opcode independently of get_branch_type (true = tested "
        "condition holds; FOR_ITER true = body entered). Unreachable jumps exempt. Only distance == 0 is used "
        "(distances are C04).",
        "5/C03",
    ),
    "C04": (
        "exploration",
        "bounded-exhaustive value-pair enumeration against CPython's own operators (differential)",
        "Every ordered pair (plus the same-object pair) of a 248-value (quick) / 303-value (thorough) "
        "adversarial alphabet (ints beyond 2^53 and 1e308, NaN/inf/-0.0, complex, Decimal, Fraction, "
        "str, bytes, containers, one-shot iterators, 190 user classes from the power set of the "
        "rich-comparison methods x {bool, NotImplemented, raises}) is run through all 10 comparison "
        "kinds plus the membership-presence predicate of the real ExecutionTracer, every value through "
        "the truthiness predicate and 500 (raised, matcher) pairs through the exception-match predicate; "
        "Python's operator on fresh copies fixes the expected outcome. Exhaustive over that alphabet.",
        "Trusted: CPython's operators as reference; mc/values.py alphabet; an instance-level spy on "
        "_update_metrics (read-only). Lenient readings: the tracer need not raise when the comparison "
        "raises; repeated calls of a dunder the plain operator also calls are not 'extra'.",
        "5/C04",
    ),
    "C05": (
        "model_checking",
        "explicit-state BFS over real tracer callbacks + exhaustive call sequences through the real executor",
        "Leg A: BFS over all sequences (depth 3 quick / 4 thorough) of 16 events on the real ExecutionTracer "
        "(6 benign, 10 whose operand operators or context bodies raise and are caught like a SUT try/except); "
        "on every transition the enabled flag must be unchanged and a following line / predicate event must be "
        "recorded. Leg B: every sequence of <= 2 (quick) / 3 (thorough) calls from a 12-call alphabet of "
        "functions that raise inside try/except and then run further lines and branches, through the real "
        "import hook and TestCaseExecutor under 4 metric subsets; reported lines must equal sys.settrace "
        "ground truth on the uninstrumented source, the post-handler predicate must be recorded, and the "
        "tracer's enabled state after each statement equals the state before.",
        "Lines of the operand class's own dunder bodies are not compared (they run inside the tracer's "
        "untraced evaluation while it raises, i.e. during, not after, the exception). Single thread.",
        "5/C05",
    ),
    "C06": (
        "exploration",
        "bounded-exhaustive program enumeration against a definition-based post-dominance oracle",
        "For every code object of all 4 849 grammar programs with <= 3 statement nodes (175 723 with <= 4 in "
        "thorough), 70 construct seeds and 58 pure-Python stdlib modules, the CFG and CDG built by the real "
        "transformer are compared with an oracle computed from the path definition of post-domination and the "
        "Ferrante definition of control dependence: single entry/exit, reachability, every labelled edge, root "
        "dependence and get_control_dependencies. Graphs <= 60 nodes (400 thorough) are decided by the path "
        "definition; larger ones by an iterative post-dominator computation cross-validated on all smaller graphs.",
        "CFG edge labels are taken from the real CFG (label correctness vs. execution is C03). No coverage "
        "exclusions (C08). CPython 3.12 bytecode; opcodes covered are listed in the evidence. Trusted: compile/dis "
        "and the bytecode library's block splitting.",
        "5/C06",
    ),
    "C07": (
        "model_checking",
        "explicit-state BFS over the real _GoalsManager / CoverageArchive with scripted real chromosomes",
        "For every progen module (size <= 2 plus 52 seeds quick; size <= 3 plus static seeds thorough) x {no "
        "exclusion, one marker on any line, single-name only_cover / no_cover} the goal graph is built exactly as "
        "DynaMOSA builds it, and all reachable (covered, current) states are explored for builds with <= 6 "
        "predicates and <= 13 goals (first/last chains otherwise). Checked on every transition: the covered set "
        "grows, current and covered are disjoint, a goal whose CDG dependencies are covered is current or covered, "
        "every terminal state covers the whole pool, every control dependency resolves to a registered "
        "predicate, and building never raises.",
        "Coverage verdicts are scripted (C10 decides real ones); dependencies are read from the registered CDG "
        "(C06 decides that); states are restored by re-assigning the four mutable containers and cross-checked by "
        "fresh replay of every terminal state; only single-goal steps plus one cover-everything update are explored.",
        "5/C07",
    ),
    "C08": (
        "exploration",
        "bounded-exhaustive marker/flag/scope-list enumeration through the real import hook against an "
        "independent documented-semantics region oracle (differential)",
        "For 18 hand-written modules plus every progen module (size <= 2 quick; <= 3 thorough), every placement of "
        "<= 1 (quick) or <= 2 (thorough) exclusion markers on any line x 4 flag combinations x every (only_cover, "
        "no_cover) pair over <= 3 scope names, plus double-hook ignore_methods scenarios. Checked: no line, "
        "predicate or branch-less code-object goal inside excluded code; every baseline line goal outside excluded "
        "code is kept; conflicting lists raise ValueError; violations are attributed to the minimal configuration.",
        "The oracle is written from docs/user/coverage.rst and the AstInfo docstrings, with lenient (either answer "
        "accepted) readings where they leave latitude (listed in mc/exclusions.py); executable := line goal of the "
        "marker-free baseline; the corpus has no multi-line statements; CPython 3.12.",
        "5/C08",
    ),
    "C09": (
        "exploration",
        "exhaustive program enumeration, independent dynamic-dependence interpreter, sys.settrace ground truth",
        "Every def-before-use-correct program of a small fragment (locals, one global, object and class attribute, "
        "list/dict subscripts, if/else, one call between two functions; bodies <= 3 menu statements + return quick: "
        "1,422 programs / 14k slices; <= 4 thorough: 18,497 programs / 188k slices) runs for inputs {0,1,2} through "
        "the real import hook, executor and statement / assertion slicing observers. For each slice: every checked "
        "line was executed, every slice instruction was executed, and every line in the dynamic dependence closure "
        "of the sliced value (computed by mc/depinterp.py) is in the slice.",
        "Soundness only; precision is never demanded. depinterp.py (no pynguin imports) is validated on every "
        "execution against plain CPython for values, exception types and executed lines. No loops, exceptions, "
        "closures, generators or methods in the fragment.",
        "5/C09",
    ),
    "C10": (
        "exploration",
        "bounded-exhaustive abstract-trace enumeration through real chromosomes and fitness functions",
        "Every abstract execution trace over 8 (quick) / 10 (thorough) real registries (hit counts 0/1/>=2 per "
        "predicate, distances from {0, 5e-17, 0.5, 1, 7, inf} under the tracer invariant, every consistent code-object "
        "subset, every covered/checked line subset) is evaluated by every fitness and coverage function class and "
        "every goal class, directly and through ComputationCache, alone, paired with every alphabet trace and in "
        "all alphabet triples merged by the real analyze_results: finite non-negative fitness, coverage in [0,1], "
        "covered <=> fitness 0, cache agreement, suite branch fitness 0 <=> coverage 1, is_covered never raises.",
        "Traces are synthesised (over-approximating what executions can produce); count 2 stands for >= 2; NaN / "
        "negative distances belong to C04. Trusted: the FakeExecutor and re-registration of real CFG/CDG metadata.",
        "5/C10",
    ),
    "C11": (
        "model_checking",
        "explicit-state search over real ExecutionTrace.merge, all orders and bracketings",
        "All ordered sequences with repetition of <= 3 (quick) / <= 4 (thorough) single-test traces from an 8-35 "
        "trace alphabet per registry are merged by the real analyze_results and by every binary bracketing of "
        "ExecutionTrace.merge; each result is compared with every other arrangement of the same multiset and with a "
        "union/sum/min reference, arguments are re-checked for mutation, and every suite fitness / coverage function "
        "is evaluated for S and S+t (monotonicity). States = merged projections, transitions = merges.",
        "Order independence is required of the coverage/fitness-relevant projection only (not of instruction order "
        "or ordered-set iteration order). Alphabet assumptions as for C10.",
        "5/C11",
    ),
    "C12": (
        "model_checking",
        "explicit-state BFS over operation histories on real chromosome/cache objects + deviation-bounded RNG enumeration for mutate()",
        "On real TestCaseChromosome / TestSuiteChromosome / ComputationCache objects with a real TestFactory, every "
        "history of up to 3 (quick) / 4 (thorough) operations over a 17-operation test-case alphabet and up to 2 / 3 "
        "over a 21-operation suite alphabet is explored on the subject and its clone from ~33 roots per module; "
        "mutate() ranges over all RNG answer sequences with <= 2 non-default answers. In every reached state every "
        "fitness / covered / coverage query (forward and reverse order, after late registration) must equal the "
        "value recomputed from scratch on a fresh chromosome, and no operation may raise.",
        "The stub executor is a pure function of the rendered test code; counting stub fitness functions; direct "
        "edits are assumed to be followed by changed=True as at every pynguin call site.",
        "5/C12",
    ),
    "C13": (
        "model_checking",
        "explicit-state BFS on the real archives + deviation-bounded exploration of real DynaMOSA/MOSA/MIO searches with re-execution",
        "The real CoverageArchive is explored over its whole reachable state space for 2 goals (thorough: 3); "
        "MIOPopulation / MIOArchive to depth 4 / 3, over all scripted solutions (h in {0,.5,1} per goal, size 1-3, "
        "clean / exception / timeout), single and pair updates, add_goals, shrink and get/sample with every RNG "
        "answer enumerated. On every transition: covered set monotone, every archived test covers its goal, "
        "replacement only by a covering test that is error-free where the old one was not or strictly shorter, MIO "
        "capacity respected, one h=1 solution per covered target. The same oracle runs on every archive operation of "
        "real DYNAMOSA/MOSA/MIO searches on two corpus modules within <= 1 explorer-chosen RNG answer of fixed base "
        "answer sequences, and every archived test is re-executed after every iteration.",
        "Synthetic verdicts are scripted and mutually consistent (real agreement is C10); MIO machines are "
        "depth-bounded; replacement by a clone of the identical test is not counted.",
        "5/C13",
    ),
    "C14": (
        "exploration",
        "bounded-exhaustive populations and selection grids against brute-force Pareto oracles",
        "Every ordered population of up to 4 (thorough 5) identity-equal stub chromosomes with fitness vectors over "
        "{0,1,2}^g (g <= 3) is ranked by the real RankBasedPreferenceSorting under population settings 1/2/50 and "
        "under EVERY sequence of random tie-break answers, and compared with fronts recomputed from the Pareto "
        "definition; crowding distances must lie in [0,1); DominanceComparator / PreferenceSortingComparator are "
        "checked on all type pairs; RankSelection.get_index is evaluated for all n in 1..64 x 9 biases in [1.0, 3.0] "
        "x 4099 draws incl. the largest float below 1 (index in range, no exception, better ranks never drawn less).",
        "Lenient readings: ranking may stop after `population` individuals; 'best' = minimal fitness; grid histogram "
        "monotone up to one draw of quantisation. Largest g=3 size covered as multisets in one presentation order. "
        "Trusted: a 10-line Pareto oracle and the monkeypatched next_bool/next_float seam (any other draw raises).",
        "5/C14",
    ),
    "C16": (
        "exploration",
        "exhaustive finite grid of real runs compared pairwise (exported bytes + RNG draw log)",
        "Grid: corpus module x seed x algorithm x assertion mode x PYTHONHASHSEED; every cell is a real in-process "
        "run_pynguin() in a fresh interpreter with an iteration budget; every hash-seed variant (and a repeated "
        "identical cell) is compared with the PYTHONHASHSEED=0 run: byte-identical exported file and identical RNG "
        "leaf-draw log (a divergence is localised to its first differing draw).",
        "Hash randomisation cannot be intercepted or enumerated: independence from it can be refuted, not "
        "established, by a finite grid of hash seeds. Wall-clock budgets (test timeouts, local-search time, the "
        "exporter's 5 s watchdog) are set so that they never bind.",
        "5/C16",
    ),
    "C17": (
        "exploration",
        "exhaustive budget grid of real runs with independent iteration/execution counting",
        "One real run per (algorithm in 6, stopping condition in {iterations, test executions, statement "
        "executions}, budget value, module) cell. Iteration boundaries are observed by wrapping "
        "before_first_search_iteration / after_search_iteration; executions and statements are counted by wrapping "
        "TestCaseExecutor.execute, independently of pynguin's stopping conditions. Per cell: the run returns; "
        "completed iterations <= iteration budget; once the independent count or pynguin's own is_fulfilled() has "
        "reached the budget at an iteration boundary no further iteration completes.",
        "Iteration boundaries are the two observer call sites; wall-clock budgets are set so that they never bind.",
        "5/C17",
    ),
    "C18": (
        "exploration",
        "E2 test-case population through the real pipeline, exported files run by a real pytest process",
        "Every test case the real factory builds with <= d RNG deviations per corpus module -> suites of 1-3 -> "
        "real assertion generation (NONE/SIMPLE/MUTATION_ANALYSIS) -> real _minimize -> real _export_chromosome "
        "(seed fixture on/off, no_xfail on/off); all files of a shard are run by one real pytest subprocess against "
        "the uninstrumented module: no collection error, every test passes, xfail(strict) tests are xfailed.",
        "Population bound and suite shapes are stated in the evidence; pytest runs with --import-mode=importlib.",
        "5/C18",
    ),
    "C19": (
        "model_checking",
        "stage-by-stage differential on the real generate/minimise/export pipeline over an enumerated population",
        "For suites (singletons + pairs) of the enumerated population per module, the real _generate_assertions "
        "(SIMPLE / MUTATION_ANALYSIS), _minimize (NONE/CASE/SUITE/COMBINED x direction) and _export_chromosome are "
        "applied; on every stage transition every (statement, assertion) pair of a surviving test case must still "
        "be attached to the same statement, and in the written file every assertion must follow its statement.",
        "Whole test cases removed by suite minimisation may take their assertions with them (lenient reading).",
        "5/C19",
    ),
    "C20": (
        "exploration",
        "bounded-exhaustive value enumeration through the real trace observer, renderer and writer",
        "Every value of a stated adversarial space (50 atoms incl. signed-zero/NaN/inf complex and nine enum "
        "shapes, all containers to depth 2 over list/tuple/set/frozenset/dict, ~1.7k (thorough 12.6k) floats, 32 "
        "typed objects, lengths 0..3) is routed through the real RemoteAssertionTraceObserver; every decided "
        "assertion is rendered by assertion_to_cst, compiled and executed against the observed object in both "
        "namespaces the real TestSuiteWriter can emit. 276 cases additionally run the real AssertionGenerator, "
        "filter and writer and must match the predicted outcome.",
        "Namespace taken from files written by the real writer; assertions run with the file's globals and "
        "{var_0: obj} as locals. Values outside the stated space are not covered.",
        "5/C20",
    ),
    "C21": (
        "exploration",
        "bounded-exhaustive kill maps / metric tuples / scripted mutant-result matrices + enumerated tests through the real assertion generators with differential re-execution",
        "Every kill map up to 4x4 (and 5x3) through the real _select_minimal_assertions keeps only killing "
        "assertions and the full kill union; every (created, killed, timed-out) <= 6 and every summary of <= 6 "
        "mutants gives a score in [0,1] that ignores timed-out mutants; every tests x mutants result matrix over a "
        "cell alphabet through the real _handle_add_assertions loses no kill. On 5 corpus modules every "
        "factory-built test with <= 1 RNG deviation, as 1-2-test suites through AssertionGenerator and the "
        "mutation-analysis generator (first-order and higher-order, with and without minimisation), leaves only "
        "assertions that hold on re-execution (real verification observer + an independent evaluator) and loses no "
        "mutant kill (kill sets recomputed from fresh executions on all mutants).",
        "Corpus modules are deterministic (c21_flaky changes monotonically per execution); executor budgets raised to "
        "120 s; pynguin's executor and mutant creation are reused to run tests on mutants; the kill definition "
        "(expected exceptions count as kills) is not checked.",
        "5/C21",
    ),
    "C22": (
        "model_checking",
        "real _minimize on enumerated suites with from-scratch coverage recomputation",
        "Suites (singletons, pairs, triples) of the enumerated population per module go through the real _minimize "
        "under CASE/SUITE/COMBINED x FORWARD/BACKWARD, with and without generated assertions; coverage is "
        "recomputed from scratch (fresh chromosomes and coverage functions): identical branch and line coverage, "
        "no statement that was not in the original, asserted statements keep their binding, no exception.",
        "A whole test case removed by SUITE minimisation may take its asserted statements with it.",
        "5/C22",
    ),
    "C23": (
        "exploration",
        "value enumeration for render/parse round trips + deviation-bounded choice-tree exploration of generate/mutate",
        "Render/parse: all stated ints, floats, complex, str, bytes and depth-2 collections go through "
        "literal_to_cst and must evaluate back to a type-, sign-of-zero- and NaN-identical value, and parse_literal "
        "must agree. Generate/mutate: generate_literal and mutate_literal for all 10 literal types run under the "
        "explorer-owned RNG for every execution with <= 2 (thorough 3) non-default draws in 4 corner "
        "configurations, with empty/seeded providers and with/without a reference pool; they must never raise and "
        "must yield a valid expression of the requested type.",
        "RNG menus of mc/rng.py plus an adversarial character menu; int accepted for float/complex; mutation starts "
        "are generated expressions plus 80 parsed literals.",
        "5/C23",
    ),
    "C24": (
        "model_checking",
        "export -> parse_seed_module -> re-export round trip on every enumerated suite",
        "Suites of the enumerated population per module are exported by the real writer (with SIMPLE assertions and "
        "without), parsed back by the real parse_seed_module (create_assertions on/off) and exported again; every "
        "exported test function must yield a parsed test case whose re-exported body equals the original.",
        "Bodies are compared after whitespace normalisation; `Name` and `<alias>.Name` count as the same reference; "
        "with assertions off, bindings that became unused may be dropped.",
        "5/C24",
    ),
    "C25": (
        "exploration",
        "bounded-exhaustive hierarchy x type enumeration against algebraic laws",
        "All inheritance DAGs on <= 3 (quick) / <= 4 (thorough) user classes in every linearisable base order are "
        "generated as real modules and analysed by generate_test_cluster, with and without the numeric tower; for "
        "every ordered pair of all ~630-830 proper types of depth <= 2 the real is_subtype / is_maybe_subtype / "
        "subtype_distance are evaluated and reflexivity, transitivity over ALL triples, T <: Any, the union law, "
        "is_subclass <=> issubclass (+tower), is_subtype => is_maybe_subtype, distance-defined => maybe-subtype "
        "and distance(T,T) = 0 are decided on the complete matrices.",
        "Distance read as subtype_distance(supertype=T, subtype=S). StringSubtype and deeper nesting out of scope. "
        "Trusted: CPython issubclass and the generated modules.",
        "5/C25",
    ),
    "C26": (
        "model_checking",
        "explicit-state search over real clusters with a differential fresh-rebuild oracle",
        "Two real clusters per generated hierarchy module (one per provider class) receive identical event "
        "histories: add_generator, add_subclass_edge, update_return_type and queries of every requested type on both "
        "providers, the cluster and the TypeSystem (select_generator_for driven through every candidate). All "
        "histories of <= 3 events (quick) are explored modulo commuting blocks; after each history every cacheable "
        "answer is compared with a fresh TypeSystem/provider rebuilt from the final graph, every offer must be a "
        "maybe-subtype of the request and both providers must offer the same set.",
        "State restored between histories by resetting tables and clearing functools caches (cross-checked against "
        "brand-new clusters on a subset). Requested types are a 12-16 type subset of the C25 universe.",
        "5/C26",
    ),
    "C15": (
        "model_checking",
        "stateless deviation-bounded choice-tree exploration of the real TestFactory/mutation/crossover",
        "Every random draw of pynguin is an explorer-owned choice (ChoiceRNG seam). For each corpus module and "
        "chromosome_length in {3, 40}: scripts = factory insertions followed by every operation sequence of "
        "length <= 2 (quick) / 3 (thorough) over a 14-operation alphabet (insert, mutate, the three mutation "
        "sub-operators, delete, value/call/field/type changes, chop, unused-variable removal); all executions "
        "with <= d non-default answers (d by script length) are run, plus every splice of every ordered pair "
        "of enumerated test cases at every position pair. After every operation an independent ast-based "
        "oracle checks valid Python, def-before-use, unique names, registry consistency, fresh names, clone "
        "independence and the configured maximum length.",
        "RNG answers range over the finite menus in mc/rng.py; a per-script execution cap is reported "
        "(exhaustive=false when hit). Local-search operators are not driven (they need an executor).",
        "5/C15",
    ),
    "C27": (
        "exploration",
        "bounded-exhaustive generated modules x configurations against an AST-derived oracle",
        "Every subset (quick: size <= 4 plus the full set; thorough: all 2^14) of a 14-feature module menu "
        "(public/protected/private/name-mangled functions, imported function, re-exported class, class with "
        "public/protected/private/dunder/static/class methods, nested class, lambdas, Enum, subclass of an imported "
        "base, property, module-level constant) written as real packages is analysed by the real "
        "generate_test_cluster under PUBLIC/PROTECTED/ALL and ignore_methods / ignore_modules lists over every "
        "present name; accessible_objects_under_test is compared as a set of (kind, qualified name, defining "
        "module) with a required/optional/forbidden classification computed from the source text alone.",
        "Oracle trusts ast and the configuration docstrings. Lenient (either answer accepted): constructors of "
        "classes without __init__, the Enum accessible, lambdas under eligible names, property getters, dunder "
        "methods, members of non-public classes. Not covered: coroutines, abstract classes, C extensions.",
        "5/C27",
    ),
    "C30": (
        "model_checking",
        "explicit-state sequences through one real executor + schedule exploration of abandoned threads",
        "Leg 1: every sequence of <= 2 (quick) / <= 3 (thorough) test cases from a 19-call alphabet (print, raise, log, "
        "SystemExit, close/replace stdout, os.close(1), disable logging / remove handlers, reseed / draw / create "
        "random generators, mutate module or class state, pure calls) runs through one real TestCaseExecutor; after "
        "every execution the process snapshot (streams, fds 0-2, logging level and root handlers, pynguin's RNG "
        "state) must equal the snapshot before it and hidden-state-free calls must give their first-position result "
        "after every prefix. Leg 2: the C32 cooperative-scheduler exploration judged for later results that are "
        "lost/truncated and for streams left redirected by an abandoned thread.",
        "Hidden-state-free reference = the call's result as first test of an executor. Leg 2 shares C32's "
        "assumptions (threads switch only at the wrapped scheduling points).",
        "5/C30",
    ),
    "C31": (
        "model_checking",
        "differential execution of the enumerated population: real in-process vs real subprocess executor",
        "Every enumerated test case (raising ones included; with and without SIMPLE assertions attached) per module "
        "is executed by the real TestCaseExecutor and by the real SubprocessTestCaseExecutor (single and batched) "
        "with the assertion trace and verification observers: same timeout flag, exception types by position, "
        "covered lines, branch outcomes, code objects, assertion trace and verification trace.",
        "Corpus modules are deterministic; timeouts are set so that they never bind.",
        "5/C31",
    ),
    "C32": (
        "model_checking",
        "stateless schedule exploration (bounded deviations) of the real executor under a cooperative scheduler",
        "The real TestCaseExecutor runs 7 sequences [looping test, terminating test(s)] with real threads under a "
        "one-baton scheduler: scheduling points at every tracer callback, after check(), at stop(), statement "
        "boundaries and the isolation context managers; Thread.join(timeout) is an environment choice. All "
        "schedules with <= 2 (quick) / 3 (thorough) deviations (preemptions, early timeouts) for two horizons are "
        "enumerated; per schedule: no hang, the looping test reports timeout, and no later result contains a line, "
        "branch, code object or exception its solo run lacks. Violating schedules are replayed and must reproduce. "
        "A free-running leg with real 0.25 s timeouts cross-checks the same oracle plus the wall-clock bound.",
        "Threads switch only at the wrapped points; finer-grained races are left to the free-running leg. Looping "
        "tests loop on a predicate (BRANCH instrumentation gives a callback per iteration) or a cooperative sleep.",
        "5/C32",
    ),
    "C33": (
        "model_checking",
        "TLC on a TLA+ model of the restart protocol + replay of every model behaviour on the real client",
        "models/Restart.tla (search time, restart count, subprocess flag, crash kinds x elapsed classes, "
        "deliveries) is checked by TLC for all initial search times -1..Tmax (4 quick / 6 thorough): restarts only "
        "while search time remains and strictly decreasing, bounded restarts, success only if delivered. The model "
        "has a history variable; EVERY terminal state (1480 behaviours quick) is replayed against the real "
        "PynguinClient/MasterProcess/RunningTask with a fake process, pipe and clock and must give the same "
        "spawn-by-spawn search times, subprocess flags and final ReturnCode. Plus real CLI runs with the real "
        "worker killed (guarded crash_point hook) at pipeline phases, 1x/2x, under time and iteration budgets.",
        "Assumes a crashed worker consumes > 0 s (elapsed == 0.0 exactly would not decrease int(T - 0.0)); a worker "
        "that hangs without dying is outside the model. Trusted: TLC, the dump parser, the fakes.",
        "5/C33",
    ),
    "C28": (
        "fault_enumeration",
        "bounded-exhaustive modules x mutator configurations against a differential AST oracle, abandonment at every generator step",
        "For every generated module up to the statement bound (quick 850, thorough ~14.6k; the 43-statement menu "
        "fires all 30 mutation operators) and 29 stdlib modules, and for every mutator configuration (plain, "
        "reorder, every cap with scripted sampling answers, 4 HOM strategies x order 1/2, via MutationController): at "
        "every generator step the shared original AST differs from its pristine dump only inside the reported "
        "Mutation nodes and is pristine after exhaustion; each mutant differs from the original; capped / reordered "
        "/ order-1 enumerations are sub-multisets of the full one and respect the cap; the reported count equals "
        "the uncapped enumeration length; and the generator is abandoned at EVERY prefix length k by close, drop "
        "and break, after which the AST must be pristine.",
        "Assumes CPython ref-count finalisation of dropped generators; scripted RNG menus (4 sampling, 3 shuffle "
        "answers); stdlib mutants are compiled, not executed; 'equals original' is decided without position "
        "attributes; python -O is out of scope.",
        "5/C28",
    ),
    "C29": (
        "model_checking",
        "explicit-state BFS over the real FilesystemIsolation on a fresh sandbox tree per history",
        "Every history of <= 2 (quick) / <= 3 (thorough) operations out of 679 instances (37 open/os.open/"
        "pathlib/os/shutil kinds x 7 paths over a tree with a file, a non-empty dir, an empty dir and a "
        "symlink) is executed inside one real FilesystemIsolation block, plus the [op, chdir, op] leg; after "
        "the block the sandbox, os.environ, tempfile.tempdir and all patched attributes are compared with the "
        "pre-state. Reachable (tree, recorded-created) states are enumerated completely within the bound.",
        "Single thread, relative paths in a /dev/shm sandbox; only APIs in the alphabet (no os.truncate, "
        "os.symlink, subprocesses). After an already-violating prefix, further damage is reported under "
        "collapsed after-violation fingerprints.",
        "5/C29",
    ),
    "C34": (
        "model_checking",
        "explicit-state BFS over the real OrderedSet against a list reference model",
        "All reachable states of OrderedSet/FrozenOrderedSet/OrderedTypeSet over a 3- (quick) or "
        "4-element (thorough) alphabet are enumerated; every mutator and query is applied in every "
        "state with every ordered argument sub-sequence in 8 iterable forms (incl. one-shot "
        "iterators) and compared with a list-based reference. Exhaustive within that alphabet.",
        "Elements are small ints; set arguments of plain `set` type iterate in CPython's order for "
        "small ints. Hash-colliding or __eq__-overriding elements are not explored.",
        "5/C34",
    ),
    "C35": (
        "exploration",
        "all subsets of a trace-distinct test pool through the real get_coverage_report",
        "For each corpus module a pool of trace-distinct test cases is executed once; every subset of the pool is "
        "fed to the real get_coverage_report with BRANCH+LINE, BRANCH only and LINE only: totals equal "
        "fitness_metrics on the merged trace and the real suite coverage functions, per-line annotations sum to the "
        "totals, a line is annotated covered exactly when the suite covers it, per-line branch counts match the "
        "predicate outcomes, the HTML and XML renderers run and the XML rates equal the report's numbers.",
        "Pool size bounds the subset lattice (2^k suites); suites share execution results as in the real pipeline.",
        "5/C35",
    ),
}

# Corrections and additions made while the checks were extended (kept apart from the table above so that the
# original level texts stay readable): (old, new) pairs applied to the joined text, then sentences appended.
TEXT_FIXES = {
    "C05": [("16 events", "23 events"), ("(6 benign, 10 whose", "(6 benign, 17 whose")],
    "C29": [("679 instances", "856 instances"), ("x 7 paths", "x 8 paths")],
    "C34": [("in 8 iterable forms", "in 8 iterable forms plus 4 lazy views of the receiver itself")],
}
ADDENDA = {
    "C03": "Executor leg: enumerated test cases run through the real TestCaseExecutor under BRANCH, BRANCH+CHECKED and "
           "BRANCH+LINE+CHECKED while sys.monitoring PY_START records the code objects entered; every code object listed "
           "by branch_less_code_objects must be reported executed exactly when it was entered.",
    "C05": "Raising operands raise ValueError as well as BaseException-only exceptions (SystemExit, a custom one).",
    "C06": "The accessors are also queried in two other orders (branching nodes first, reverse) on fresh CDGs.",
    "C09": "Family D: 7 control-flow shapes for f x the same for g x {g called after / before f's structure}. Family E: "
           "every f that calls g x every g that stores the global (state flows across a nested call, then g runs again).",
    "C11": "Lifetime leg: every ordered pair and triple of alphabet tests analysed through short-lived result objects "
           "(analysed, dropped, replaced): the merge depends only on the traces handed in.",
    "C10": "Conformance leg: the same oracle on real execution results of corpus populations (behind a replaying "
           "executor), and every real trace must lie inside the abstract trace domain (else harness error).",
    "C12": "Additional suite roots: two live suites after a crossover between them (x = x.cross_over(clone), re-evaluated).",
    "C15": "Roots leg: six hand-written non-initial test cases (collections next to in-scope variables), every sequence of "
           "<= 3 positional operations, cold and with warmed statement caches.",
    "C13": "Real leg: DYNAMOSA / MOSA / MIO on corpus modules numeric, raising and shifting (exception position moves "
           "under mutation), every archived test re-executed after every iteration.",
    "C16": "Corpus includes an Enum with methods, a class hierarchy and a module with several custom exceptions.",
    "C17": "Plus cells with two budgets configured at once (each must be honoured).",
    "C18": "Suites include all ordered pairs of tests with pairwise different called accessibles; corpus includes nested "
           "classes, callable parameters and module-private exception classes.",
    "C19": "Assertion-subset variants (all / bare sources only / dotted sources only) and tripled tests whose first copy "
           "is unasserted; exception oracles are matched as pytest.raises / the xfail mark.",
    "C22": "For the stateful corpus the population is every call sequence of <= 3 accessibles (all pairs of the short ones).",
    "C24": "Corpus includes nested-class results, fields asserted through isinstance/len, type-name-only values, a "
           "parameter named like a module function and callable parameters (lambdas).",
    "C25": "Plus a restricted depth-3 family: unions with tuple/list members and tuples whose element is a union.",
    "C26": "Requested types include a union whose first member is a parametrised container; 3-class hierarchies are also "
           "analysed under a second package name (the member order of unions follows the string form of the members).",
    "C30": "Leg 3: the exporter's statement watchdog (_exec_statement_guarded), expiring and in time, over a 5-statement "
           "menu: process state after the call and after the abandoned thread has finished equals the state before.",
    "C31": "Populations include post-processed variants (statements that bind nothing) and a corpus of equal values of "
           "different types (False == 0 == 0.0).",
    "C33": "Real-kill leg: the worker is killed once or twice (restarted worker dies again) at four phases.",
    "C35": "Pools include hand-made near-miss float tests (branch distance of the outcome not taken is tiny) and lines "
           "holding both a predicate and the first line of a branch-less code object.",
}


NOT_YET = "check not built yet in this session; see DESIGN.md section 5 for the planned harness"
NOT_APPLICABLE: dict[str, str] = {}


def build() -> dict:
    checks = []
    for pid in ALL:
        if pid not in CHECKS:
            continue
        cat, tech, text, note, ref = CHECKS[pid]
        for old, new in TEXT_FIXES.get(pid, ()):
            assert old in text, (pid, old)
            text = text.replace(old, new)
        if pid in ADDENDA:
            text = text + " " + ADDENDA[pid]
        checks.append({
            "property_id": pid,
            "quick_cmd": f"./check {pid} --tier quick",
            "thorough_cmd": f"./check {pid} --tier thorough",
            "evidence_file": f"/verif/evidence/{pid}.json",
            "replay_cmd_template": f"./check {pid} --replay {{path}}",
            "engine": "mc",
            "level_claimed": {"category": cat, "text": text, "design_ref": f"DESIGN.md {ref}"},
            "level_note": note,
            "technique": tech,
        })
    na = []
    for pid in ALL:
        if pid in CHECKS:
            continue
        na.append({"property_id": pid, "reason": NOT_APPLICABLE.get(pid, NOT_YET)})
    hooks_commits = []
    hc = os.path.join(HOME, "hook_commits.txt")
    if os.path.exists(hc):
        hooks_commits = [l.split()[0] for l in open(hc) if l.strip() and not l.startswith("#")]
    return {
        "version": 1,
        "setup_cmd": "./setup.sh",
        "hooks": {
            "guard": "PYNGUIN_VERIF",
            "enable": "environment variable PYNGUIN_VERIF=1 (exported by ./check); pynguin is imported "
                      "from /repo/src by a fresh interpreter per check, there is no build step",
            "baseline_off_cmd": "cd /repo && env -u PYNGUIN_VERIF /venv/bin/python -m pytest -ra -q "
                                "-p no:cacheprovider --timeout=900 --continue-on-collection-errors",
            "source_commits": hooks_commits,
            "add_only": True,
        },
        "engines": [
            {"name": "mc", "path": "/verif/mc",
             "serves_properties": sorted(CHECKS),
             "kind_free_text": "hand-written explicit-state (BFS over real objects) and stateless "
                               "deviation-bounded choice-tree explorers for Python, bounded-exhaustive "
                               "program/value enumerators with differential oracles, a cooperative "
                               "thread scheduler, and TLC with conformance replay for the restart protocol"},
        ],
        "checks": checks,
        "not_applicable": na,
        "notes": "Every check is `./check <ID> --tier quick|thorough`; exit 0/1/2 = held / unlisted "
                 "violation / harness error. known_findings.json lists genuine defects (known or fixed).",
    }


if __name__ == "__main__":
    doc = build()
    with open(os.path.join(HOME, "MANIFEST.json"), "w") as fh:
        json.dump(doc, fh, indent=1)
        fh.write("\n")
    print(f"MANIFEST.json: {len(doc['checks'])} checks, {len(doc['not_applicable'])} not claimed")
