"""Generates /verif/MANIFEST.json from the table below (``python3 -m mc.manifest_gen``).

Only properties with a working, registered check appear under ``checks``; the
others are listed under ``not_applicable`` with the reason (for properties not
yet built the reason says so plainly).
"""

from __future__ import annotations

import json
import os

HOME = os.path.dirname(os.path.dirname(os.path.abspath(__file__)))

ALL = [f"C{i:02d}" for i in range(1, 36)]

# id -> (category, technique, text, note, design_ref)
CHECKS: dict[str, tuple[str, str, str, str, str]] = {
    "C04": (
        "exploration",
        "bounded-exhaustive value-pair enumeration against CPython's own operators (differential)",
        "Every ordered pair (plus the same-object pair) of a 244-value (quick) / 300-value (thorough) "
        "adversarial alphabet (ints beyond 2^53 and 1e308, NaN/inf/-0.0, complex, Decimal, Fraction, "
        "str, bytes, containers, one-shot iterators, 190 user classes from the power set of the "
        "rich-comparison methods x {bool, NotImplemented, raises}) is run through all 10 comparison "
        "kinds plus the membership-presence predicate of the real ExecutionTracer, every value through "
        "the truthiness predicate and 500 (raised, matcher) pairs through the exception-match predicate; "
        "Python's operator on fresh copies fixes the expected outcome. Exhaustive over that alphabet.",
        "Trusted: CPython's operators as reference; mc/values.py alphabet; an instance-level spy on "
        "_update_metrics (read-only). Lenient readings: the tracer need not raise when the comparison "
        "raises; repeated calls of a dunder the plain operator also calls are not 'extra'.",
        "5/C04",
    ),
    "C05": (
        "model_checking",
        "explicit-state BFS over real tracer callbacks + exhaustive call sequences through the real executor",
        "Leg A: BFS over all sequences (depth 3 quick / 4 thorough) of 16 events on the real ExecutionTracer "
        "(6 benign, 10 whose operand operators or context bodies raise and are caught like a SUT try/except); "
        "on every transition the enabled flag must be unchanged and a following line / predicate event must be "
        "recorded. Leg B: every sequence of <= 2 (quick) / 3 (thorough) calls from a 12-call alphabet of "
        "functions that raise inside try/except and then run further lines and branches, through the real "
        "import hook and TestCaseExecutor under 4 metric subsets; reported lines must equal sys.settrace "
        "ground truth on the uninstrumented source, the post-handler predicate must be recorded, and the "
        "tracer's enabled state after each statement equals the state before.",
        "Lines of the operand class's own dunder bodies are not compared (they run inside the tracer's "
        "untraced evaluation while it raises, i.e. during, not after, the exception). Single thread.",
        "5/C05",
    ),
    "C15": (
        "model_checking",
        "stateless deviation-bounded choice-tree exploration of the real TestFactory/mutation/crossover",
        "Every random draw of pynguin is an explorer-owned choice (ChoiceRNG seam). For each corpus module and "
        "chromosome_length in {3, 40}: scripts = factory insertions followed by every operation sequence of "
        "length <= 2 (quick) / 3 (thorough) over a 14-operation alphabet (insert, mutate, the three mutation "
        "sub-operators, delete, value/call/field/type changes, chop, unused-variable removal); all executions "
        "with <= d non-default answers (d by script length) are run, plus every splice of every ordered pair "
        "of enumerated test cases at every position pair. After every operation an independent ast-based "
        "oracle checks valid Python, def-before-use, unique names, registry consistency, fresh names, clone "
        "independence and the configured maximum length.",
        "RNG answers range over the finite menus in mc/rng.py; a per-script execution cap is reported "
        "(exhaustive=false when hit). Local-search operators are not driven (they need an executor).",
        "5/C15",
    ),
    "C29": (
        "model_checking",
        "explicit-state BFS over the real FilesystemIsolation on a fresh sandbox tree per history",
        "Every history of <= 2 (quick) / <= 3 (thorough) operations out of 679 instances (37 open/os.open/"
        "pathlib/os/shutil kinds x 7 paths over a tree with a file, a non-empty dir, an empty dir and a "
        "symlink) is executed inside one real FilesystemIsolation block, plus the [op, chdir, op] leg; after "
        "the block the sandbox, os.environ, tempfile.tempdir and all patched attributes are compared with the "
        "pre-state. Reachable (tree, recorded-created) states are enumerated completely within the bound.",
        "Single thread, relative paths in a /dev/shm sandbox; only APIs in the alphabet (no os.truncate, "
        "os.symlink, subprocesses). After an already-violating prefix, further damage is reported under "
        "collapsed after-violation fingerprints.",
        "5/C29",
    ),
    "C34": (
        "model_checking",
        "explicit-state BFS over the real OrderedSet against a list reference model",
        "All reachable states of OrderedSet/FrozenOrderedSet/OrderedTypeSet over a 3- (quick) or "
        "4-element (thorough) alphabet are enumerated; every mutator and query is applied in every "
        "state with every ordered argument sub-sequence in 8 iterable forms (incl. one-shot "
        "iterators) and compared with a list-based reference. Exhaustive within that alphabet.",
        "Elements are small ints; set arguments of plain `set` type iterate in CPython's order for "
        "small ints. Hash-colliding or __eq__-overriding elements are not explored.",
        "5/C34",
    ),
}

NOT_YET = "check not built yet in this session; see DESIGN.md section 5 for the planned harness"
NOT_APPLICABLE: dict[str, str] = {}


def build() -> dict:
    checks = []
    for pid in ALL:
        if pid not in CHECKS:
            continue
        cat, tech, text, note, ref = CHECKS[pid]
        checks.append({
            "property_id": pid,
            "quick_cmd": f"./check {pid} --tier quick",
            "thorough_cmd": f"./check {pid} --tier thorough",
            "evidence_file": f"/verif/evidence/{pid}.json",
            "replay_cmd_template": f"./check {pid} --replay {{path}}",
            "engine": "mc",
            "level_claimed": {"category": cat, "text": text, "design_ref": f"DESIGN.md {ref}"},
            "level_note": note,
            "technique": tech,
        })
    na = []
    for pid in ALL:
        if pid in CHECKS:
            continue
        na.append({"property_id": pid, "reason": NOT_APPLICABLE.get(pid, NOT_YET)})
    hooks_commits = []
    hc = os.path.join(HOME, "hook_commits.txt")
    if os.path.exists(hc):
        hooks_commits = [l.split()[0] for l in open(hc) if l.strip() and not l.startswith("#")]
    return {
        "version": 1,
        "setup_cmd": "./setup.sh",
        "hooks": {
            "guard": "PYNGUIN_VERIF",
            "enable": "environment variable PYNGUIN_VERIF=1 (exported by ./check); pynguin is imported "
                      "from /repo/src by a fresh interpreter per check, there is no build step",
            "baseline_off_cmd": "cd /repo && env -u PYNGUIN_VERIF /venv/bin/python -m pytest -ra -q "
                                "-p no:cacheprovider --timeout=900 --continue-on-collection-errors",
            "source_commits": hooks_commits,
            "add_only": True,
        },
        "engines": [
            {"name": "mc", "path": "/verif/mc",
             "serves_properties": sorted(CHECKS),
             "kind_free_text": "hand-written explicit-state (BFS over real objects) and stateless "
                               "deviation-bounded choice-tree explorers for Python, bounded-exhaustive "
                               "program/value enumerators with differential oracles, a cooperative "
                               "thread scheduler, and TLC with conformance replay for the restart protocol"},
        ],
        "checks": checks,
        "not_applicable": na,
        "notes": "Every check is `./check <ID> --tier quick|thorough`; exit 0/1/2 = held / unlisted "
                 "violation / harness error. known_findings.json lists genuine defects (known or fixed).",
    }


if __name__ == "__main__":
    doc = build()
    with open(os.path.join(HOME, "MANIFEST.json"), "w") as fh:
        json.dump(doc, fh, indent=1)
        fh.write("\n")
    print(f"MANIFEST.json: {len(doc['checks'])} checks, {len(doc['not_applicable'])} not claimed")
