"""Independent well-formedness oracle for pynguin test cases (C15 and consumers).

Works from the rendered source with ``ast`` (not from pynguin's own
``used_variables``), plus consistency of the per-statement metadata with it.
Returns a list of (signature, detail) problems; empty = well-formed.
"""

from __future__ import annotations

import ast
import re

VAR = re.compile(r"^var_\d+$")


def _targets(node):
    out = []
    if isinstance(node, ast.Assign):
        for t in node.targets:
            for n in ast.walk(t):
                if isinstance(n, ast.Name):
                    out.append(n.id)
    elif isinstance(node, (ast.AnnAssign, ast.AugAssign)):
        for n in ast.walk(node.target):
            if isinstance(n, ast.Name):
                out.append(n.id)
    elif isinstance(node, (ast.With,)):
        for it in node.items:
            if it.optional_vars is not None:
                for n in ast.walk(it.optional_vars):
                    if isinstance(n, ast.Name):
                        out.append(n.id)
    return out


def _loads(node):
    """``var_N`` names read by a statement (lambda/comprehension-local names excluded)."""
    bound_inner = set()
    for n in ast.walk(node):
        if isinstance(n, ast.Lambda):
            for a in n.args.args + n.args.kwonlyargs + n.args.posonlyargs:
                bound_inner.add(a.arg)
        elif isinstance(n, ast.comprehension):
            for m in ast.walk(n.target):
                if isinstance(m, ast.Name):
                    bound_inner.add(m.id)
    return {n.id for n in ast.walk(node)
            if isinstance(n, ast.Name) and isinstance(n.ctx, ast.Load)
            and VAR.match(n.id) and n.id not in bound_inner}


def check(test_case, max_len=None):
    probs = []
    stmts = test_case.statements()
    code = test_case.to_module().code
    try:
        tree = ast.parse(code)
        compile(tree, "<tc>", "exec")
    except SyntaxError as exc:
        return [("not-valid-python", f"{exc.msg}: {code!r}")]
    body = tree.body
    if not stmts:
        return probs
    if len(body) != len(stmts):
        probs.append(("statement-count-mismatch", f"{len(body)} ast statements vs {len(stmts)}"))
        return probs
    bound: list[str] = []
    for i, (node, st) in enumerate(zip(body, stmts, strict=True)):
        for name in sorted(_loads(node)):
            if name not in bound:
                probs.append(("use-before-def", f"statement {i} reads {name}: {ast.unparse(node)}"))
        tg = [t for t in _targets(node) if VAR.match(t)]
        bv = st.bound_variable
        if bv is not None and bv not in tg:
            probs.append(("bound-variable-not-assigned", f"statement {i} claims {bv}: {ast.unparse(node)}"))
        if bv is None and tg:
            probs.append(("assignment-without-bound-variable", f"statement {i}: {ast.unparse(node)}"))
        for t in tg:
            if t in bound:
                probs.append(("duplicate-bound-name", f"{t} rebound at statement {i}"))
            bound.append(t)
    # registry must equal the registry recomputed from the statements
    expect: dict = {}
    for st in stmts:
        if st.bound_variable is not None and st.bound_type is not None:
            expect.setdefault(st.bound_type, []).append(st.bound_variable)
    actual = {t: list(v) for t, v in test_case._type_registry.items() if v}  # noqa: SLF001
    if actual != expect:
        probs.append(("type-registry-mismatch", f"{actual} vs {expect}"))
    for t, names in expect.items():
        if test_case.variables_of_type(t) != names:
            probs.append(("variables_of_type-mismatch", f"{t}"))
    # fresh names must really be fresh
    idx = [int(b.split("_")[1]) for b in bound]
    if idx and test_case._var_counter <= max(idx):  # noqa: SLF001
        probs.append(("var-counter-behind", f"counter {test_case._var_counter} <= {max(idx)}"))  # noqa: SLF001
    if max_len is not None and len(stmts) > max_len:
        probs.append(("exceeds-max-length", f"{len(stmts)} > {max_len}"))
    return probs


def check_clone(test_case):
    probs = []
    c = test_case.clone()
    if c != test_case or c.to_module().code != test_case.to_module().code:
        probs.append(("clone-differs", ""))
    before = test_case.to_module().code
    if c.size():
        c.remove_statement(c.size() - 1)
    else:
        c.next_var_name()
    if test_case.to_module().code != before:
        probs.append(("clone-aliases-original", ""))
    return probs
