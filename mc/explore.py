"""The two generic explorers.

E2 ``explore_deviations``: stateless search of the choice tree of a driver.
Every environment answer the driver needs is obtained through
``Chooser.choose(kind, n)`` (index 0 = neutral default). All executions with at
most ``bound`` non-default answers are enumerated, each exactly once; executions
always run to completion. Replaying a prefix that meets a different choice
point than the one recorded (kind or menu size) is a hard ``Divergence`` error:
it means the driver has nondeterminism the explorer does not own.

E1 ``bfs``: explicit-state breadth-first search where a state is the history
that reaches it and ``build(history)`` replays it on fresh real objects.
"""

from __future__ import annotations

import collections

from mc.ctx import HarnessError


class Divergence(HarnessError):
    pass


class Chooser:
    __slots__ = ("prefix", "expect", "points", "limit")

    def __init__(self, prefix=(), expect=(), limit=100000):
        self.prefix = list(prefix)
        self.expect = list(expect)
        self.points: list[tuple[str, int, int]] = []
        self.limit = limit

    def choose(self, kind: str, n: int) -> int:
        i = len(self.points)
        if i >= self.limit:
            raise HarnessError(f"choice-point horizon {self.limit} exceeded (cyclic driver?)")
        if n <= 0:
            raise HarnessError(f"empty menu at choice point {i} ({kind})")
        if i < len(self.prefix):
            c = self.prefix[i]
            if i < len(self.expect) and self.expect[i] != (kind, n):
                raise Divergence(f"choice point {i}: recorded {self.expect[i]}, now {(kind, n)}")
            if c >= n:
                raise Divergence(f"choice point {i} ({kind}): recorded answer {c} but menu has {n}")
        else:
            c = 0
        self.points.append((kind, n, c))
        return c

    @property
    def choices(self):
        return [c for (_, _, c) in self.points]

    @property
    def deviations(self):
        return sum(1 for (_, _, c) in self.points if c)


def explore_deviations(run, bound: int, on_exec, roots=None, max_execs=None, alt_filter=None):
    """Enumerate all executions of ``run(chooser)`` with <= ``bound`` deviations.

    ``roots``: list of (prefix, expect) to start from (default: the empty prefix).
    Returns (executions, capped).
    """
    stack = list(roots) if roots is not None else [([], [])]
    stack.reverse()
    n_exec = 0
    while stack:
        prefix, expect = stack.pop()
        ch = Chooser(prefix, expect)
        out = run(ch)
        if len(ch.points) < len(prefix):
            raise Divergence(f"execution ended after {len(ch.points)} choice points, "
                             f"prefix has {len(prefix)}")
        n_exec += 1
        on_exec(ch, out)
        if max_execs is not None and n_exec >= max_execs:
            return n_exec, True
        devs = sum(1 for c in prefix if c)
        if devs + 1 > bound:
            continue
        pts = ch.points
        kinds = [(k, n) for (k, n, _) in pts]
        children = []
        for i in range(len(prefix), len(pts)):
            kind, n, _ = pts[i]
            for alt in range(1, n):
                if alt_filter is not None and not alt_filter(kind, n, alt):
                    continue
                children.append(([c for (_, _, c) in pts[:i]] + [alt], kinds[: i + 1]))
        stack.extend(reversed(children))
    return n_exec, False


def first_level_roots(run, on_exec):
    """Run the 0-deviation execution and return the roots of all 1-deviation subtrees."""
    ch = Chooser()
    out = run(ch)
    on_exec(ch, out)
    pts = ch.points
    kinds = [(k, n) for (k, n, _) in pts]
    roots = []
    for i, (kind, n, _) in enumerate(pts):
        for alt in range(1, n):
            roots.append(([0] * i + [alt], kinds[: i + 1]))
    return roots


def bfs(initial, enabled, step, canon, invariant, max_depth, ctx, on_state=None):
    """Explicit-state BFS.

    initial: history (list of events) of the start state (usually []).
    enabled(state, hist) -> iterable of events; step(hist, ev) -> new state
    (``step`` builds fresh real objects by replaying hist + [ev]);
    canon(state) -> hashable; invariant(state, hist, ev) -> None (records violations itself).
    """
    s0 = step(list(initial), None)
    seen = {canon(s0)}
    frontier = collections.deque([(list(initial), s0)])
    ctx.distinct("states", canon(s0))
    max_seen_depth = 0
    while frontier:
        hist, state = frontier.popleft()
        if len(hist) >= max_depth:
            continue
        for ev in enabled(state, hist):
            nxt = step(hist, ev)
            ctx.count("transitions")
            invariant(nxt, hist, ev)
            k = canon(nxt)
            if k not in seen:
                seen.add(k)
                ctx.distinct("states", k)
                max_seen_depth = max(max_seen_depth, len(hist) + 1)
                if on_state:
                    on_state(nxt, hist + [ev])
                frontier.append((hist + [ev], nxt))
    ctx.note("max_depth", max_seen_depth)
    return seen
