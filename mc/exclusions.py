"""exclusions -- marker placements, scope-list configurations and an INDEPENDENT excluded-region oracle.

Shared by ``props/c07_goal_graph.py`` and ``props/c08_exclusions.py``.

Nothing in here looks at what pynguin's ``AstInfo`` / ``ModuleAstInfo`` computes: the region
computation below is written from the *documented* semantics only

* ``docs/user/coverage.rst``: ``# pragma: no cover`` (the Coverage.py annotation) and
  ``# pynguin: no cover`` are taken into account unless disabled by
  ``enable_inline_pragma_no_cover`` / ``enable_inline_pynguin_no_cover``; ``if __name__ ==
  "__main__":`` and ``if TYPE_CHECKING:`` blocks (``typing.`` / ``types.`` prefixed too) are excluded
  automatically; ``--no-cover`` disables functions, methods or classes given by qualified name,
  ``--only-cover`` covers *only* those;
* the docstrings of ``AstInfo.should_be_covered`` (a scope is covered only if it and every function
  and class containing it are), ``should_cover_line`` (a line is covered only if it and every
  conditional instruction containing it are outside the no-cover lines), ``_in_cover`` (no-cover has
  priority over only-cover) and ``ModuleAstInfo.from_path`` / ``ToCoverConfiguration`` (a line in both
  sets raises ``ValueError``).

Every source line gets one of three statuses

``EXC``  the line lies inside excluded code: no line goal, no predicate, no code object there;
``INC``  the line lies outside excluded code: if it is executable (a line goal of the marker-free
         default-configuration baseline) it must be a line goal;
``ANY``  the documentation leaves latitude (lenient reading, nothing is demanded):
         the body of a ``with`` whose header carries a marker (``with`` is no conditional
         instruction, Coverage.py would exclude it); a function whose *decorator* line carries the
         marker; the ``else`` part of a main-guard / TYPE_CHECKING ``if`` and such ``if``s that are not
         at module level; the ``def``/decorator lines of a scope excluded *by name* (they run in the
         enclosing scope); with ``only_cover``: the own statements and the code object of every scope
         that (properly) encloses a listed scope (they must be instrumented to reach it); scopes whose
         qualified name is ambiguous; a clause (``else``/``elif``/``except``/``finally``/``case``) directly below a
         comment-only line that carries the marker (pynguin treats the lines between two bodies as the label).

Marker semantics (Coverage.py's rule, which the docs refer to): a marker excludes its own line; on
a line that introduces a clause (``if``/``elif``/``else``/``for``/``while``/``try``/``except``/
``finally``/``case``) it excludes that clause; on ``match`` the whole statement; on ``def``/``class``
the whole scope including everything nested in it.
"""

from __future__ import annotations

import ast
import itertools

EXC, INC, ANY = "exc", "inc", "any"
_RANK = {INC: 0, ANY: 1, EXC: 2}

MARKER_TEXT = {"pragma": "# pragma: no cover", "pynguin": "# pynguin: no cover"}
KINDS = ("pragma", "pynguin")
FLAG_OF = {"pragma": "enable_inline_pragma_no_cover", "pynguin": "enable_inline_pynguin_no_cover"}


def worst(a, b):
    return a if _RANK[a] >= _RANK[b] else b


# --------------------------------------------------------------------------- placements
def line_count(source: str) -> int:
    return len(source.split("\n")) - (1 if source.endswith("\n") else 0)


def placements(source: str, max_markers: int):
    """Every placement of 0..max_markers markers: tuples of (line, kind), a line may carry both kinds."""
    slots = [(ln, k) for ln in range(1, line_count(source) + 1) for k in KINDS]
    for r in range(max_markers + 1):
        yield from itertools.combinations(slots, r)


def apply_markers(source: str, placement) -> str:
    """Append the marker comments; line numbers are unchanged."""
    lines = source.split("\n")
    for ln, kind in placement:
        lines[ln - 1] = (lines[ln - 1] + "  " if lines[ln - 1].strip() else lines[ln - 1]) + MARKER_TEXT[kind]
    return "\n".join(lines)


def flag_combinations():
    """(pragma enabled, pynguin enabled), default first."""
    return [(True, True), (True, False), (False, True), (False, False)]


def active_markers(placement, flags):
    en = {"pragma": flags[0], "pynguin": flags[1]}
    return tuple((ln, k) for ln, k in placement if en[k])


def scope_lists(names):
    """Every (only_cover, no_cover) pair of subsets of ``names`` (conflicting ones included), smallest first."""
    names = list(names)
    out = []
    for assignment in itertools.product((0, 1, 2, 3), repeat=len(names)):     # 0 -, 1 only, 2 no, 3 both
        only = tuple(n for n, a in zip(names, assignment) if a in (1, 3))
        no = tuple(n for n, a in zip(names, assignment) if a in (2, 3))
        out.append((only, no))
    out.sort(key=lambda p: (len(p[0]) + len(p[1]), p))
    return out


# --------------------------------------------------------------------------- source model
class Scope:
    __slots__ = ("node", "name", "qualname", "parent", "header", "first", "end", "kind", "children", "in_compound")

    def __init__(self, node, name, qualname, parent, header, first, end, kind, in_compound):
        self.node, self.name, self.qualname, self.parent = node, name, qualname, parent
        self.header, self.first, self.end, self.kind = header, first, end, kind
        self.children = []
        self.in_compound = in_compound

    def ancestors(self):
        s = self.parent
        while s is not None:
            yield s
            s = s.parent

    def subtree(self):
        yield self
        for c in self.children:
            yield from c.subtree()

    def construct(self):
        """Coarse class of a named scope for fingerprints."""
        if self.kind == "module":
            return "module"
        if self.in_compound or any(a.in_compound for a in self.ancestors()):
            # the scope, or a scope around it, is defined inside a compound statement (if/try/with/for ...)
            return "def-in-compound" if self.kind == "def" else "class-in-compound"
        if getattr(self.node, "decorator_list", None):
            return "decorated-def" if self.kind == "def" else "decorated-class"
        if self.kind == "class":
            return "class" if self.parent.kind == "module" else "nested-class"
        if self.parent.kind == "class":
            return "method"
        return "def" if self.parent.kind == "module" else "nested-def"


class Region:
    """Marker on ``trigger`` gives lines first..last the status ``strength`` (the trigger line itself: EXC)."""
    __slots__ = ("trigger", "first", "last", "strength", "construct", "scope")

    def __init__(self, trigger, first, last, strength, construct, scope=None):
        self.trigger, self.first, self.last = trigger, first, last
        self.strength, self.construct, self.scope = strength, construct, scope


def _is_main(test):
    return (isinstance(test, ast.Compare) and isinstance(test.left, ast.Name) and test.left.id == "__name__"
            and len(test.ops) == 1 and isinstance(test.ops[0], ast.Eq) and len(test.comparators) == 1
            and isinstance(test.comparators[0], ast.Constant) and test.comparators[0].value == "__main__")


def _is_type_checking(test):
    if isinstance(test, ast.Name):
        return test.id == "TYPE_CHECKING"
    return (isinstance(test, ast.Attribute) and test.attr == "TYPE_CHECKING" and isinstance(test.value, ast.Name)
            and test.value.id in ("typing", "types"))


class Model:
    """Scopes, line ownership and clause regions of one source text (markers are comments: never part of it)."""

    def __init__(self, source: str):
        self.source = source
        self.lines = source.split("\n")
        self.n = line_count(source)
        self.tree = ast.parse(source)
        self.module = Scope(self.tree, "", "", None, 0, 0, self.n, "module", False)
        self.scopes = [self.module]
        self.regions: list[Region] = []
        self.auto: list[tuple[int, int, str, str]] = []          # (first, last, status, construct)
        self._walk_body(self.tree.body, self.module, compound=False, top=True)
        # owner[line] = innermost scope whose code object runs the line (def/decorator lines: the parent)
        self.owner = [self.module] * (self.n + 2)
        for s in self.scopes[1:]:            # creation order = outer before inner
            for ln in range(s.header + 1, s.end + 1):
                self.owner[ln] = s
        self.by_name: dict[str, list[Scope]] = {}
        for s in self.scopes[1:]:
            self.by_name.setdefault(s.qualname, []).append(s)

    # ---- construction
    def _end(self, stmts):
        return max(getattr(s, "end_lineno", s.lineno) or s.lineno for s in stmts)

    def _keyword_line(self, word, after, before, col):
        """Line in (after, before] whose text at column ``col`` starts with ``word`` (the clause label)."""
        for ln in range(after + 1, before + 1):
            text = self.lines[ln - 1]
            if text[:col].strip() == "" and text[col:].startswith(word) and not text[col + len(word):][:1].isalnum():
                return ln
        return None

    def _walk_body(self, stmts, scope, compound, top=False):
        for st in stmts:
            self._walk_stmt(st, scope, compound, top)

    def _add_scope(self, node, scope, compound):
        kind = "class" if isinstance(node, ast.ClassDef) else "def"
        qual = f"{scope.qualname}.{node.name}" if scope.qualname else node.name
        first = min([node.lineno] + [d.lineno for d in node.decorator_list])
        s = Scope(node, node.name, qual, scope, node.lineno, first, node.end_lineno, kind, compound)
        scope.children.append(s)
        self.scopes.append(s)
        return s

    def _walk_stmt(self, st, scope, compound, top):  # noqa: C901, PLR0912
        R = self.regions
        if isinstance(st, (ast.FunctionDef, ast.AsyncFunctionDef, ast.ClassDef)):
            s = self._add_scope(st, scope, compound)
            R.append(Region(st.lineno, st.lineno, st.end_lineno, EXC, "class" if s.kind == "class" else "def", s))
            for d in st.decorator_list:
                R.append(Region(d.lineno, d.lineno, st.end_lineno, ANY, "decorator"))
            self._walk_body(st.body, s, compound=False)
            return
        if isinstance(st, ast.If):
            elif_form = self.lines[st.lineno - 1].lstrip().startswith("elif")
            special = "main-guard" if _is_main(st.test) else "type-checking" if _is_type_checking(st.test) else None
            body_end = self._end(st.body)
            R.append(Region(st.lineno, st.lineno, body_end, EXC, special or ("elif" if elif_form else "if-header")))
            else_line = None
            if st.orelse:
                nested_elif = (len(st.orelse) == 1 and isinstance(st.orelse[0], ast.If)
                               and self.lines[st.orelse[0].lineno - 1].lstrip().startswith("elif"))
                if not nested_elif:
                    else_line = self._keyword_line("else", body_end, st.orelse[0].lineno, st.col_offset)
                    if else_line is not None:
                        R.append(Region(else_line, else_line, self._end(st.orelse), EXC, "else"))
            if special:
                if top and not elif_form:
                    self.auto.append((st.lineno, body_end, EXC, special))
                    if st.orelse:
                        self.auto.append((body_end + 1, st.end_lineno, ANY, special))
                else:
                    self.auto.append((st.lineno, st.end_lineno, ANY, special))
            self._walk_body(st.body, scope, True)
            self._walk_body(st.orelse, scope, True)
            return
        if isinstance(st, (ast.For, ast.AsyncFor, ast.While)):
            body_end = self._end(st.body)
            R.append(Region(st.lineno, st.lineno, body_end, EXC,
                            "while-header" if isinstance(st, ast.While) else "for-header"))
            if st.orelse:
                else_line = self._keyword_line("else", body_end, st.orelse[0].lineno, st.col_offset)
                if else_line is not None:
                    R.append(Region(else_line, else_line, self._end(st.orelse), EXC, "loop-else"))
            self._walk_body(st.body, scope, True)
            self._walk_body(st.orelse, scope, True)
            return
        if isinstance(st, (ast.Try, getattr(ast, "TryStar", ast.Try))):
            last = self._end(st.body)
            R.append(Region(st.lineno, st.lineno, last, EXC, "try-header"))
            for h in st.handlers:
                R.append(Region(h.lineno, h.lineno, self._end(h.body), EXC, "except"))
                last = self._end(h.body)
            if st.orelse:
                ln = self._keyword_line("else", last, st.orelse[0].lineno, st.col_offset)
                if ln is not None:
                    R.append(Region(ln, ln, self._end(st.orelse), EXC, "try-else"))
                last = self._end(st.orelse)
            if st.finalbody:
                ln = self._keyword_line("finally", last, st.finalbody[0].lineno, st.col_offset)
                if ln is not None:
                    R.append(Region(ln, ln, self._end(st.finalbody), EXC, "finally"))
            self._walk_body(st.body, scope, True)
            for h in st.handlers:
                self._walk_body(h.body, scope, True)
            self._walk_body(st.orelse, scope, True)
            self._walk_body(st.finalbody, scope, True)
            return
        if isinstance(st, (ast.With, ast.AsyncWith)):
            R.append(Region(st.lineno, st.lineno, self._end(st.body), ANY, "with-header"))
            self._walk_body(st.body, scope, True)
            return
        if isinstance(st, ast.Match):
            R.append(Region(st.lineno, st.lineno, st.end_lineno, EXC, "match-header"))
            for c in st.cases:
                R.append(Region(c.pattern.lineno, c.pattern.lineno, self._end(c.body), EXC, "case"))
                self._walk_body(c.body, scope, True)
            return
        R.append(Region(st.lineno, st.lineno, st.end_lineno or st.lineno, EXC, "simple"))

    # ---- queries
    def names(self):
        """Qualified names of all def/class scopes, outer first."""
        return [s.qualname for s in self.scopes[1:]]

    def construct_at(self, line):
        """Construct label of a marker position (the clause the line introduces)."""
        order = ("main-guard", "type-checking", "def", "class", "decorator", "if-header", "elif", "else", "loop-else",
                 "try-else", "except", "finally", "case", "match-header", "for-header", "while-header",
                 "try-header", "with-header", "simple")
        found = {r.construct for r in self.regions if r.trigger == line}
        for c in order:
            if c in found:
                return c
        text = self.lines[line - 1].strip()
        if not text or text.startswith("#"):
            # a marker there is a comment of its own: name what follows (pynguin looks at the lines before a clause)
            for nxt in range(line + 1, self.n + 1):
                t = self.lines[nxt - 1].strip()
                if t and not t.startswith("#"):
                    return f"blank<{self.construct_at(nxt)}"
            return "blank"
        return "continuation"

    def scope_of_code(self, co_name, co_firstlineno):
        """The def/class scope a registered code object belongs to (None: lambda / genexpr / unknown)."""
        if co_name == "<module>":
            return self.module
        for s in self.scopes[1:]:
            if s.name == co_name and s.first == co_firstlineno:
                return s
        return None


# --------------------------------------------------------------------------- the oracle
class Expectation:
    """Statuses of every line and scope under one exclusion configuration, and the expected error."""

    def __init__(self, model: Model, markers=(), only_cover=(), no_cover=()):
        m = self.model = model
        self.markers, self.only_cover, self.no_cover = tuple(markers), tuple(only_cover), tuple(no_cover)
        n = m.n
        line = [INC] * (n + 2)
        reason = [None] * (n + 2)          # (cause kind, construct) of the strongest rule

        def mark(first, last, status, why):
            for ln in range(max(first, 1), min(last, n) + 1):
                if _RANK[status] > _RANK[line[ln]]:
                    line[ln], reason[ln] = status, why

        # automatic blocks
        for first, last, status, construct in m.auto:
            mark(first, last, status, ("automatic", construct, ("line", first)))
        # markers
        marked_scopes = {}
        for ln, kind in self.markers:
            construct = m.construct_at(ln)
            mark(ln, ln, EXC, (kind, construct, ("line", ln)))
            if construct.startswith("blank<"):
                # a marker comment on a line of its own directly above a clause label: latitude for that clause
                nxt = next(x for x in range(ln + 1, n + 1)
                           if m.lines[x - 1].strip() and not m.lines[x - 1].strip().startswith("#"))
                for r in m.regions:
                    if r.trigger == nxt and r.construct in ("else", "loop-else", "try-else", "finally", "elif",
                                                            "except", "case"):
                        mark(r.first, r.last, ANY, (kind, construct, ("line", ln)))
            for r in m.regions:
                if r.trigger == ln:
                    mark(r.first, r.last, r.strength, (kind, r.construct, ("line", ln)))
                    if r.scope is not None:
                        marked_scopes[r.scope] = (kind, r.construct, ("line", ln))
        self.region_line = list(line)

        # scopes
        status = {m.module: INC}
        sreason = {m.module: None}
        resolved_only, resolved_no, ambiguous = [], [], []
        for name in self.no_cover:
            ss = m.by_name.get(name, [])
            (resolved_no if len(ss) == 1 else ambiguous).extend(ss)
        for name in self.only_cover:
            ss = m.by_name.get(name, [])
            (resolved_only if len(ss) == 1 else ambiguous).extend(ss)
        self.resolved_only, self.resolved_no = resolved_only, resolved_no
        listed_tree = {x for s in resolved_only for x in s.subtree()}
        anc = {a for s in resolved_only for a in s.ancestors()}
        for s in m.scopes[1:]:
            st, why = status[s.parent], sreason[s.parent]
            if s in marked_scopes:
                st, why = EXC, marked_scopes[s]
            if _RANK[self.region_line[s.header]] > _RANK[st]:
                st, why = self.region_line[s.header], reason[s.header]
            if s in resolved_no and _RANK[st] < _RANK[EXC]:
                st, why = EXC, ("no_cover", s.construct(), ("scope", s))
            if s in ambiguous and _RANK[st] < _RANK[ANY]:
                st, why = ANY, ("ambiguous", s.construct(), ("scope", s))
            status[s], sreason[s] = st, why
        if resolved_only:
            for s in m.scopes:
                if s in listed_tree:
                    continue
                if s in anc:
                    if _RANK[status[s]] < _RANK[ANY]:
                        status[s], sreason[s] = ANY, ("only_cover", "enclosing-scope", ("scope", s))
                elif _RANK[status[s]] < _RANK[EXC]:
                    listed = "+".join(sorted({x.construct() for x in resolved_only}))
                    status[s], sreason[s] = EXC, ("only_cover", f"unlisted-{s.construct()}[{listed}]", ("scope", s))
        self.scope_status, self.scope_reason = status, sreason

        # lines inherit from the scope that runs them
        for ln in range(1, n + 1):
            s = m.owner[ln]
            if _RANK[status[s]] > _RANK[line[ln]]:
                line[ln], reason[ln] = status[s], sreason[s]
        # def / decorator lines of scopes excluded by name: latitude
        for s in resolved_no + ambiguous:
            for ln in range(s.first, s.header + 1):
                if line[ln] == INC:
                    line[ln], reason[ln] = ANY, ("no_cover", "def-line", ("scope", s))
        self.line, self.reason = line, reason

        # expected error: the same line in both sets
        marker_lines = {ln for ln, _k in self.markers}
        both = set(self.only_cover) & set(self.no_cover)
        self.must_raise = None
        for s in resolved_only:
            if s.qualname in both:
                self.must_raise = ("only+no", s.construct())
                break
            if s.header in marker_lines:
                self.must_raise = ("marker-on-only_cover", s.construct())
                break
        # overlapping regions without a common line: raising is acceptable, not demanded
        self.may_raise = self.must_raise is not None or any(
            self.region_line[s.header] != INC or any(status[a] == EXC for a in s.ancestors()) or s in resolved_no
            for s in resolved_only)

    def code_status(self, co_name, co_firstlineno):
        """(status, reason) of a registered code object."""
        s = self.model.scope_of_code(co_name, co_firstlineno)
        if s is not None:
            return self.scope_status[s], self.scope_reason[s]
        ln = co_firstlineno
        if 1 <= ln <= self.model.n:                  # lambda / genexpr / comprehension: the line it sits on
            return self.line[ln], self.reason[ln]
        return ANY, None


class Observation:
    """What one instrumentation registered, keyed independently of ids."""

    __slots__ = ("lines", "predicates", "code_objects", "branchless", "error", "error_text")

    def __init__(self):
        self.lines = {}               # line number -> co_name of the registering code object (a line is
        #                               registered once per file; goals without a line number are C02's subject)
        self.predicates = []          # (co_name, co_firstlineno, line)
        self.code_objects = set()     # (co_name, co_firstlineno)
        self.branchless = set()
        self.error = None
        self.error_text = ""

    def summary(self):
        return {"lines": sorted(self.lines),
                "predicates": sorted(ln for _n, _f, ln in self.predicates if isinstance(ln, int)),
                "code_objects": sorted(f"{n}@{f}" for n, f in self.code_objects), "error": self.error}


def read_registries(props) -> Observation:
    obs = Observation()
    key = {}
    for cid, md in props.existing_code_objects.items():
        key[cid] = (md.code_object.co_name, md.code_object.co_firstlineno)
        obs.code_objects.add(key[cid])
    for cid in props.branch_less_code_objects:
        obs.branchless.add(key[cid])
    for lm in props.existing_lines.values():
        if isinstance(lm.line_number, int):
            obs.lines[lm.line_number] = key.get(lm.code_object_id, ("?", -1))[0]
    for pm in props.existing_predicates.values():
        obs.predicates.append((*key.get(pm.code_object_id, ("?", -1)), pm.line_no))
    return obs


def to_cover_configuration(flags=(True, True), only_cover=(), no_cover=()):
    import pynguin.configuration as config

    return config.ToCoverConfiguration(only_cover=list(only_cover), no_cover=list(no_cover),
                                       enable_inline_pragma_no_cover=flags[0],
                                       enable_inline_pynguin_no_cover=flags[1])


def load(source, scratch, name, to_cover, coverage=("BRANCH", "LINE"), keep=None):
    """Import ``source`` through the real import hook; return the Observation (``error`` set if it raised).

    ``keep``: optional callable run with the live Sut before it is torn down (C07 builds its goal graph there).
    """
    from mc import pyn

    sut = pyn.Sut(source, scratch, name=name, coverage=coverage, to_cover=to_cover)
    obs = None
    try:
        try:
            sut.__enter__()
        except Exception as exc:  # noqa: BLE001
            obs = Observation()
            obs.error = type(exc).__name__
            obs.error_text = str(exc)[:200]
            return obs
        obs = read_registries(sut.props)
        if keep is not None:
            keep(sut, obs)
        return obs
    finally:
        if hasattr(sut, "_added_path"):
            sut.__exit__(None, None, None)


def judge(exp: Expectation, base: Observation, obs: Observation):
    """Compare one observation with the expectation; yield dicts (sig, line, reason, scope, detail)."""
    m = exp.model

    def v(sig, line, reason, scope, detail, co=None):
        return {"sig": sig, "line": line, "reason": reason, "scope": scope, "detail": detail, "co": co}

    if exp.must_raise is not None:
        if obs.error is None:
            yield v("conflict-not-rejected", 0, exp.must_raise, None,
                    f"only_cover={list(exp.only_cover)} no_cover={list(exp.no_cover)} markers={list(exp.markers)}: "
                    "the same line is in the only-cover and the no-cover set, ValueError expected, none raised")
        elif obs.error != "ValueError":
            yield v(f"raises:{obs.error}", 0, exp.must_raise, None,
                    f"expected ValueError, got {obs.error}: {obs.error_text}")
        return
    if obs.error is not None:
        if obs.error == "ValueError" and exp.may_raise:
            return
        yield v(f"raises:{obs.error}", 0, None, None, f"instrumentation raised {obs.error}: {obs.error_text}")
        return
    # soundness: nothing registered inside excluded code
    for ln, cn in sorted(obs.lines.items()):
        if 1 <= ln <= m.n and exp.line[ln] == EXC:
            yield v("goal-inside-excluded:line", ln, exp.reason[ln], m.owner[ln],
                    f"line {ln} ({cn}) is a line goal inside excluded code", cn)
    seen = set()
    for (cn, cf, ln) in obs.predicates:
        if isinstance(ln, int) and 1 <= ln <= m.n and exp.line[ln] == EXC and ln not in seen:
            seen.add(ln)
            yield v("goal-inside-excluded:branch", ln, exp.reason[ln], m.owner[ln],
                    f"a predicate on line {ln} ({cn}) gives branch goals inside excluded code", cn)
    for (cn, cf) in sorted(obs.branchless):
        st, why = exp.code_status(cn, cf)
        if st == EXC:
            sc = m.scope_of_code(cn, cf) or (m.owner[cf] if 1 <= cf <= m.n else None)
            yield v("goal-inside-excluded:codeobject", cf, why, sc,
                    f"branch-less code object {cn}@{cf} is a goal although its scope is excluded", cn)
    # nothing may appear that the exclusion-free run does not have
    for ln in sorted(set(obs.lines) - set(base.lines)):
        yield v("goal-not-in-baseline:line", ln, None, None, f"line goal {ln} does not exist without exclusions")
    for item in sorted(obs.code_objects - base.code_objects):
        yield v("goal-not-in-baseline:codeobject", item[1], None, None,
                f"code object {item} does not exist without exclusions")
    # completeness for lines
    for ln in sorted(set(base.lines) - set(obs.lines)):
        cn = base.lines[ln]
        if 1 <= ln <= m.n and exp.line[ln] == INC:
            yield v("line-outside-not-goal", ln, None, m.owner[ln],
                    f"executable line {ln} ({cn}) lies outside excluded code but is no line goal")


def _decorated(scope):
    return scope is not None and scope.kind != "module" and bool(getattr(scope.node, "decorator_list", None))


def label(exp: Expectation, violation, config_label):
    """(cause kind, construct) of a violation for its fingerprint.

    The construct names the rule that excludes the offending item, ``>def`` is appended when the item sits in
    a scope nested below the excluding construct and ``@decorated`` when a decorated scope lies in between.
    ``config_label``: fallback (kind, construct) computed from the configuration elements (completeness).
    """
    m = exp.model
    reason, scope = violation["reason"], violation["scope"]
    if reason is None or len(reason) < 3:
        kind, construct = (reason[0], reason[1]) if reason is not None else config_label
        if reason is None and scope is not None:
            for listed in exp.resolved_only:
                if scope is not listed and listed in scope.ancestors():
                    return "only_cover", f"{listed.construct()}>{scope.construct()}"
            if any(_decorated(s) for s in [scope, *scope.ancestors()]):
                construct += "@decorated"
        return kind, construct
    kind, construct, anchor = reason
    chain = []
    if anchor[0] == "line":
        cause_scope = m.owner[anchor[1]]
        s = scope
        while s is not None and s is not cause_scope:
            chain.append(s)
            s = s.parent
        below = chain[:-1] if construct in ("def", "class") and chain else chain
    else:
        s = scope
        while s is not None and s is not anchor[1]:
            chain.append(s)
            s = s.parent
        below = chain
    # the item was registered by a code object nested below the scope that owns the line (class body on its
    # ``class`` line, lambda, generator expression)
    co = violation.get("co") or ""
    owner_name = "<module>" if scope is None or scope.kind == "module" else scope.name
    nested_co = bool(co) and co != owner_name and construct not in ("def", "class")
    out = construct + (">def" if below or nested_co else "")
    if violation["sig"].endswith(":branch") and anchor[0] == "line" and violation["line"] != anchor[1]:
        out += "/" + m.construct_at(violation["line"])          # what kind of line carries the predicate
    deco = [c for c in chain if _decorated(c)]
    if anchor[0] == "line" and scope is not None and not chain and _decorated(scope):
        deco = [scope]
    if deco and "decorated" not in construct:
        out += "@decorated"
    return kind, out


# --------------------------------------------------------------------------- hand-written seed modules
# (label, names for the scope lists (<= 3), source).  No multi-line statements, no one-line compound statements.
HAND_SEEDS = [
    ("if_elif_else", ["f"], """\
def f(a, b):
    x = 0
    if a:
        x = 1
    elif b:
        x = 2
    else:
        x = 3
    if b:
        x += 1
    else:
        x -= 1
    return x
"""),
    ("loops_else", ["f"], """\
def f(a, b):
    x = 0
    for v in a:
        if v:
            break
        x += 1
    else:
        x = -1
    i = 0
    while i < b:
        i += 1
    else:
        x += 10
    return x
"""),
    ("try_full", ["f"], """\
def f(a, b):
    x = 0
    try:
        x = int(a)
    except ValueError:
        x = 1
    except (TypeError, KeyError) as e:
        x = 2
    else:
        x += 3
    finally:
        x += 4
    return x
"""),
    ("match", ["f"], """\
def f(a, b):
    match a:
        case 1:
            x = 1
        case [p, q] if p:
            x = 2
        case _:
            x = 3
    return x
"""),
    ("nested_scopes", ["K", "K.m", "f.g"], """\
class K:
    n = 1

    def m(self, v):
        if v:
            return 1
        return 2

    class Inner:
        def im(self):
            return 3


def f(a):
    def g(v):
        if v:
            return v
        return 0
    return g(a)
"""),
    ("nested_scopes_inner", ["K.Inner", "K.Inner.im", "f"], """\
class K:
    n = 1

    def m(self, v):
        if v:
            return 1
        return 2

    class Inner:
        def im(self):
            return 3


def f(a):
    def g(v):
        if v:
            return v
        return 0
    return g(a)
"""),
    ("decorated", ["K.p", "K.s", "d"], """\
import functools


class K:
    def __init__(self, v):
        self.v = v

    @property
    def p(self):
        if self.v:
            return 1
        return 2

    @staticmethod
    def s(a):
        return a


@functools.lru_cache(maxsize=None)
def d(a):
    if a:
        return 1
    return 0
"""),
    ("main_guard", ["main"], """\
import sys


def main(argv):
    if argv:
        return 1
    return 0


if __name__ == "__main__":
    sys.exit(main(sys.argv))
"""),
    ("type_checking", ["f"], """\
from __future__ import annotations

import typing
from typing import TYPE_CHECKING

if TYPE_CHECKING:
    from collections.abc import Iterable
else:
    Iterable = None

if typing.TYPE_CHECKING:
    import os


def f(a: Iterable) -> int:
    if a:
        return 1
    return 0
"""),
    ("def_in_compound", ["h", "f"], """\
import sys

if sys.version_info >= (3, 8):
    def h(a):
        if a:
            return 1
        return 0
else:
    def h2(a):
        return -1

try:
    import json
except ImportError:
    json = None


def f(a):
    return h(a)
"""),
    ("def_in_handler_and_case", ["helper", "Fallback.m", "pick"], """\
try:
    import _c08_no_such_module as fast
except ImportError:
    def helper(a):
        if a:
            return 1
        return 0

    class Fallback:
        def m(self, a):
            if a:
                return 2
            return 3

KIND = 1
match KIND:
    case 1:
        def pick(a):
            if a:
                return "one"
            return "other"
    case _:
        def pick2(a):
            return None


def f(a):
    return helper(a), pick(a)
"""),
    ("with_nested", ["f"], """\
import contextlib


def f(a, b):
    x = 0
    with contextlib.suppress(ValueError):
        if a:
            x = int(a)
        for v in b:
            x += v
    return x
"""),
    ("loop_try_whiletrue", ["f"], """\
def f(a, b):
    x = 0
    for v in a:
        try:
            if v == b:
                continue
            x += 1
        finally:
            x += 2
    while True:
        x -= 1
        if x < 0:
            break
    return x
"""),
    ("lambda_genexpr", ["f"], """\
def f(a, b):
    g = lambda v: v if b else 0
    t = sum(v for v in a if v)
    u = [v for v in a if v]
    return g(t) + len(u)
"""),
    ("generator_async", ["gen", "co"], """\
def gen(a):
    for v in a:
        if v:
            yield v
    return


async def co(a):
    if a:
        return 1
    return 0
"""),
    ("nested_type_checking", ["f"], """\
from typing import TYPE_CHECKING


def f(a):
    if TYPE_CHECKING:
        a = 1
    if a:
        return 1
    return 0
"""),
    ("class_body", ["K", "K.m", "K.o"], """\
class K:
    if True:
        def m(self):
            return 1
    n = [v for v in range(3)]

    def o(self, a):
        while a:
            a -= 1
        else:
            a = 5
        return a
"""),
    ("blank_lines", ["f"], """\
def f(a, b):
    x = 0
    if a:
        x = 1

    elif b:
        x = 2
    # comment
    else:
        x = 3
    try:
        x += 1

    except ValueError:
        x = 4

    finally:
        x += 5
    for v in b:
        x += v

    else:
        x = 6
    return x
"""),
    ("compound_conditions", ["f"], """\
def f(a, b):
    assert a, "no"
    x = 1 if b else 2
    if a and b or not a:
        x += 1
    return x
"""),
]


def hand_seeds():
    """[(name, names, source)] of the hand-written modules."""
    return [(f"hand_{label}", list(names), src) for label, names, src in HAND_SEEDS]
