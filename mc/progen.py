"""progen -- bounded-exhaustive enumerator of small Python programs (DESIGN 4.1).

Every generated program is a tiny module whose function under test is
``f(a, b)``; it terminates on every input (``while`` loops are bounded by a
counter that is incremented first thing in the loop body, ``for`` loops run
over finite iterables).  Programs are produced *exhaustively* for a grammar,
ordered by size.

Size and depth
--------------
``size(program)`` = number of *statement nodes* in the body of ``f`` (a compound
statement counts 1 plus the statements of its bodies; fixed "filler" clauses
such as ``except ValueError: x = -1`` and the fixed trailer that calls a nested
function are free) **plus 1 for every "rich" hole filler** (a condition,
expression, iterable, context manager or pattern that is not the first-class
"core" entry of its menu).  ``depth`` = the largest number of compound
statements enclosing a statement (statements directly in ``f`` have depth 0).
``programs(N, D)`` yields every program with ``size <= N`` and ``depth <= D``.

API
---
``programs(max_stmts, max_depth, constructs=None, dedupe=None)``
    iterator of ``(name, source, meta)``; deterministic order (by size, then
    grammar order).  ``constructs``: iterable of construct tags (see
    ``ALL_CONSTRUCTS``) -- only grammar entries whose tags (minus the incidental
    ``MINOR_TAGS``) are all enabled are used; ``None`` = whole grammar.  ``dedupe``: ``None`` (every program),
    ``"ops"`` or ``"shape"`` (first program per ``dis_signature`` only).
``seeds()``            fixed list of hand-written "one construct each" programs (executable).
``static_seeds()``     hand-written programs for *static* consumers only (may not terminate / need an event loop).
``dis_signature(code, detail="ops")``   bytecode-shape key for de-duplication.
``construct_evidence(code)``            construct tags witnessed in the bytecode (vacuity guards).
``opcodes(code)``                       set of opnames in a code object, recursively.
``input_menu(meta=None, size="small")`` list of ``(a, b)`` argument tuples (fresh objects each call).
``input_menu_src(meta=None, size="small")`` the same as source strings.
``count(max_stmts, max_depth, constructs=None)``  number of programs per size.
``shard_of(name, n)``  stable shard index of a program name.
``write_program(directory, name, source)``  write ``<directory>/<name>.py`` (so that ``co_filename`` exists) and return the path.
``code_objects(code)``  the code object and everything nested in it.

``meta`` keys: ``constructs`` (sorted list of tags), ``size``, ``depth``,
``kind`` ("grammar" | "seed" | "static"), ``func`` ("f"), ``params``
(("a", "b")), ``executable`` (bool), ``body`` (the body lines of ``f``).
"""

from __future__ import annotations

import dis
import functools
import hashlib
import types

__all__ = [
    "ALL_CONSTRUCTS", "programs", "seeds", "static_seeds", "dis_signature", "construct_evidence",
    "opcodes", "input_menu", "input_menu_src", "count", "shard_of", "code_objects", "MINOR_TAGS",
    "write_program",
]

FUNC = "f"
PARAMS = ("a", "b")
IND = "    "

# --------------------------------------------------------------------------- menus
# every menu entry: (source text, frozenset(tags), rich?)   -- rich entries cost +1 size


def _m(*entries):
    return tuple((src, frozenset(tags.split()), rich) for src, tags, rich in entries)


# Conditions (for ``if`` headers).  Core entries are free, rich cost 1.
CONDS = _m(
    ("a", "truth", False),
    ("a == b", "compare", False),
    ("a < b", "compare", False),
    ("a is None", "is-none", False),
    ("not a", "not", True),
    ("a and b", "and", True),
    ("a or b", "or", True),
    ("a and b or x", "and or", True),
    ("a != b", "compare", True),
    ("a <= b", "compare", True),
    ("a > b", "compare", True),
    ("a >= b", "compare", True),
    ("a in b", "in", True),
    ("a not in b", "in", True),
    ("a is b", "is", True),
    ("a is not None", "is-none", True),
    ("a < b < 3", "chain", True),
    ("isinstance(a, int)", "isinstance call", True),
    ("a.startswith(b)", "startswith call attr", True),
    ("a.isdigit()", "isdigit call attr", True),
)

# Expressions (right-hand side of ``x = E`` and ``return E``).
EXPRS_ASSIGN = _m(
    ("a", "", False),
    ("x + 1", "binop", False),
)
EXPRS_RETURN = _m(
    ("x", "", False),
)
EXPRS_RICH = _m(
    ("a + b", "binop", True),
    ("a if b else 0", "ifexp", True),
    ("a and b", "and", True),
    ("a or b", "or", True),
    ("a < b < 3", "chain", True),
    ("(lambda v: v + 1)(a)", "lambda call", True),
    ("[v for v in b]", "listcomp", True),
    ("[v for v in b if v]", "listcomp comp-if", True),
    ("{v for v in b}", "setcomp", True),
    ("{v: a for v in b}", "dictcomp", True),
    ("next((v for v in b), 0)", "genexpr next call", True),
    ("b[0]", "subscript", True),
    ("a.real", "attr", True),
    ("[a, b]", "display", True),
    ("{a: b}", "display", True),
    ("len(b)", "call", True),
)

WHILE_HEADS = _m(
    ("while {i} < 2:", "while", False),
    ("while {i} < 2 and a:", "while and", True),
    ("while True:", "while while-true if break", True),      # body starts with a counter break
)
FOR_ITERS = _m(
    ("range(2)", "for call", False),
    ("b", "for", True),
    ("[a, b]", "for display", True),
)
WITH_ITEMS = _m(
    ("contextlib.nullcontext(a) as w", "with", False),
    ("contextlib.suppress(ValueError)", "with", True),
)
MATCH_PATTERNS = _m(
    ("1", "match", False),
    ("[p, q]", "match match-seq", True),
    ("str()", "match match-class", True),
    ('{"k": p}', "match match-map", True),
    ("p if p > b", "match match-guard", True),
    ("1 | 2", "match match-or", True),
)
EXCEPT_CLAUSES = _m(
    ("except ValueError:", "try except", False),
    ("except ValueError as e:", "try except except-as", False),
    ("except (ValueError, TypeError):", "try except", True),
    ("except:", "try except except-bare", True),
)

BASE_TAGS = ("assign", "return", "raise", "pass", "expr", "break", "continue", "yield",
             "if", "elif", "else", "while", "while-else", "for", "for-else", "try", "except",
             "try-else", "finally", "with", "match", "match-default", "def", "closure", "gen", "class",
             "dead-code", "except-multi")


# tags that describe incidental expression forms; they are reported in meta["constructs"] but never
# needed in a ``constructs=`` filter
MINOR_TAGS = frozenset(["truth", "compare", "call", "binop", "attr", "display", "subscript"])


def _all_tags():
    tags = set(BASE_TAGS)
    for menu in (CONDS, EXPRS_ASSIGN, EXPRS_RETURN, EXPRS_RICH, WHILE_HEADS, FOR_ITERS, WITH_ITEMS,
                 MATCH_PATTERNS, EXCEPT_CLAUSES):
        for _, t, _ in menu:
            tags |= t
    return tuple(sorted(tags))


ALL_CONSTRUCTS = _all_tags()


# --------------------------------------------------------------------------- fragments
class _Ctx(tuple):
    """(in_loop, in_gen, while_level)."""
    __slots__ = ()

    def __new__(cls, loop=False, gen=False, wl=0):
        return tuple.__new__(cls, (bool(loop), bool(gen), int(wl)))

    loop = property(lambda s: s[0])
    gen = property(lambda s: s[1])
    wl = property(lambda s: s[2])

    def with_(self, **kw):
        d = {"loop": self[0], "gen": self[1], "wl": self[2]}
        d.update(kw)
        return _Ctx(**d)


# a fragment is (lines: tuple[str, ...], tags: frozenset[str], depth: int, terminal: bool)
def _frag(lines, tags, depth=0, terminal=False):
    return (tuple(lines), frozenset(tags), depth, terminal)


def _indent(lines):
    return tuple(IND + ln for ln in lines)


class _Grammar:
    """The grammar restricted to an enabled construct set (None = everything)."""

    def __init__(self, enabled):
        self.enabled = None if enabled is None else frozenset(enabled)
        self._stmts = functools.lru_cache(maxsize=None)(self._stmts_uncached)
        self._seqs = functools.lru_cache(maxsize=None)(self._seqs_uncached)

    def ok(self, tags):
        return self.enabled is None or (frozenset(tags) - MINOR_TAGS) <= self.enabled

    def menu(self, menu, extra=""):
        """Enabled entries as (src, tags, cost)."""
        ex = frozenset(extra.split())
        return [(s, t | ex, 1 if rich else 0) for s, t, rich in menu if self.ok(t | ex)]

    # ---- leaves of size k (1 = core, 2 = with one rich expression)
    def leaves(self, k, ctx):
        out = []
        if k == 1:
            for s, t, c in self.menu(EXPRS_ASSIGN, "assign"):
                out.append(_frag([f"x = {s}"], t))
            for s, t, c in self.menu(EXPRS_RETURN, "return"):
                out.append(_frag([f"return {s}"], t, terminal=True))
            if self.ok(["raise"]):
                out.append(_frag(["raise ValueError(a)"], ["raise", "call"], terminal=True))
            if self.ok(["pass"]):
                out.append(_frag(["pass"], ["pass"]))
            if self.ok(["expr"]):
                out.append(_frag(["str(a)"], ["expr", "call"]))
            if ctx.loop:
                if self.ok(["break"]):
                    out.append(_frag(["break"], ["break"], terminal=True))
                if self.ok(["continue"]):
                    out.append(_frag(["continue"], ["continue"], terminal=True))
            if ctx.gen and self.ok(["yield", "gen"]):
                out.append(_frag(["yield x"], ["yield", "gen"]))
        elif k == 2:
            for s, t, c in self.menu(EXPRS_RICH, "assign"):
                out.append(_frag([f"x = {s}"], t))
            for s, t, c in self.menu(EXPRS_RICH, "return"):
                out.append(_frag([f"return {s}"], t, terminal=True))
        return out

    # ---- all single statements of size exactly k, nesting budget d
    def _stmts_uncached(self, k, d, ctx):
        return tuple(self._stmts_iter(k, d, ctx))

    def _stmts_iter(self, k, d, ctx):
        yield from self.leaves(k, ctx)
        if d < 1 or k < 2:
            return
        sub = d - 1

        def bodies(n, c=ctx):
            return self._seqs(n, sub, c) if n >= 1 else ()

        def emit(clauses, tags, pre=(), post=()):
            """clauses: [(header line, body)], body = fragment or a tuple of fixed (free) lines."""
            lines = list(pre)
            depth = 0
            tagset = set(tags)
            for header, body in clauses:
                lines.append(header)
                if len(body) == 4 and isinstance(body[1], frozenset):
                    lines.extend(_indent(body[0]))
                    tagset |= body[1]
                    depth = max(depth, body[2])
                else:
                    lines.extend(_indent(body))
            lines.extend(post)
            return _frag(lines, tagset, depth + 1)

        def splits(total, parts):
            """All ways to write total as an ordered sum of `parts` positive ints."""
            if parts == 1:
                if total >= 1:
                    yield (total,)
                return
            for first in range(1, total - parts + 2):
                for rest in splits(total - first, parts - 1):
                    yield (first, *rest)

        def product_bodies(sizes, ctxs):
            if not sizes:
                yield ()
                return
            for b in bodies(sizes[0], ctxs[0]):
                for rest in product_bodies(sizes[1:], ctxs[1:]):
                    yield (b, *rest)

        # -------- if / elif / else
        for cs, ct, cc in self.menu(CONDS, "if"):
            rem = k - 1 - cc
            for (n1,) in splits(rem, 1):
                for b in bodies(n1):
                    yield emit([(f"if {cs}:", b)], ct)
            if self.ok(["else"]):
                for sz in splits(rem, 2):
                    for b1, b2 in product_bodies(sz, (ctx, ctx)):
                        yield emit([(f"if {cs}:", b1), ("else:", b2)], ct | {"else"})
            if self.ok(["elif"]):
                for sz in splits(rem, 2):
                    for b1, b2 in product_bodies(sz, (ctx, ctx)):
                        yield emit([(f"if {cs}:", b1), ("elif b:", b2)], ct | {"elif"})
                if self.ok(["else"]):
                    for sz in splits(rem, 3):
                        for b1, b2, b3 in product_bodies(sz, (ctx, ctx, ctx)):
                            yield emit([(f"if {cs}:", b1), ("elif b:", b2), ("else:", b3)],
                                 ct | {"elif", "else"})

        # -------- while (bounded by counter i<level>)
        ivar = f"i{ctx.wl}"
        inner = ctx.with_(loop=True, wl=ctx.wl + 1)
        for hs, ht, hc in self.menu(WHILE_HEADS):
            rem = k - 1 - hc
            head = hs.format(i=ivar)
            if "while-true" in ht:
                guard = (f"{ivar} += 1", f"if {ivar} > 2:", IND + "break")
            else:
                guard = (f"{ivar} += 1",)
            for (n1,) in splits(rem, 1):
                for b in bodies(n1, inner):
                    yield emit([(head, _frag(guard + b[0], b[1], b[2]))], ht, pre=(f"{ivar} = 0",))
            if self.ok(["while-else", "else"]):
                for sz in splits(rem, 2):
                    for b1, b2 in product_bodies(sz, (inner, ctx)):
                        yield emit([(head, _frag(guard + b1[0], b1[1], b1[2])), ("else:", b2)],
                             ht | {"while-else", "else"}, pre=(f"{ivar} = 0",))

        # -------- for
        inner_for = ctx.with_(loop=True)
        for its, itt, itc in self.menu(FOR_ITERS):
            rem = k - 1 - itc
            head = f"for v in {its}:"
            for (n1,) in splits(rem, 1):
                for b in bodies(n1, inner_for):
                    yield emit([(head, b)], itt)
            if self.ok(["for-else", "else"]):
                for sz in splits(rem, 2):
                    for b1, b2 in product_bodies(sz, (inner_for, ctx)):
                        yield emit([(head, b1), ("else:", b2)], itt | {"for-else", "else"})

        # -------- with
        for ws, wt, wc in self.menu(WITH_ITEMS):
            rem = k - 1 - wc
            for (n1,) in splits(rem, 1):
                for b in bodies(n1):
                    yield emit([(f"with {ws}:", b)], wt)

        # -------- try
        filler = ("x = -1",)
        for es, et, ec in self.menu(EXCEPT_CLAUSES):
            rem = k - 1 - ec
            # one counted body, filler handler
            for (n1,) in splits(rem, 1):
                for b in bodies(n1):
                    yield emit([("try:", b), (es, filler)], et)
            # try / except
            for sz in splits(rem, 2):
                for b1, b2 in product_bodies(sz, (ctx, ctx)):
                    yield emit([("try:", b1), (es, b2)], et)
            if ec == 0 and "except-as" not in et:
                if self.ok(["try-else", "else"]):
                    for sz in splits(rem, 3):
                        for b1, b2, b3 in product_bodies(sz, (ctx, ctx, ctx)):
                            yield emit([("try:", b1), (es, b2), ("else:", b3)], et | {"try-else", "else"})
                if self.ok(["finally"]):
                    for sz in splits(rem, 3):
                        for b1, b2, b3 in product_bodies(sz, (ctx, ctx, ctx)):
                            yield emit([("try:", b1), (es, b2), ("finally:", b3)], et | {"finally"})
                    if self.ok(["try-else", "else"]):
                        for sz in splits(rem, 4):
                            for b1, b2, b3, b4 in product_bodies(sz, (ctx,) * 4):
                                yield emit([("try:", b1), (es, b2), ("else:", b3), ("finally:", b4)],
                                     et | {"try-else", "else", "finally"})
                # two handlers
                for sz in splits(rem, 3):
                    for b1, b2, b3 in product_bodies(sz, (ctx, ctx, ctx)):
                        yield emit([("try:", b1), (es, b2), ("except TypeError:", b3)], et | {"except-multi"})
        if self.ok(["try", "finally"]):
            rem = k - 1
            for (n1,) in splits(rem, 1):
                for b in bodies(n1):
                    yield emit([("try:", b), ("finally:", filler)], {"try", "finally"})
            for sz in splits(rem, 2):
                for b1, b2 in product_bodies(sz, (ctx, ctx)):
                    yield emit([("try:", b1), ("finally:", b2)], {"try", "finally"})

        # -------- match
        for ps, pt, pc in self.menu(MATCH_PATTERNS):
            rem = k - 1 - pc
            for (n1,) in splits(rem, 1):
                for b in bodies(n1):
                    yield emit([("match a:", _frag((f"case {ps}:",) + _indent(b[0]) + ("case _:", IND + "x = -1"),
                                             b[1], b[2]))], pt)
            for sz in splits(rem, 2):
                for b1, b2 in product_bodies(sz, (ctx, ctx)):
                    yield emit([("match a:", _frag((f"case {ps}:",) + _indent(b1[0]) + ("case _:",) + _indent(b2[0]),
                                             b1[1] | b2[1], max(b1[2], b2[2])))], pt | {"match-default"})

        # -------- nested def (+ closure use), generator, class
        fctx = _Ctx()
        rem = k - 1
        if self.ok(["def"]):
            for b in bodies(rem, fctx):
                tags = {"def", "call"}
                if _uses_free(b[0]):
                    tags.add("closure")
                yield emit([("def g(v):", b)], tags, post=("x = g(a)",))
        if self.ok(["def", "gen", "yield"]):
            gctx = _Ctx(gen=True)
            for b in bodies(rem, gctx):
                tags = {"def", "gen", "yield", "call"}
                if _uses_free(b[0]):
                    tags.add("closure")
                yield emit([("def g(v):", _frag(("yield v",) + b[0], b[1], b[2]))], tags, post=("x = list(g(a))",))
        if self.ok(["class", "def"]):
            for b in bodies(rem, fctx):
                tags = {"class", "def", "call", "attr"}
                if _uses_free(b[0]):
                    tags.add("closure")
                yield emit([("class K:", _frag(("def m(self, v):",) + _indent(b[0]), b[1], b[2]))], tags,
                     post=("x = K().m(a)",))

    # ---- all statement sequences of total size exactly k
    def _seqs_uncached(self, k, d, ctx):
        return tuple(self._seqs_iter(k, d, ctx))

    def _seqs_iter(self, k, d, ctx):
        """Lazy version (used for the top level so that the largest list is never materialised)."""
        dead_ok = self.ok(["dead-code"])
        for first in range(1, k + 1):
            if first == k:
                yield from self._stmts_iter(first, d, ctx)
                continue
            tails = self._seqs(k - first, d, ctx)
            for h in self._stmts(first, d, ctx):
                if h[3] and not dead_ok:
                    continue
                extra = frozenset(["dead-code"]) if h[3] else frozenset()
                for t in tails:
                    yield (h[0] + t[0], h[1] | t[1] | extra, max(h[2], t[2]), False)


def _uses_free(lines):
    """Does a nested body mention a variable of the enclosing function (a, b or an unassigned x)?"""
    import re
    text = "\n".join(lines)
    if re.search(r"\b[ab]\b", text):
        return True
    return bool(re.search(r"\bx\b", text)) and not re.search(r"^\s*x\s*=", text, re.M)


# --------------------------------------------------------------------------- programs
def _name(prefix, source):
    return f"{prefix}_{hashlib.blake2b(source.encode(), digest_size=6).hexdigest()}"


def _module_source(body_lines):
    text = "\n".join(body_lines)
    pre = "import contextlib\n\n\n" if "contextlib." in text else ""
    return (f"{pre}def {FUNC}({', '.join(PARAMS)}):\n{IND}x = 0\n"
            + "\n".join(IND + ln for ln in body_lines) + "\n")


def _meta(kind, tags, size, depth, body, executable=True):
    return {"constructs": sorted(tags), "size": size, "depth": depth, "kind": kind, "func": FUNC,
            "params": PARAMS, "executable": executable, "body": list(body)}


def programs(max_stmts, max_depth, constructs=None, dedupe=None):
    """Yield (name, source, meta) for every grammar program with size <= max_stmts, depth <= max_depth."""
    g = _Grammar(constructs)
    seen = set()
    for k in range(1, max_stmts + 1):
        for lines, tags, depth, _term in g._seqs_iter(k, max_depth, _Ctx()):
            source = _module_source(lines)
            if dedupe:
                sig = dis_signature(compile(source, "<progen>", "exec"), detail=dedupe)
                if sig in seen:
                    continue
                seen.add(sig)
            yield _name(f"g{k}", source), source, _meta("grammar", tags, k, depth, lines)


def count(max_stmts, max_depth, constructs=None):
    g = _Grammar(constructs)
    return {k: sum(1 for _ in g._seqs_iter(k, max_depth, _Ctx())) for k in range(1, max_stmts + 1)}


def write_program(directory, name, source):
    """Write the program as ``<directory>/<name>.py`` (importable module name = ``name``); return the path."""
    import os
    path = os.path.join(directory, f"{name}.py")
    with open(path, "w", encoding="utf-8") as fh:
        fh.write(source)
    return path


def shard_of(name, n):
    return int(hashlib.blake2b(name.encode(), digest_size=4).hexdigest(), 16) % n


# --------------------------------------------------------------------------- seeds
_SEEDS = [
    ("assign-return", "assign return", "x = a\nreturn x"),
    ("augassign", "assign binop", "x = a\nx += 1\nx -= 1\nreturn x"),
    ("raise", "raise call", "raise ValueError(a)"),
    ("pass", "pass", "pass"),
    ("expr-stmt", "expr call", "str(a)\nreturn None"),
    ("if", "if compare return", "if a < b:\n    return 1\nreturn 0"),
    ("if-else", "if else compare return", "if a == b:\n    x = 1\nelse:\n    x = 2\nreturn x"),
    ("if-elif-else", "if elif else compare",
     "if a < b:\n    x = 1\nelif a == b:\n    x = 2\nelif a is None:\n    x = 4\nelse:\n    x = 3\nreturn x"),
    ("nested-if", "if compare", "if a:\n    if b:\n        x = 1\n    else:\n        x = 2\nreturn x"),
    ("while", "while assign", "i = 0\nwhile i < 3:\n    i += 1\n    x += i\nreturn x"),
    ("while-break-continue-else", "while break continue while-else else if",
     "i = 0\nwhile i < 4:\n    i += 1\n    if i == a:\n        continue\n    if i == b:\n        break\n    x += 1\n"
     "else:\n    x = -1\nreturn x"),
    ("while-true-break", "while while-true break if",
     "i = 0\nwhile True:\n    i += 1\n    if i > 2 or a:\n        break\nreturn i"),
    ("for", "for call", "for v in range(3):\n    x += v\nreturn x"),
    ("for-break-else", "for break for-else else if",
     "for v in range(3):\n    if v == a:\n        break\nelse:\n    x = -1\nreturn x"),
    ("for-continue", "for continue if", "for v in (1, 2, 3):\n    if v == a:\n        continue\n    x += v\nreturn x"),
    ("nested-loops", "for while break continue if",
     "for v in range(2):\n    j = 0\n    while j < 2:\n        j += 1\n        if j == a:\n            break\n"
     "        if v == b:\n            continue\n        x += 1\nreturn x"),
    ("try-except", "try except raise if",
     "try:\n    if a:\n        raise ValueError(a)\n    x = 1\nexcept ValueError:\n    x = 2\nreturn x"),
    ("try-except-as", "try except except-as raise",
     "try:\n    raise ValueError(a)\nexcept ValueError as e:\n    x = e.args[0]\nreturn x"),
    ("try-except-else-finally", "try except try-else else finally raise if",
     "try:\n    if a:\n        raise ValueError(a)\nexcept ValueError:\n    x = 1\nelse:\n    x = 2\nfinally:\n    x += 10\nreturn x"),
    ("try-finally-return", "try finally return if",
     "try:\n    if a:\n        return 1\n    x = 2\nfinally:\n    x = 3\nreturn x"),
    ("try-multi-except", "try except except-multi raise if",
     "try:\n    if a:\n        raise ValueError(a)\n    if b:\n        raise TypeError(b)\nexcept ValueError:\n    x = 1\n"
     "except (TypeError, KeyError):\n    x = 2\nexcept Exception:\n    x = 3\nreturn x"),
    ("try-nested-reraise", "try except raise",
     "try:\n    try:\n        raise ValueError(a)\n    except ValueError:\n        x = 1\n        raise\nexcept Exception:\n    x += 1\nreturn x"),
    ("try-in-loop-break", "for try finally break continue if",
     "for v in range(3):\n    try:\n        if v == a:\n            break\n        if v == b:\n            continue\n"
     "    finally:\n        x += 1\nreturn x"),
    ("with", "with", "import contextlib\nwith contextlib.nullcontext(a) as w:\n    x = w\nreturn x"),
    ("with-suppress-multi", "with raise if",
     "import contextlib\nwith contextlib.suppress(ValueError), contextlib.nullcontext(b) as w:\n    if a:\n"
     "        raise ValueError(a)\n    x = 1\nreturn x"),
    ("with-return", "with return if", "import contextlib\nwith contextlib.nullcontext(a):\n    if a:\n        return 1\nreturn 2"),
    ("match", "match match-seq match-class match-map match-guard match-or match-default",
     "match a:\n    case 1 | 2:\n        x = 1\n    case [p, q]:\n        x = 2\n    case str():\n        x = 3\n"
     "    case {'k': p}:\n        x = 4\n    case p if p == b:\n        x = 5\n    case _:\n        x = 6\nreturn x"),
    ("match-no-default", "match", "match a:\n    case 1:\n        x = 1\n    case 2:\n        x = 2\nreturn x"),
    ("closure", "def closure call", "def g(v):\n    return v + b if b else v\nreturn g(a)"),
    ("closure-nonlocal", "def closure call", "def g():\n    nonlocal x\n    x = a\ng()\nreturn x"),
    ("lambda", "lambda call", "g = lambda v, w=b: v if w else 0\nreturn g(a)"),
    ("listcomp", "listcomp comp-if", "return [v + 1 for v in range(3) if v != a]"),
    ("setcomp-dictcomp", "setcomp dictcomp", "return ({v for v in range(2)}, {v: a for v in range(2) if v})"),
    ("nested-comp", "listcomp", "return [(v, w) for v in range(2) for w in range(2) if v != w]"),
    ("genexpr-next", "genexpr next call", "g = (v for v in range(3) if v != a)\nreturn next(g, None)"),
    ("generator-func", "def gen yield call for",
     "def g(n):\n    for v in range(n):\n        if v == a:\n            return\n        yield v\nreturn list(g(3))"),
    ("bool-ops", "and or not if", "if a and b or not a:\n    x = 1\nif not (a or b):\n    x += 2\nreturn x"),
    ("bool-value", "and or", "x = a and b\nx = x or 3\nreturn x"),
    ("chain-compare", "chain if", "if 0 <= a < 3 <= 5:\n    x = 1\nreturn x"),
    ("is-none", "is-none if", "if a is None:\n    x = 1\nif b is not None:\n    x += 2\nreturn x"),
    ("isinstance", "isinstance call if", "if isinstance(a, (int, str)):\n    x = 1\nreturn x"),
    ("startswith", "startswith isdigit call attr if",
     "if isinstance(a, str) and a.startswith('a'):\n    x = 1\nelif isinstance(a, str) and a.isdigit():\n    x = 2\nreturn x"),
    ("in", "in if", "if a in (1, 2):\n    x = 1\nif a not in [0, b]:\n    x += 2\nreturn x"),
    ("ifexp", "ifexp", "return 1 if a else (2 if b else 3)"),
    ("class", "class def call attr",
     "class K:\n    n = 1\n    def __init__(self, v):\n        self.v = v\n    @property\n    def p(self):\n"
     "        return self.v if self.v else self.n\nreturn K(a).p"),
    ("assert", "assert", "try:\n    assert a, 'no'\nexcept AssertionError:\n    x = 1\nreturn x"),
    ("walrus-del-unpack", "assign", "if (y := a):\n    x = y\np, q = 1, 2\ndel p\nreturn (x, q)"),
    ("recursion", "def call if", "def g(n):\n    return 0 if n <= 0 else 1 + g(n - 1)\nreturn g(2)"),
    ("star-call-fstring", "call", "def g(*p, **k):\n    return len(p) + len(k)\nreturn f'{g(*[a, b], k=1)}'"),
    ("global-import", "assign", "import math\nreturn math.floor(1.5) if a else 0"),
    # CPython keeps the handler of a try block whose body compiles to nothing: dead code with a loop
    ("dead-handler-loop", "try except for dead-code",
     "try:\n    pass\nexcept ValueError:\n    for v in range(2):\n        x += v\nreturn x"),
    ("dead-handler-while", "try except while if dead-code",
     "try:\n    pass\nexcept ValueError:\n    i = 0\n    while i < 2:\n        i += 1\n        if a:\n            x = i\nreturn x"),
]

_STATIC_SEEDS = [
    ("infinite-while", "while while-true", False, "def f(a, b):\n    while True:\n        pass\n"),
    # a cold handler block laid out after an infinite loop of try statements: the CDG has a cycle of
    # unlabelled edges that is entered at a node without a direct entry edge
    ("try-return-then-loop-of-tries", "try except if return while while-true", False,
     "def f(a, b):\n    try:\n        if a:\n            return 1\n    except:\n        pass\n    while True:\n"
     "        try:\n            a()\n        except ValueError:\n            pass\n        try:\n            a()\n"
     "        except KeyError:\n            pass\n"),
    ("infinite-while-if", "while while-true if", False,
     "def f(a, b):\n    while True:\n        if a:\n            b = 1\n        else:\n            b = 2\n"),
    ("infinite-while-try", "while while-true try except", False,
     "def f(a, b):\n    while True:\n        try:\n            a()\n        except ValueError:\n            continue\n"),
    ("infinite-nested", "while while-true for", False,
     "def f(a, b):\n    while True:\n        for v in a:\n            while True:\n                b += 1\n"),
    ("infinite-generator", "while while-true gen yield", False,
     "def f(a, b):\n    while True:\n        yield a\n        if b:\n            a += 1\n"),
    ("infinite-after-branch", "while while-true if return", False,
     "def f(a, b):\n    if a:\n        return 1\n    while 1:\n        b += 1\n"),
    ("yield-from", "gen yield-from", False, "def f(a, b):\n    x = yield from a\n    return x\n"),
    # a SEND loop (await / yield from) BELOW a branch and another branch after it: the SEND and YIELD_VALUE
    # blocks are mutually control dependent through value-less edges
    ("await-below-branch", "async if return", False,
     "async def f(a, b):\n    if a:\n        await a()\n    if b:\n        return 1\n    return 0\n"),
    ("yield-from-below-branch", "gen yield-from if return", False,
     "def f(a, b):\n    if a:\n        yield from a\n    if b:\n        return 1\n    return 0\n"),
    ("async-await", "async", False, "async def f(a, b):\n    x = await a\n    return x\n"),
    ("async-for-with", "async for with", False,
     "async def f(a, b):\n    async with a as w:\n        async for v in b:\n            if v:\n                break\n    return w\n"),
    ("async-gen", "async gen yield", False, "async def f(a, b):\n    for v in a:\n        yield v\n"),
    ("async-comp", "async listcomp", False, "async def f(a, b):\n    return [v async for v in a if v]\n"),
    ("except-star", "try except-star", False,
     "def f(a, b):\n    try:\n        a()\n    except* ValueError:\n        b = 1\n    except* TypeError as e:\n        b = 2\n    return b\n"),
    ("module-level-branches", "if for class", False,
     "import sys\nif sys.flags.debug:\n    X = 1\nelse:\n    X = 2\nfor _v in range(2):\n    X += _v\n"
     "class K:\n    if X:\n        def m(self):\n            return 1\n    else:\n        m = None\n"
     "def f(a, b):\n    return X\n"),
    ("class-body-loop", "class for try", False,
     "class K:\n    t = []\n    for v in range(3):\n        try:\n            t.append(v)\n        except Exception:\n            pass\n"
     "def f(a, b):\n    return K.t\n"),
    ("try-finally-loop-return", "try finally while return break continue", False,
     "def f(a, b):\n    while a:\n        try:\n            if b:\n                return 1\n            elif a > 2:\n                break\n"
     "            else:\n                continue\n        finally:\n            a -= 1\n    return 0\n"),
    ("with-in-try-in-for", "with try for except finally", False,
     "def f(a, b):\n    for v in a:\n        try:\n            with v as w:\n                if w:\n                    return w\n"
     "        except (ValueError, TypeError) as e:\n            b = e\n        finally:\n            b = None\n    return b\n"),
    ("lambda-default-nested", "lambda def closure", False,
     "def f(a, b):\n    def g(v):\n        h = lambda w: (w if v else a) or b\n        return h\n    return g\n"),
    ("decorated-nested-class", "class def", False,
     "def f(a, b):\n    class K(Exception):\n        @staticmethod\n        def s(v):\n            return [w for w in v if w] if v else None\n    return K\n"),
]


def _seed_source(body):
    lines = body.split("\n")
    imports = [ln for ln in lines if ln.startswith("import ")]
    rest = [ln for ln in lines if not ln.startswith("import ")]
    pre = ("\n".join(imports) + "\n\n\n") if imports else ""
    return f"{pre}def {FUNC}({', '.join(PARAMS)}):\n{IND}x = 0\n" + "\n".join(IND + ln for ln in rest) + "\n"


# Whole sources (not wrapped in "x = 0 ... "): functions whose LAST executed line is also the FIRST line of
# the next call (one-line bodies, body on the def line, a one-line loop, a one-line raise) - consecutive
# executions on one tracer then begin where the previous one ended.
_RAW_SEEDS = [
    ("oneline-return", "return compare", "def f(a, b):\n    return a < b\n"),
    ("body-on-def-line", "return if", "def f(a, b): return a if a else b\n"),
    ("oneline-loop", "while", "def f(a, b):\n    while a is True: a = False\n"),
    ("oneline-raise", "raise call", "def f(a, b):\n    raise ValueError(a)\n"),
    ("oneline-for", "for call", "def f(a, b):\n    for v in range(2): b = v\n"),
    # a string method that is only REFERENCED (bound method stored), at the positions where the dynamic
    # seeding adapter looks for the LOAD_ATTR of a call
    ("methref-startswith", "assign return", "def f(a, b):\n    g = str(a).startswith\n    return b\n"),
    ("methref-isdigit", "assign return", "def f(a, b):\n    g = str(a).isdigit\n    return None\n"),
    ("methref-endswith-arg", "assign return call",
     "def f(a, b):\n    s = str(a)\n    g = (s.endswith, b)\n    return len(g)\n"),
]


def seeds():
    """Fixed list of hand-written executable "one construct each" programs (f(a, b), always terminate)."""
    out = []
    for label, tags, body in _SEEDS:
        src = _seed_source(body)
        meta = _meta("seed", tags.split(), src.count("\n"), None, body.split("\n"))
        out.append((f"seed_{label.replace('-', '_')}", src, meta))
    for label, tags, src in _RAW_SEEDS:
        meta = _meta("seed", tags.split(), src.count("\n"), None, src.split("\n"))
        out.append((f"seed_{label.replace('-', '_')}", src, meta))
    return out


def static_seeds():
    """Hand-written programs for static analyses only (may loop forever / need an event loop)."""
    out = []
    for label, tags, executable, src in _STATIC_SEEDS:
        meta = _meta("static", tags.split(), src.count("\n"), None, src.split("\n"), executable=executable)
        out.append((f"static_{label.replace('-', '_')}", src, meta))
    return out


# --------------------------------------------------------------------------- bytecode helpers
def code_objects(code):
    """The code object and all nested code objects, depth-first, in co_consts order."""
    yield code
    for c in code.co_consts:
        if isinstance(c, types.CodeType):
            yield from code_objects(c)


def opcodes(code):
    return {ins.opname for co in code_objects(code) for ins in dis.get_instructions(co)}


_OPERATOR_OPS = ("COMPARE_OP", "BINARY_OP", "IS_OP", "CONTAINS_OP", "CALL_INTRINSIC_1", "RAISE_VARARGS")


def dis_signature(code, detail="ops", recursive=True):
    """A hashable key of the bytecode *shape* of a code object and everything nested in it.

    ``detail="shape"``: opcode names, jump structure (targets as instruction indices) and the
    exception table.  ``detail="ops"`` additionally keeps the operator of compare / binary /
    is / contains instructions (programs that differ only in names and constants are merged,
    programs that differ in ``<`` vs ``==`` are not).  ``recursive=False``: this code object
    alone, nested code objects ignored.
    """
    parts = []
    for co in (code_objects(code) if recursive else (code,)):
        ins = list(dis.get_instructions(co))
        index = {i.offset: n for n, i in enumerate(ins)}
        row = []
        for i in ins:
            if i.opname in ("CACHE", "EXTENDED_ARG"):
                continue
            if i.is_jump_target if hasattr(i, "is_jump_target") else False:
                row.append("L")
            if i.opcode in dis.hasjrel or i.opcode in dis.hasjabs:
                row.append(f"{i.opname}>{index.get(i.argval, -1)}")
            elif detail == "ops" and i.opname in _OPERATOR_OPS:
                row.append(f"{i.opname}:{i.argrepr or i.arg}")
            else:
                row.append(i.opname)
        exc = []
        try:
            entries = dis._parse_exception_table(co)  # noqa: SLF001
        except Exception:  # noqa: BLE001
            entries = []
        for e in entries:
            exc.append((index.get(e.start, -1), index.get(e.end, -1), index.get(e.target, -1), e.depth, e.lasti))
        kind = co.co_name if co.co_name.startswith("<") else "fn"
        parts.append((kind, co.co_flags & 0x2A0, tuple(row), tuple(exc)))
    return hashlib.blake2b(repr(parts).encode(), digest_size=12).hexdigest()


# construct tag -> predicate over (opnames, names, code-names) witnessed in the compiled module
_EVIDENCE = {
    "assign": lambda o, n, c: "STORE_FAST" in o,
    "return": lambda o, n, c: bool({"RETURN_VALUE", "RETURN_CONST"} & o),
    "raise": lambda o, n, c: "RAISE_VARARGS" in o,
    "pass": lambda o, n, c: "NOP" in o or "RETURN_CONST" in o,
    "expr": lambda o, n, c: "POP_TOP" in o,
    "call": lambda o, n, c: "CALL" in o,
    "if": lambda o, n, c: bool({"POP_JUMP_IF_FALSE", "POP_JUMP_IF_TRUE", "POP_JUMP_IF_NONE",
                                "POP_JUMP_IF_NOT_NONE"} & o),
    "elif": lambda o, n, c: bool({"POP_JUMP_IF_FALSE", "POP_JUMP_IF_TRUE"} & o),
    "else": lambda o, n, c: bool({"JUMP_FORWARD", "JUMP_BACKWARD", "RETURN_VALUE", "RETURN_CONST"} & o),
    "truth": lambda o, n, c: bool({"POP_JUMP_IF_FALSE", "POP_JUMP_IF_TRUE"} & o),
    "compare": lambda o, n, c: "COMPARE_OP" in o,
    "while": lambda o, n, c: "JUMP_BACKWARD" in o,
    "while-true": lambda o, n, c: "JUMP_BACKWARD" in o,
    "while-else": lambda o, n, c: "JUMP_BACKWARD" in o,
    "break": lambda o, n, c: bool({"JUMP_FORWARD", "JUMP_BACKWARD", "RETURN_VALUE", "RETURN_CONST", "POP_TOP"} & o),
    "continue": lambda o, n, c: "JUMP_BACKWARD" in o,
    "for": lambda o, n, c: "FOR_ITER" in o and "GET_ITER" in o,
    "for-else": lambda o, n, c: "END_FOR" in o,
    "try": lambda o, n, c: "PUSH_EXC_INFO" in o,
    "except": lambda o, n, c: bool({"CHECK_EXC_MATCH", "POP_EXCEPT"} & o),
    "except-as": lambda o, n, c: "POP_EXCEPT" in o and "DELETE_FAST" in o,
    "except-bare": lambda o, n, c: "POP_EXCEPT" in o,
    "except-multi": lambda o, n, c: "CHECK_EXC_MATCH" in o,
    "try-else": lambda o, n, c: "PUSH_EXC_INFO" in o,
    "finally": lambda o, n, c: "RERAISE" in o,
    "with": lambda o, n, c: bool({"BEFORE_WITH", "BEFORE_ASYNC_WITH"} & o) and "WITH_EXCEPT_START" in o,
    "match": lambda o, n, c: bool({"COMPARE_OP", "MATCH_SEQUENCE", "MATCH_CLASS", "MATCH_MAPPING"} & o),
    "match-seq": lambda o, n, c: "MATCH_SEQUENCE" in o,
    "match-class": lambda o, n, c: "MATCH_CLASS" in o,
    "match-map": lambda o, n, c: "MATCH_MAPPING" in o or "MATCH_KEYS" in o,
    "match-guard": lambda o, n, c: bool({"POP_JUMP_IF_FALSE", "POP_JUMP_IF_TRUE"} & o),
    "match-or": lambda o, n, c: "COPY" in o,
    "match-default": lambda o, n, c: True,
    "def": lambda o, n, c: "MAKE_FUNCTION" in o,
    "closure": lambda o, n, c: bool({"LOAD_DEREF", "LOAD_CLOSURE", "COPY_FREE_VARS"} & o),
    "lambda": lambda o, n, c: "<lambda>" in c,
    "listcomp": lambda o, n, c: "LIST_APPEND" in o,
    "setcomp": lambda o, n, c: "SET_ADD" in o,
    "dictcomp": lambda o, n, c: "MAP_ADD" in o,
    "comp-if": lambda o, n, c: "LIST_APPEND" in o or "SET_ADD" in o or "MAP_ADD" in o,
    "genexpr": lambda o, n, c: "<genexpr>" in c and "RETURN_GENERATOR" in o,
    "next": lambda o, n, c: "next" in n,
    "gen": lambda o, n, c: "YIELD_VALUE" in o and "RETURN_GENERATOR" in o,
    "yield": lambda o, n, c: "YIELD_VALUE" in o,
    "yield-from": lambda o, n, c: "SEND" in o,
    "async": lambda o, n, c: bool({"SEND", "GET_AWAITABLE", "ASYNC_GEN_WRAP"} & o),
    "and": lambda o, n, c: bool({"POP_JUMP_IF_FALSE", "POP_JUMP_IF_TRUE"} & o),
    "or": lambda o, n, c: bool({"POP_JUMP_IF_FALSE", "POP_JUMP_IF_TRUE"} & o),
    "not": lambda o, n, c: bool({"UNARY_NOT", "POP_JUMP_IF_TRUE", "POP_JUMP_IF_FALSE"} & o),
    "chain": lambda o, n, c: "COPY" in o and "SWAP" in o,
    "is-none": lambda o, n, c: bool({"POP_JUMP_IF_NONE", "POP_JUMP_IF_NOT_NONE", "IS_OP"} & o),
    "is": lambda o, n, c: "IS_OP" in o,
    "in": lambda o, n, c: "CONTAINS_OP" in o,
    "isinstance": lambda o, n, c: "isinstance" in n,
    "startswith": lambda o, n, c: "startswith" in n,
    "isdigit": lambda o, n, c: "isdigit" in n,
    "ifexp": lambda o, n, c: bool({"POP_JUMP_IF_FALSE", "POP_JUMP_IF_TRUE"} & o),
    "binop": lambda o, n, c: "BINARY_OP" in o,
    "subscript": lambda o, n, c: "BINARY_SUBSCR" in o,
    "attr": lambda o, n, c: "LOAD_ATTR" in o,
    "display": lambda o, n, c: bool({"BUILD_LIST", "BUILD_MAP", "BUILD_TUPLE", "BUILD_SET"} & o),
    "class": lambda o, n, c: "LOAD_BUILD_CLASS" in o,
    "assert": lambda o, n, c: "LOAD_ASSERTION_ERROR" in o,
    "except-star": lambda o, n, c: "CHECK_EG_MATCH" in o,
    "dead-code": lambda o, n, c: True,
}


def construct_evidence(code):
    """Construct tags (of ``_EVIDENCE``) whose characteristic opcode / name occurs in ``code`` (recursively)."""
    ops, names, cnames = set(), set(), set()
    for co in code_objects(code):
        cnames.add(co.co_name)
        names.update(co.co_names)
        for ins in dis.get_instructions(co):
            ops.add(ins.opname)
    return {t for t, pred in _EVIDENCE.items() if pred(ops, names, cnames)}


# --------------------------------------------------------------------------- inputs
_INT = ["0", "1", "2", "-1"]
_MENUS = {
    # small: ints cover all comparison outcomes; None for `is None`; one str pair; one container
    "small": [("0", "0"), ("0", "1"), ("1", "0"), ("1", "1"), ("2", "1"), ("None", "0"), ("1", "None"),
              ("'ab'", "'a'"), ("1", "[1, 2]"), ("0", "[]"),
              # almost-equal / almost-zero numbers: the not-taken outcome has a tiny positive distance
              ("0.1 + 0.2", "0.3"), ("5e-324", "0")],
    "full": None,
}
_FULL_VALUES = _INT + ["None", "True", "1.5", "''", "'a'", "'ab'", "'7'", "[]", "[1, 2]", "(0,)", "{'k': 1}", "[1, 'a']"]


def input_menu_src(meta=None, size="small"):
    """Argument tuples as source strings ``(a_src, b_src)`` (evaluate them to get fresh objects).

    ``small``: 12 pairs (int outcomes of every comparison, None, str, container).  ``full``: the full
    product over 16 values (256 pairs).  With ``meta`` the menu is narrowed to what the program's
    constructs can distinguish (e.g. no str inputs unless the program has a string predicate)."""
    if size == "full":
        pairs = [(x, y) for x in _FULL_VALUES for y in _FULL_VALUES]
    else:
        pairs = list(_MENUS["small"])
    if meta is not None:
        tags = set(meta.get("constructs", ()))
        needs_str = tags & {"startswith", "isdigit", "match-class"}
        needs_seq = tags & {"in", "for", "listcomp", "setcomp", "dictcomp", "genexpr", "subscript", "match-seq",
                            "match-map", "call"}
        if size == "small":
            if needs_str:
                pairs += [("'7'", "'a'"), ("'a'", "'ab'")]
            if tags & {"match-seq", "match-map"}:
                pairs += [("[1, 2]", "0"), ("{'k': 1}", "0")]
            if not needs_seq and not needs_str:
                pairs = [p for p in pairs if "[" not in p[1]]
    return pairs


def input_menu(meta=None, size="small"):
    """Argument tuples ``(a, b)`` as fresh Python objects."""
    return [(eval(x), eval(y)) for x, y in input_menu_src(meta, size)]  # noqa: S307
