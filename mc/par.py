"""Deterministic sharding over fresh worker processes.

Workers are started with the ``spawn`` method: each is a fresh interpreter that
imports pynguin from /repo/src itself, never a fork of a warm parent.
``run_shards("props.c34_orderedset:shard", [args...], workers)`` calls
``shard(col, *args)`` with a fresh Collector in a worker and returns the
collectors in argument order (so merging is deterministic).
"""

from __future__ import annotations

import importlib
import multiprocessing as mp
import os
import traceback

from mc.ctx import Collector, HarnessError


def _call(job):
    target, args = job
    modname, fn = target.split(":")
    col = Collector()
    try:
        getattr(importlib.import_module(modname), fn)(col, *args)
        return ("ok", col)
    except BaseException:  # noqa: BLE001
        return ("err", traceback.format_exc())


def run_shards(target: str, arglist: list[tuple], workers: int, ctx=None, maxtasksperchild=None):
    workers = max(1, min(workers, len(arglist)))
    out = []
    if workers == 1 and os.environ.get("VERIF_INPROC") == "1":
        res = [_call((target, a)) for a in arglist]
    else:
        mpctx = mp.get_context("spawn")
        with mpctx.Pool(workers, maxtasksperchild=maxtasksperchild) as pool:
            res = pool.map(_call, [(target, a) for a in arglist], chunksize=1)
    for status, payload in res:
        if status != "ok":
            raise HarnessError("shard failed:\n" + payload)
        out.append(payload)
        if ctx is not None:
            ctx.merge(payload)
    return out
