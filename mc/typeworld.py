"""Generated class-hierarchy modules and the type universe built over them (C25, C26).

* ``hierarchies(n_max)`` enumerates ALL inheritance DAGs on 1..n_max user classes
  ``C0..C{n-1}``: class ``Ci`` inherits from every *ordered* selection of earlier
  classes (so single and multiple inheritance and every base order appear).  A
  hierarchy Python cannot linearise (C3 MRO failure) is skipped and counted.
* ``write_module`` realises a hierarchy as a real ``.py`` module in a package
  directory (``ctx.scratch()``): every class has a constructor and methods
  returning every other class, ``list[..]``, ``dict[..]``, ``tuple[..]``, a union
  and ``None`` so that the analysed cluster owns generators of every shape.
* ``analyse`` runs the real ``pynguin.analyses.module.generate_test_cluster`` on it
  after resetting ``config.configuration`` and clearing every ``functools`` cache
  of the type system / providers / cluster.
* ``Universe`` enumerates the proper types of depth <= 2 over the user classes and
  the builtins, with stable text labels (used in fingerprints and replay data).
"""

from __future__ import annotations

import importlib
import itertools
import os
import sys

USER_PREFIX = "C"
BUILTIN_ATOMS = ("int", "float", "complex", "bool", "str", "list", "dict", "set", "tuple")


# ------------------------------------------------------------------ hierarchies
def _ordered_selections(items):
    for r in range(len(items) + 1):
        for sub in itertools.combinations(items, r):
            yield from itertools.permutations(sub)


def linearisable(spec) -> bool:
    classes = []
    try:
        for i, bases in enumerate(spec):
            classes.append(type(f"{USER_PREFIX}{i}", tuple(classes[b] for b in bases), {}))
    except TypeError:
        return False
    return True


def hierarchies(n_max: int, n_min: int = 1):
    """Return (specs, skipped): spec = tuple of base-index tuples, one per class."""
    specs, skipped = [], 0
    for n in range(n_min, n_max + 1):
        per_class = [list(_ordered_selections(range(i))) for i in range(n)]
        for combo in itertools.product(*per_class):
            spec = tuple(tuple(b) for b in combo)
            if linearisable(spec):
                specs.append(spec)
            else:
                skipped += 1
    return specs, skipped


def unordered(specs):
    """One representative (first linearisable base order) per inheritance graph."""
    seen, out = set(), []
    for s in specs:
        k = tuple(frozenset(b) for b in s)
        if k not in seen:
            seen.add(k)
            out.append(s)
    return out


def spec_name(spec, flavour: str = "plain") -> str:
    return "h" + "_".join("".join(map(str, b)) or "x" for b in spec) + ("_g" if flavour == "generic" else "")


def closure(spec):
    """anc[i] = set of ancestors of class i (reflexive), from the spec alone."""
    anc = []
    for i, bases in enumerate(spec):
        s = {i}
        for b in bases:
            s |= anc[b]
        anc.append(s)
    return anc


# ------------------------------------------------------------------ module text
def module_source(spec, flavour: str = "plain") -> str:
    """flavour "generic": every root class is ``Generic[T]`` and is inherited from in parametrised form
    (``class C1(C0[int])``), so that ``__orig_bases__`` and ``__bases__`` differ along the hierarchy."""
    n = len(spec)
    out = ['"""Generated hierarchy module (mc.typeworld)."""', "from __future__ import annotations", ""]
    generic = flavour == "generic"
    if generic:
        out += ["from typing import Generic, TypeVar", "", 'T = TypeVar("T")', ""]
    out.append("")
    for i, bases in enumerate(spec):
        me = f"{USER_PREFIX}{i}"
        nxt = f"{USER_PREFIX}{(i + 1) % n}"
        if generic:
            rendered = [f"{USER_PREFIX}{b}[int]" if not spec[b] else f"{USER_PREFIX}{b}" for b in bases]
            head = f"class {me}({', '.join(rendered)}):" if bases else f"class {me}(Generic[T]):"
        else:
            head = f"class {me}({', '.join(f'{USER_PREFIX}{b}' for b in bases)}):" if bases else f"class {me}:"
        out.append(head)
        out.append("    def __init__(self, x: int = 0) -> None:")
        out.append("        self.x = x")
        out.append("")
        for j in range(n):
            if j != i:
                other = f"{USER_PREFIX}{j}"
                out.append(f"    def c{i}_to_c{j}(self) -> {other}:")
                out.append(f"        return {other}()")
                out.append("")
        out.append(f"    def c{i}_list(self) -> list[{nxt}]:")
        out.append(f"        return [{nxt}()]")
        out.append("")
        out.append(f"    def c{i}_dict(self) -> dict[str, {nxt}]:")
        out.append(f"        return {{'k': {nxt}()}}")
        out.append("")
        out.append(f"    def c{i}_tuple(self) -> tuple[{me}, {nxt}]:")
        out.append(f"        return (self, {nxt}())")
        out.append("")
        out.append(f"    def c{i}_union(self) -> {me} | None:" if n == 1 else
                   f"    def c{i}_union(self) -> {me} | {nxt}:")
        out.append("        return self")
        out.append("")
        out.append(f"    def c{i}_none(self) -> None:")
        out.append("        return None")
        out.append("")
        out.append("")
    return "\n".join(out)


def write_module(root: str, pkg: str, spec, flavour: str = "plain") -> str:
    """Write the module for ``spec`` into package ``pkg`` under ``root``; return its dotted name."""
    d = os.path.join(root, pkg)
    os.makedirs(d, exist_ok=True)
    init = os.path.join(d, "__init__.py")
    if not os.path.exists(init):
        with open(init, "w") as fh:
            fh.write("")
    name = spec_name(spec, flavour)
    path = os.path.join(d, name + ".py")
    src = module_source(spec, flavour)
    # never rewrite an identical file: shard processes share the directory the parent filled
    if not (os.path.exists(path) and open(path).read() == src):
        tmp = f"{path}.{os.getpid()}.tmp"
        with open(tmp, "w") as fh:
            fh.write(src)
        os.replace(tmp, path)
    if root not in sys.path:
        sys.path.insert(0, root)
    importlib.invalidate_caches()
    return f"{pkg}.{name}"


# ------------------------------------------------------------------ analysis
def cached_functions():
    """Every functools cache the type system, the providers and the cluster keep (class level)."""
    import pynguin.analyses.generator as gen
    import pynguin.analyses.module as mod
    import pynguin.analyses.typesystem as ts

    out = []
    for cls in (ts.TypeSystem, gen.GeneratorProvider, gen.RandomGeneratorProvider,
                gen.HeuristicGeneratorFitnessFunction, mod.ModuleTestCluster):
        for name, attr in vars(cls).items():
            if hasattr(attr, "cache_clear"):
                out.append((f"{cls.__name__}.{name}", attr))
    return out


def clear_caches() -> None:
    for _, fn in cached_functions():
        fn.cache_clear()


def reset_configuration(selection: str = "RANK_SELECTION") -> None:
    import pynguin.configuration as config

    config.configuration = config.Configuration(
        algorithm=config.Algorithm.RANDOM, project_path="",
        test_case_output=config.TestCaseOutputConfiguration(output_path=""), module_name="")
    config.configuration.generator_selection.generator_selection_algorithm = config.Selection(selection)


def analyse(module_name: str, tower: bool = True, selection: str = "RANK_SELECTION"):
    """Real ``generate_test_cluster`` on a fresh configuration with all caches cleared.

    ``tower=False``: ``TypeSystem.enable_numeric_tower`` (which the analysis always calls) is
    replaced by a no-op for the duration of the analysis, i.e. a type system on which the
    numeric tower was never enabled.
    """
    import pynguin.analyses.typesystem as ts
    from pynguin.analyses.module import generate_test_cluster

    reset_configuration(selection)
    clear_caches()
    orig = ts.TypeSystem.enable_numeric_tower
    if not tower:
        ts.TypeSystem.enable_numeric_tower = lambda self: None
    try:
        return generate_test_cluster(module_name)
    finally:
        ts.TypeSystem.enable_numeric_tower = orig


def user_infos(cluster, module_name: str, n: int):
    infos = [cluster.type_system.find_type_info(f"{module_name}.{USER_PREFIX}{i}") for i in range(n)]
    if any(i is None for i in infos):
        raise AssertionError(f"analysis lost a user class of {module_name}")
    return infos


# ------------------------------------------------------------------ types
def kind(t) -> str:
    """Coarse shape of a proper type (fingerprints)."""
    import pynguin.analyses.typesystem as ts

    if isinstance(t, ts.AnyType):
        return "Any"
    if isinstance(t, ts.NoneType):
        return "None"
    if isinstance(t, ts.TupleType):
        return "tuple"
    if isinstance(t, ts.UnionType):
        return "union"
    if isinstance(t, ts.Instance):
        raw = t.type.raw_type
        if raw in (list, set, dict):
            return raw.__name__
        if t.type.module == "builtins":
            return "object" if raw is object else "prim"
        return "inst"
    return type(t).__name__


def parts(t):
    import pynguin.analyses.typesystem as ts

    if isinstance(t, ts.UnionType):
        return t.items
    if isinstance(t, (ts.TupleType, ts.Instance)):
        return t.args
    return ()


def contains(t, what: str) -> bool:
    """Does ``t`` contain (at any depth, itself included) a type of the given kind?"""
    return kind(t) == what or any(contains(p, what) for p in parts(t))


class Universe:
    """All proper types of depth <= 2 over user classes and builtins, with labels."""

    def __init__(self, type_system, users, *, with_object=True):
        import pynguin.analyses.typesystem as ts

        self.ts = type_system
        self.labels: list[str] = []
        self.types: list = []
        self.index: dict[str, int] = {}
        self.unions: list[tuple[int, tuple[int, ...]]] = []
        self._by_hash: dict[int, list[int]] = {}
        atoms = []
        for i, info in enumerate(users):
            atoms.append((f"{USER_PREFIX}{i}", type_system.make_instance(info)))
        for name in BUILTIN_ATOMS:
            atoms.append((name, type_system.convert_type_hint(getattr(__import__("builtins"), name))))
        if with_object:
            atoms.append(("object", type_system.convert_type_hint(object)))
        atoms.append(("None", ts.NONE_TYPE))
        atoms.append(("Any", ts.ANY))
        self.atoms = atoms
        for lab, t in atoms:
            self._add(lab, t)
        list_i, set_i, dict_i = (type_system.to_type_info(c) for c in (list, set, dict))
        for lab, t in atoms:
            self._add(f"list[{lab}]", ts.Instance(list_i, (t,)))
            self._add(f"set[{lab}]", ts.Instance(set_i, (t,)))
        for (l1, t1), (l2, t2) in itertools.product(atoms, repeat=2):
            self._add(f"dict[{l1},{l2}]", ts.Instance(dict_i, (t1, t2)))
        self._add("tuple[()]", ts.TupleType(()))
        for lab, t in atoms:
            self._add(f"tuple[{lab}]", ts.TupleType((t,)))
        for (l1, t1), (l2, t2) in itertools.product(atoms, repeat=2):
            self._add(f"tuple[{l1},{l2}]", ts.TupleType((t1, t2)))
        for lab, t in atoms:
            i = self._add(f"U[{lab}]", ts.UnionType((t,)))
            self.unions.append((i, (self.index[lab],)))
        for (l1, t1), (l2, t2) in itertools.combinations(atoms, 2):
            a, b = sorted(((t1, l1), (t2, l2)), key=lambda p: str(p[0]))
            i = self._add(f"U[{a[1]}|{b[1]}]", ts.UnionType((a[0], b[0])))
            self.unions.append((i, (self.index[a[1]], self.index[b[1]])))
        # a restricted depth-3 family: unions whose members are tuples / lists over the user classes,
        # int, object, None and Any (a union subtype holding a same-arity tuple member is a distinct
        # path through the distance visitor)
        inner = [(lab, t) for lab, t in atoms
                 if lab.startswith(USER_PREFIX) or lab in ("int", "object", "Any")]
        nested = [(f"tuple[{lab}]", ts.TupleType((t,))) for lab, t in inner]
        for lab, t in nested + [(f"list[{lab}]", ts.Instance(list_i, (t,))) for lab, t in inner[:3]]:
            a, b = sorted(((t, lab), (ts.NONE_TYPE, "None")), key=lambda p: str(p[0]))
            i = self._add(f"U[{a[1]}|{b[1]}]", ts.UnionType((a[0], b[0])))
            self.unions.append((i, (self.index[a[1]], self.index[b[1]])))
        for (l1, t1), (l2, t2) in itertools.combinations(nested, 2):
            a, b = sorted(((t1, l1), (t2, l2)), key=lambda p: str(p[0]))
            i = self._add(f"U[{a[1]}|{b[1]}]", ts.UnionType((a[0], b[0])))
            self.unions.append((i, (self.index[a[1]], self.index[b[1]])))
        # ... and tuples whose element is a union (a union nested in the arguments of a non-union type)
        for (l1, t1), (l2, t2) in itertools.combinations(inner[:5], 2):
            a, b = sorted(((t1, l1), (t2, l2)), key=lambda p: str(p[0]))
            self._add(f"tuple[U[{a[1]}|{b[1]}]]", ts.TupleType((ts.UnionType((a[0], b[0])),)))

    def _add(self, label, t) -> int:
        # ``list`` is list[Any] after _fixup_known_generics: keep the first label of equal types
        for j in self._by_hash.get(hash(t), ()):
            if self.types[j] == t:
                self.index[label] = j
                return j
        j = len(self.types)
        self.types.append(t)
        self.labels.append(label)
        self.index[label] = j
        self._by_hash.setdefault(hash(t), []).append(j)
        return j

    def get(self, label):
        return self.types[self.index[label]]

    def __len__(self):
        return len(self.types)


def type_from_label(type_system, users, label: str):
    """Build the proper type a ``Universe`` label denotes (without building the universe)."""
    import builtins

    import pynguin.analyses.typesystem as ts

    def atom(name):
        if name == "None":
            return ts.NONE_TYPE
        if name == "Any":
            return ts.ANY
        if name.startswith(USER_PREFIX) and name[len(USER_PREFIX):].isdigit():
            return type_system.make_instance(users[int(name[len(USER_PREFIX):])])
        return type_system.convert_type_hint(getattr(builtins, name))

    if "[" not in label:
        return atom(label)
    head, inner = label[:-1].split("[", 1)
    if head == "tuple":
        if inner == "()":
            return ts.TupleType(())
        if inner.startswith("U["):
            return ts.TupleType((type_from_label(type_system, users, inner),))
        return ts.TupleType(tuple(atom(a) for a in inner.split(",")))
    if head == "U":
        items = [type_from_label(type_system, users, a) for a in inner.split("|")]
        return ts.UnionType(tuple(sorted(items, key=str)))
    cls = {"list": list, "set": set, "dict": dict}[head]
    return ts.Instance(type_system.to_type_info(cls), tuple(atom(a) for a in inner.split(",")))
