"""Known findings: committed list, read-only at run time.

``known_findings.json``::

    {"findings": [
      {"id": "C34-negative-index", "property": "C34", "status": "known" | "fixed",
       "fingerprints": ["C34|getitem|index<0|IndexError"],   # exact or fnmatch patterns
       "commit": "<sha, for fixed>", "what": "..."}]}

Only ``status == "known"`` entries suppress anything; ``fixed`` entries are a
record and suppress nothing, so a regression is reported as a VIOLATION again.
"""

from __future__ import annotations

import fnmatch
import hashlib
import json
import os


def load(home: str) -> list[dict]:
    path = os.path.join(home, "known_findings.json")
    if not os.path.exists(path):
        return []
    with open(path) as fh:
        return json.load(fh).get("findings", [])


def match(known: list[dict], prop_id: str, fingerprint: str):
    for e in known:
        if e.get("property") != prop_id or e.get("status") != "known":
            continue
        for pat in e.get("fingerprints", []):
            if pat == fingerprint or fnmatch.fnmatchcase(fingerprint, pat):
                return e
    return None


def write_replay(home: str, prop_id: str, v: dict, transient: bool) -> str:
    # VERIF_REPLAYS: where replay files go (tools/try_seed.sh points it at a scratch directory so that runs
    # against seeded changes do not litter /verif/replays)
    d = os.path.join(os.environ.get("VERIF_REPLAYS") or os.path.join(home, "replays"), prop_id)
    os.makedirs(d, exist_ok=True)
    name = hashlib.sha1(v["fingerprint"].encode()).hexdigest()[:12] + ".json"
    path = os.path.join(d, name)
    rec = {"property": prop_id, "fingerprint": v["fingerprint"], "what": v["what"],
           "cases_with_this_fingerprint": v.get("n", 1), "data": v["data"],
           "replay_cmd": f"./check {prop_id} --replay replays/{prop_id}/{name}"}
    try:
        with open(path, "w") as fh:
            json.dump(rec, fh, indent=1, sort_keys=True, default=repr)
            fh.write("\n")
    except OSError:
        pass
    return path
