"""Evidence writer. Every number comes from the run's collectors."""

from __future__ import annotations

import json
import os
import shutil
import subprocess

SCHEMA = "/root/.vp/EVIDENCE.schema.json"


class EvidenceError(Exception):
    pass


def _jsonable(o):
    try:
        json.dumps(o)
        return o
    except TypeError:
        if isinstance(o, dict):
            return {str(k): _jsonable(v) for k, v in o.items()}
        if isinstance(o, (list, tuple, set, frozenset)):
            return [_jsonable(x) for x in o]
        return repr(o)


def _self_check(doc: dict) -> None:
    cov = doc["coverage"]
    lvl = doc["level"]
    if not cov.get("samples"):
        raise EvidenceError("no samples recorded")
    if lvl in ("exploration", "fault_enumeration"):
        if cov.get("evaluations", 0) < 1 or cov.get("distinct_nontrivial", 0) < 2 or not cov.get("rule"):
            raise EvidenceError(f"exploration evidence needs evaluations/distinct_nontrivial/rule: "
                                f"{ {k: cov.get(k) for k in ('evaluations', 'distinct_nontrivial')} }")
    if lvl == "model_checking":
        if cov.get("states", 0) < 1 or cov.get("transitions", 0) < 1 \
                or "traces_validated_against_impl" not in cov:
            raise EvidenceError("model_checking evidence needs states/transitions/traces_validated")


def write(home, prop_id, tier, seed, level, ctx, wall, unlisted, known_ids) -> str:
    cov = _jsonable(ctx.coverage())
    cov["known_findings_reproduced"] = known_ids
    cov["workers"] = ctx.workers
    doc = {"property_id": prop_id, "tier": tier, "seed": seed, "level": level,
           "coverage": cov, "assumptions": list(ctx.col.assumptions),
           "wall_s": round(wall, 2), "violations": unlisted}
    _self_check(doc)
    d = os.path.join(home, "evidence")
    os.makedirs(d, exist_ok=True)
    path = os.path.join(d, f"{prop_id}.json")
    tmp = path + ".tmp"
    with open(tmp, "w") as fh:
        json.dump(doc, fh, indent=1, sort_keys=True)
        fh.write("\n")
    os.replace(tmp, path)
    vt = shutil.which("python3-vt")
    if vt and os.path.exists(SCHEMA) and os.environ.get("VERIF_SKIP_SCHEMA") != "1":
        code = ("import json,sys,jsonschema;"
                "jsonschema.validate(json.load(open(sys.argv[1])),json.load(open(sys.argv[2])))")
        r = subprocess.run([vt, "-c", code, path, SCHEMA], capture_output=True, text=True,
                           env={k: v for k, v in os.environ.items() if k != "PYTHONPATH"})
        if r.returncode != 0:
            raise EvidenceError(r.stderr.strip().splitlines()[-1] if r.stderr.strip() else "schema")
    return path
