"""Entry point of every check: ``./check <ID> [--tier quick|thorough] [--replay FILE]``.

Exit status: 0 = property held on everything explored (known findings are
printed as ``KNOWN-FINDING:`` lines), 1 = at least one violation that
``known_findings.json`` does not list (``VIOLATION property=<id> replay=<path>``),
2 = harness error (never to be read as a verdict about the repository).
"""

from __future__ import annotations

import argparse
import importlib
import json
import os
import pkgutil
import sys
import time
import traceback

from mc import evidence, findings
from mc.ctx import Ctx, HarnessError

HOME = os.environ.get("VERIF_HOME", os.path.dirname(os.path.dirname(os.path.abspath(__file__))))


def find_module(prop_id: str):
    import props

    want = prop_id.lower()
    for m in pkgutil.iter_modules(props.__path__):
        if m.name.split("_")[0] == want:
            return importlib.import_module(f"props.{m.name}")
    raise SystemExit(f"no harness for {prop_id}")


def main(argv=None) -> int:
    ap = argparse.ArgumentParser()
    ap.add_argument("prop")
    ap.add_argument("--tier", default=os.environ.get("VERIF_TIER", "quick"))
    ap.add_argument("--replay", default=None)
    ap.add_argument("--workers", type=int, default=int(os.environ.get("VERIF_WORKERS", "0")))
    ap.add_argument("--no-evidence", action="store_true")
    args = ap.parse_args(argv)
    tier = args.tier if args.tier in ("quick", "thorough") else "quick"
    try:
        seed = int(os.environ.get("VERIF_SEED", "0"))
    except ValueError:
        seed = 0
    prop_id = args.prop.upper()
    mod = find_module(prop_id)
    workers = args.workers or min(16, os.cpu_count() or 4)
    ctx = Ctx(prop_id, tier, seed, workers)
    t0 = time.time()
    try:
        if args.replay:
            with open(args.replay) as fh:
                rec = json.load(fh)
            mod.replay(ctx, rec["data"])
        else:
            mod.run(ctx)
    except HarnessError as exc:
        print(f"HARNESS-ERROR property={prop_id} {exc}", flush=True)
        return 2
    except Exception:  # noqa: BLE001
        traceback.print_exc()
        print(f"HARNESS-ERROR property={prop_id} uncaught exception in harness", flush=True)
        return 2
    finally:
        ctx.cleanup()
    wall = time.time() - t0

    known = findings.load(HOME)
    unlisted = 0
    printed_known = set()
    for v in ctx.col.violations.values():
        entry = findings.match(known, prop_id, v["fingerprint"])
        path = findings.write_replay(HOME, prop_id, v, transient=entry is None)
        if entry is not None:
            if entry["id"] not in printed_known:
                printed_known.add(entry["id"])
                print(f"KNOWN-FINDING: property={prop_id} {entry['id']}: {entry['what']}"
                      f" [e.g. {v['fingerprint']}]", flush=True)
        else:
            unlisted += 1
            print(f"VIOLATION property={prop_id} replay={path}", flush=True)
            print(f"  fingerprint: {v['fingerprint']}\n  what: {v['what']}", flush=True)
    if args.replay:
        print(f"replay: {len(ctx.col.violations)} violation(s) reproduced", flush=True)
        return 1 if unlisted else 0
    if not args.no_evidence:
        level = getattr(mod, "LEVEL", "exploration")
        try:
            evidence.write(HOME, prop_id, tier, seed, level, ctx, wall, unlisted,
                           sorted(printed_known))
        except evidence.EvidenceError as exc:
            print(f"HARNESS-ERROR property={prop_id} evidence invalid: {exc}", flush=True)
            return 2
    cov = ctx.coverage()
    brief = {k: cov[k] for k in ("states", "transitions", "evaluations", "distinct_nontrivial",
                                 "traces_validated_against_impl", "exhaustive") if k in cov}
    print(f"{prop_id} tier={tier} seed={seed} wall={wall:.1f}s {brief} "
          f"known={len(printed_known)} unlisted={unlisted}", flush=True)
    return 1 if unlisted else 0


if __name__ == "__main__":
    sys.exit(main())
