"""Run a grid of ``mc.runpyn`` cells, each in a fresh interpreter, 16 at a time."""

from __future__ import annotations

import concurrent.futures
import json
import os
import subprocess


def run_cell(spec, hashseed="0", timeout=600):
    env = dict(os.environ)
    env["PYTHONHASHSEED"] = str(hashseed)
    env["PYNGUIN_DANGER_AWARE"] = "1"
    home = os.environ.get("VERIF_HOME", os.path.dirname(os.path.dirname(os.path.abspath(__file__))))
    repo = os.environ.get("VERIF_REPO", "/repo")
    env["PYTHONPATH"] = f"{home}:{repo}/src"
    try:
        r = subprocess.run(["/venv/bin/python", "-m", "mc.runpyn", json.dumps(spec)], cwd=home, env=env,
                           capture_output=True, text=True, timeout=timeout)
    except subprocess.TimeoutExpired:
        return {"rc": "HUNG", "error": f"no result within {timeout}s", "boundaries": [], "test_file": None,
                "executions": 0, "statements": 0, "draws": 0, "draw_hash": "", "first_draws": []}
    if "@@RESULT@@" not in r.stdout:
        return {"rc": "CRASHED", "error": (r.stderr or r.stdout)[-800:], "boundaries": [], "test_file": None,
                "executions": 0, "statements": 0, "draws": 0, "draw_hash": "", "first_draws": []}
    return json.loads(r.stdout.split("@@RESULT@@")[1])


def run_grid(cells, workers=16, timeout=600):
    """cells: list of (key, spec, hashseed). Returns {key: result} (deterministic order)."""
    out = {}
    with concurrent.futures.ThreadPoolExecutor(max_workers=workers) as pool:
        futs = {pool.submit(run_cell, spec, hs, timeout): key for key, spec, hs in cells}
        for f in concurrent.futures.as_completed(futs):
            out[futs[f]] = f.result()
    return {k: out[k] for k, _, _ in cells}
