"""One in-process pynguin run in a fresh interpreter (used by the C16 / C17 grids).

``python -m mc.runpyn '<json spec>'`` prints one JSON line with the result.
Spec: {module (corpus name), algorithm, seed, stopping: {field: value}, assertions,
       observe_iterations: bool, record_rng: bool, extra: {"a__b": v}}
Observation needs no source hooks: ``GenerationAlgorithm.after_search_iteration /
before_first_search_iteration`` and ``TestCaseExecutor.execute`` are wrapped from
here, and the RNG is replaced by a pass-through recorder.
"""

from __future__ import annotations

import hashlib
import json
import os
import shutil
import sys
import tempfile
import time


def main(spec):
    import logging
    logging.disable(logging.CRITICAL)
    import pynguin.configuration as config
    import pynguin.generator as gen
    import pynguin.ga.algorithms.generationalgorithm as galg
    import pynguin.testcase.execution as ex
    import pynguin.utils.randomness as randomness

    here = os.path.dirname(os.path.dirname(os.path.abspath(__file__)))
    work = tempfile.mkdtemp(prefix="runpyn_", dir="/dev/shm" if os.path.isdir("/dev/shm") else None)
    try:
        module_name = spec["module"]
        if spec.get("package"):
            # the module under test inside a package with sibling modules that hold constants (static
            # constant seeding scans the package)
            pkg = os.path.join(work, "shop")
            os.makedirs(pkg)
            open(os.path.join(pkg, "__init__.py"), "w").close()
            shutil.copy(os.path.join(here, "corpus", spec["module"] + ".py"), pkg)
            with open(os.path.join(pkg, "labels.py"), "w") as fh:
                fh.write('SALE = "sale"\nNEW = "new-arrival"\nCODES = ("A1", "B22", "C333")\nLIMIT = 19\n')
            with open(os.path.join(pkg, "pricing.py"), "w") as fh:
                fh.write('CURRENCY = "EUR"\nRATES = {"std": 0.19, "low": 0.07}\nSTEP = 2\nNAME = "price list"\n')
            module_name = "shop." + spec["module"]
        else:
            shutil.copy(os.path.join(here, "corpus", spec["module"] + ".py"), work)
        out = os.path.join(work, "out")
        os.makedirs(out)
        cfg = config.Configuration(
            algorithm=config.Algorithm[spec["algorithm"]],
            project_path=work, module_name=module_name,
            test_case_output=config.TestCaseOutputConfiguration(output_path=out))
        cfg.seeding.seed = spec.get("seed", 0)
        cfg.use_master_worker = False
        cfg.statistics_output.report_dir = os.path.join(work, "report")
        cfg.statistics_output.statistics_backend = config.StatisticsBackend.NONE
        cfg.test_case_output.assertion_generation = config.AssertionGenerator[spec.get("assertions", "NONE")]
        cfg.stopping.maximum_search_time = -1
        # wall-clock budgets must never bind: the grids compare runs on a (possibly loaded) machine
        cfg.stopping.maximum_test_execution_timeout = 120
        cfg.stopping.test_execution_time_per_statement = 60
        cfg.local_search.local_search_time = 10 ** 9
        import pynguin.testcase.export as _export
        _export._STATEMENT_EXECUTION_TIMEOUT = 600.0  # noqa: SLF001  (hard-coded 5 s watchdog)
        for k, v in spec.get("stopping", {}).items():
            setattr(cfg.stopping, k, v)
        if spec["algorithm"] == "DYNAMOSA":
            cfg.statistics_output.coverage_metrics = [config.CoverageMetric.BRANCH]
        for k, v in spec.get("extra", {}).items():
            obj = cfg
            parts = k.split("__")
            for p in parts[:-1]:
                obj = getattr(obj, p)
            setattr(obj, parts[-1], v)

        log = {"boundaries": [], "executions": 0, "statements": 0, "draws": 0}
        h = hashlib.sha256()
        first_draws = []

        if spec.get("observe_iterations", True):
            orig_exec = ex.TestCaseExecutor.execute

            def counting_execute(self, test_case):
                log["executions"] += 1
                r = orig_exec(self, test_case)
                # statements actually executed: all, or up to and including the first raising one
                if r.exceptions:
                    log["statements"] += min(r.exceptions) + 1
                elif not r.timeout:
                    log["statements"] += test_case.size()
                return r

            ex.TestCaseExecutor.execute = counting_execute
            orig_after = galg.GenerationAlgorithm.after_search_iteration
            orig_first = galg.GenerationAlgorithm.before_first_search_iteration

            def snap(kind, alg):
                log["boundaries"].append({
                    "kind": kind, "executions": log["executions"], "statements": log["statements"],
                    "conditions": {type(c).__name__: [c.current_value(), c.limit(), bool(c.is_fulfilled())]
                                   for c in alg.stopping_conditions}})

            def after(self, best):
                r = orig_after(self, best)
                snap("iteration-end", self)
                return r

            def first(self, initial):
                r = orig_first(self, initial)
                snap("first", self)
                return r

            galg.GenerationAlgorithm.after_search_iteration = after
            galg.GenerationAlgorithm.before_first_search_iteration = first

        if spec.get("record_rng", False):
            import random

            class Rec(randomness.Random):
                pass

            def wrap(name):
                base = getattr(random.Random, name)

                def f(self, *a, **k):
                    r = base(self, *a, **k)
                    if not getattr(self, "_nested", False):
                        log["draws"] += 1
                        try:
                            item = f"{name}:{r!r}"[:120]
                        except Exception:  # noqa: BLE001
                            item = f"{name}:?"
                        h.update(item.encode("utf-8", "replace"))
                        if len(first_draws) < 4000:
                            first_draws.append(item)
                        lo, hi = spec.get("stack_window", (0, -1))
                        if lo <= log["draws"] <= hi:
                            import traceback
                            first_draws.append("STACK@%d " % log["draws"] + " < ".join(
                                f"{f.name}:{f.lineno}" for f in reversed(traceback.extract_stack(limit=14)[:-1])))
                    return r
                return f

            # only leaf draws are logged: high-level methods call random()/getrandbits() internally,
            # so logging random/getrandbits/randbelow results is complete and unambiguous
            for name in ("random", "getrandbits"):
                setattr(Rec, name, wrap(name))
            rec = Rec()
            randomness.RNG = rec
            try:
                import pynguin.analyses.string_subtypes as ss
                if hasattr(ss, "RNG"):
                    ss.RNG = rec
            except Exception:  # noqa: BLE001
                pass

        stages = []
        if spec.get("debug_stages"):
            def wrap_stage(name):
                orig = getattr(gen, name)

                def f(result, *a, **k):
                    def codes():
                        return [c.test_case.to_code() for c in result.test_case_chromosomes]
                    before = codes()
                    r = orig(result, *a, **k)
                    stages.append({"stage": name, "before": before, "after": codes()})
                    return r
                setattr(gen, name, f)
            for nm in ("_minimize", "_export_chromosome"):
                wrap_stage(nm)
            orig_ga = gen._generate_assertions

            def ga(executor, result, cluster):
                stages.append({"stage": "search-result",
                               "after": [c.test_case.to_code() for c in result.test_case_chromosomes],
                               "failing": [c.is_failing() for c in result.test_case_chromosomes]})
                return orig_ga(executor, result, cluster)
            gen._generate_assertions = ga

        gen.set_configuration(cfg)
        t0 = time.time()
        try:
            rc = gen.run_pynguin()
            rc_name, err = rc.name, None
        except BaseException as exc:  # noqa: BLE001
            rc_name, err = "RAISED", f"{type(exc).__name__}: {exc}"
        wall = time.time() - t0
        test_file = os.path.join(out, f"test_{module_name.replace('.', '_')}.py")
        content = None
        if os.path.exists(test_file):
            with open(test_file, encoding="utf-8") as fh:
                content = fh.read()
        return {"rc": rc_name, "error": err, "wall": round(wall, 2), "test_file": content,
                "boundaries": log["boundaries"], "executions": log["executions"],
                "statements": log["statements"], "draws": log["draws"], "draw_hash": h.hexdigest(),
                "first_draws": first_draws, "stages": stages}
    finally:
        shutil.rmtree(work, ignore_errors=True)


if __name__ == "__main__":
    res = main(json.loads(sys.argv[1]))
    sys.stdout.write("\n@@RESULT@@" + json.dumps(res) + "\n")
