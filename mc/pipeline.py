"""The back half of the real pipeline on enumerated test cases (C18/C19/C22/C24/C31/C35).

``Pipe`` loads a corpus module (real import hook, real cluster/factory via
``tcenum.World``), enumerates a population of test cases with the ChoiceRNG seam,
and offers the *real* post-search stages exactly as ``generator._run`` chains
them: assertion generation (``_generate_assertions``), statement minimisation
(``_minimize``), export (``_export_chromosome`` -> ``TestSuiteWriter.write``).
"""

from __future__ import annotations

import os
from pathlib import Path

from mc import tcenum


class _AlgoStub:
    """What ``generator._minimize`` needs from the algorithm object."""

    def __init__(self, coverage_functions):
        self.test_suite_coverage_functions = coverage_functions


class Pipe:
    def __init__(self, module: str, scratch: str, coverage=("BRANCH", "LINE"), config_over=None):
        import pynguin.configuration as config

        self.module = module
        self.scratch = scratch
        self.world = tcenum.World(module, scratch, coverage=coverage, config_over=config_over)
        # populations of the pipeline family: every index of a choice among <= 12 alternatives is a menu
        # item (with the default of 6 a module with 7+ callables had callables no enumerated test calls)
        self.world.index_full_upto = 12
        self.sut = self.world.sut
        self.out_dir = os.path.join(scratch, f"out_{module}")
        os.makedirs(self.out_dir, exist_ok=True)
        c = config.configuration
        c.test_case_output.output_path = self.out_dir
        c.test_case_output.format_with_black = False
        c.statistics_output.coverage_metrics = [getattr(config.CoverageMetric, m) for m in coverage]
        # wall-clock limits must never bind (the machine may be loaded): results would flake
        c.stopping.maximum_test_execution_timeout = 120
        c.stopping.test_execution_time_per_statement = 60
        import pynguin.testcase.export as _export
        _export._STATEMENT_EXECUTION_TIMEOUT = 600.0  # noqa: SLF001
        self.executor = self.sut.executor(maximum_test_execution_timeout=120,
                                          test_execution_time_per_statement=60)

    def close(self):
        self.world.close()

    # ------------------------------------------------------------------ population
    def population(self, bound=1, script=(("insert",), ("insert",)), limit=None, max_size=8):
        found, stats = tcenum.enumerate_testcases(self.world, list(script), bound)
        tests = [t for (t, _) in found.values() if 1 <= t.size() <= max_size]
        tests.sort(key=lambda t: (t.size(), t.to_code()))
        if limit is not None:
            tests = tests[:limit]
        return tests, stats

    def population_sequences(self, depth=3, bound=0):
        """Every sequence of <= depth accessibles, each appended by the real factory (``append`` op): the
        call-sequence enumeration for small stateful APIs (neutral choices for arguments, <= bound deviations)."""
        import itertools

        n = len(self.world.accessibles)
        out = {}
        for k in range(1, depth + 1):
            for idx in itertools.product(range(n), repeat=k):
                found, _ = tcenum.enumerate_testcases(self.world, [("append", i) for i in idx], bound)
                for t, _c in found.values():
                    out.setdefault(t.to_code(), t)
        tests = sorted(out.values(), key=lambda t: (t.size(), t.to_code()))
        return tests

    # ------------------------------------------------------------------ chromosomes
    def coverage_functions(self):
        import pynguin.ga.computations as ff
        from pynguin.utils.orderedset import OrderedSet

        return OrderedSet([ff.TestSuiteBranchCoverageFunction(self.executor),
                           ff.TestSuiteLineCoverageFunction(self.executor)])

    def suite(self, test_cases):
        import pynguin.ga.testsuitechromosome as tsc

        s = tsc.TestSuiteChromosome()
        for t in test_cases:
            s.add_test_case_chromosome(self.world.chromosome(t.clone()))
        return s

    # ------------------------------------------------------------------ stages
    def generate_assertions(self, suite, mode="SIMPLE"):
        import pynguin.configuration as config
        import pynguin.generator as gen

        config.configuration.test_case_output.assertion_generation = config.AssertionGenerator[mode]
        gen._generate_assertions(self.executor, suite, self.world.cluster)  # noqa: SLF001

    def minimize(self, suite, strategy="CASE", direction="BACKWARD", funcs=None):
        import pynguin.configuration as config
        import pynguin.generator as gen

        m = config.configuration.test_case_output.minimization
        m.test_case_minimization_strategy = config.MinimizationStrategy[strategy]
        m.test_case_minimization_direction = config.MinimizationDirection[direction]
        config.configuration.test_case_output.post_process = True
        gen._minimize(suite, _AlgoStub(funcs if funcs is not None else self.coverage_functions()))  # noqa: SLF001

    def export(self, suite, name=None, seed_fixture=False, no_xfail=False):
        """Write through the real ``_export_chromosome``; returns the file's path and text."""
        import pynguin.configuration as config
        import pynguin.generator as gen

        out = os.path.join(self.out_dir, name) if name else self.out_dir
        os.makedirs(out, exist_ok=True)
        config.configuration.test_case_output.output_path = out
        config.configuration.test_case_output.no_xfail = no_xfail
        gen._export_chromosome(suite, sut_uses_random=seed_fixture,  # noqa: SLF001
                               subject_properties=self.sut.props)
        path = Path(out) / f"test_{self.sut.name}.py"
        return str(path), path.read_text(encoding="utf-8")


def assertion_snapshot(suite):
    """[(test index, statement code, [rendered assertion code, ...]), ...] for non-empty ones."""
    import libcst as cst
    from pynguin.assertion.assertion_to_ast import assertion_to_cst

    snap = []
    for ti, chrom in enumerate(suite.test_case_chromosomes):
        for si, st in enumerate(chrom.test_case.statements()):
            if st.assertions:
                rendered = []
                for a in st.assertions:
                    try:
                        rendered.append(cst.Module(body=[assertion_to_cst(a)]).code.strip())
                    except Exception as exc:  # noqa: BLE001
                        rendered.append(f"<unrenderable {type(a).__name__}: {type(exc).__name__}>")
                snap.append((ti, si, cst.Module(body=[st.node]).code.strip(), st.bound_variable, rendered))
    return snap
