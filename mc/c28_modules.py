"""C28 module corpus: small-scope generated modules and a fixed stdlib list.

Generated corpus
----------------
A module is a prelude (a decorator ``deco`` if a ``deco`` slot follows, a base
class ``Base`` with attributes ``x``/``y`` and a method ``m`` if a ``method`` slot
follows; the prelude itself has no mutation points) followed by one or two
*function slots*.  A slot is one of

* ``plain``  – ``def f<i>(a, b, c): <body>``
* ``deco``   – the same with ``@deco``
* ``method`` – ``class K<i>(Base)`` with two hiding class attributes and a method
  ``m`` overriding ``Base.m`` (so the inheritance operators have something to do)

and its body is a combination (menu order, no repetition) of statements from
``MENU``.  The total number of menu statements in a module is bounded by ``n``
(2 quick / 3 thorough).  The menu was written from the operator sources under
``pynguin/assertion/mutation_analysis/operators`` so that every visitor of every
operator has at least one matching node; the harness asserts that (vacuity
guard).  Function bodies are never executed — only ``def``/``class`` statements
run when a (mutant) module is created — so the statements only need to be
syntactically valid.

Stdlib corpus
-------------
``STDLIB`` names pure-Python standard-library modules whose source is parsed
(static only; they are imported once so that the inheritance operators can
resolve classes, mutants are never executed).
"""

from __future__ import annotations

import itertools

PRELUDE_DECO = '''\
def deco(f):
    return f
'''

PRELUDE_BASE = '''\
class Base:
    x = None
    y = None

    def m(self, a, b=None, *c, d=None, **e):
        pass
'''

# name -> statement source (body level of a function with locals a, b, c)
MENU: list[tuple[str, str]] = [
    ("doc", '"""doc"""'),
    ("arith1", "a = -b + c - 1"),
    ("arith2", "a = +b * c / 2.5"),
    ("arith3", "a = b // c % 3 ** a"),
    ("aug", "a += b"),
    ("aug2", "a //= 2"),
    ("not", "a = not b"),
    ("in", "a = b in c or b not in a"),
    ("bool", "a = True"),
    ("bit", "a = ~b & c | a ^ b"),
    ("shift", "a = b << 2 >> c"),
    ("and", "a = b and c"),
    ("cmp1", "a = b < c <= a"),
    ("cmp2", "a = b > c >= a"),
    ("cmp3", "a = b == c != a"),
    ("is", "a = b is c is not None"),
    ("ret", "return a + 1"),
    ("retnone", "return None"),
    ("slice", "a = b[1:c:2]"),
    ("slice2", "a = b[:c]"),
    ("str", 'a = "s"'),
    ("strs", 'a = ("", "mutpy")'),
    ("fstr", 'a = f"x{b}{c:{a}}"'),
    ("num", "a = (0, 1, 2)"),
    ("bigfloat", "a = 1e308"),
    ("raise1", 'raise ValueError("msg")'),
    ("raise2", "raise RuntimeError"),
    ("print", 'print("x", f"{a}")'),
    ("lambda", "a = lambda: b"),
    ("unpack", "a, b = b, a"),
    ("if", "if a:\n    b = 1\nelif b:\n    b = 2\nelse:\n    b = 3"),
    ("while", "while a:\n    if b:\n        break\n    continue"),
    ("for", "for a in b:\n    if c:\n        continue\n    break\nelse:\n    c = 0"),
    ("try", "try:\n    a = b()\nexcept ValueError:\n    a = 1\n    b = 2\n"
            "except (TypeError, KeyError) as e:\n    raise\nexcept Exception:\n    pass\n"
            "finally:\n    c = 0"),
    ("match", "match a:\n    case 1:\n        b = 1\n    case [x, y]:\n        b = 2\n"
              "    case _:\n        b = 3"),
    ("super", "super().m(a)"),
    ("nested", "def g(a):\n    return -a"),
    # child lists that hold None before a node (arguments.kw_defaults, Dict.keys): list positions
    # and node positions differ there
    ("kwonly", "def h(*, scale, offset=1):\n    return scale + offset"),
    ("dictspread", 'a = {**b, "retries": 3, **c, 1: 2}'),
    # two mutation sites of ONE operator nested in a single-node field (not in a list): the outer site is
    # replaced first, the inner sites are enumerated afterwards from the same generator
    ("notnotin", "return not (a not in b)"),
    ("negpos", "a = -(+b)"),
    ("lam2", "a = lambda: (lambda: 1)"),
    ("slice3", "a = b[c[1:]:3]"),
]
MENU_NAMES = [n for n, _ in MENU]
_SRC = dict(MENU)

KINDS = ("plain", "deco", "method")

# kind pairs used for two-function modules
KIND_PAIRS_QUICK = (("plain", "plain"), ("deco", "method"))
KIND_PAIRS_THOROUGH = (("plain", "plain"), ("deco", "method"), ("method", "plain"), ("method", "method"))


def _indent(src: str, by: int) -> str:
    pad = " " * by
    return "\n".join(pad + line if line else line for line in src.split("\n"))


def render_slot(i: int, kind: str, body: tuple[str, ...]) -> str:
    stmts = "\n".join(_SRC[n] for n in body)
    if kind == "plain":
        return f"def f{i}(a, b, c):\n{_indent(stmts, 4)}\n"
    if kind == "deco":
        return f"@deco\ndef f{i}(a, b, c):\n{_indent(stmts, 4)}\n"
    if kind == "method":
        return (f"class K{i}(Base):\n    x = None\n    x, z = None, None\n\n"
                f"    def m(self, a, b=None, *c, d=None, **e):\n{_indent(stmts, 8)}\n")
    raise AssertionError(kind)


def render(spec) -> str:
    """spec = [[kind, [menu names...]], ...] (JSON-able)."""
    kinds = {k for k, _ in spec}
    parts = []
    if "deco" in kinds:
        parts.append(PRELUDE_DECO)
    if "method" in kinds:
        parts.append(PRELUDE_BASE)
    for i, (kind, body) in enumerate(spec):
        parts.append(render_slot(i, kind, tuple(body)))
    return "\n\n".join(parts)


def bodies(k: int):
    """All menu combinations of exactly k statements (menu order, no repetition)."""
    return itertools.combinations(MENU_NAMES, k)


def enumerate_specs(n: int, kind_pairs=None):
    """Every module spec with at most ``n`` menu statements in total.

    One-function modules: every kind x every combination of 1..n statements.
    Two-function modules: every listed kind pair x every split n1 + n2 <= n
    (n1, n2 >= 1) x every pair of combinations; for an identical kind pair only
    one of the two symmetric orders is kept.
    """
    if kind_pairs is None:
        kind_pairs = KIND_PAIRS_QUICK if n <= 2 else KIND_PAIRS_THOROUGH
    for kind in KINDS:
        for k in range(1, n + 1):
            for body in bodies(k):
                yield [[kind, list(body)]]
    for k1, k2 in kind_pairs:
        for n1 in range(1, n):
            for n2 in range(1, n - n1 + 1):
                for b1 in bodies(n1):
                    for b2 in bodies(n2):
                        if k1 == k2 and n1 == n2 and b2 < b1:
                            continue
                        yield [[k1, list(b1)], [k2, list(b2)]]


def spec_id(spec) -> str:
    return ";".join(f"{k}:{'+'.join(b)}" for k, b in spec)


STDLIB = [
    "bisect", "heapq", "textwrap", "fnmatch", "shlex", "colorsys", "keyword", "string",
    "reprlib", "glob", "posixpath", "stat", "copy", "operator", "abc", "numbers", "quopri",
    "getopt", "sched", "queue", "graphlib", "linecache", "token", "json.encoder",
    "json.decoder", "json.scanner", "csv", "cmd", "contextlib",
]
# quick tier: the per-step oracle (plain + reorder) runs on all of STDLIB, the other legs on the
# cheaper modules below; the thorough tier runs everything on all of STDLIB
STDLIB_QUICK = ["keyword", "bisect", "abc", "sched", "token", "json.scanner", "stat", "linecache",
                "numbers", "graphlib", "queue", "colorsys", "getopt", "glob", "fnmatch", "copy"]
# where the quick tier affords the O(mutants^2) sweeps (every cap answer, every k on the full list)
STDLIB_SMALL = ["bisect", "keyword", "abc", "sched", "graphlib", "numbers"]


def stdlib_source(name: str):
    import importlib
    import inspect

    mod = importlib.import_module(name)
    return mod, inspect.getsource(mod)
