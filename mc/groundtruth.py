"""groundtruth -- what the interpreter really did, and what pynguin reported (shared by C02 / C03).

Two halves that never look at each other's data:

*Plain side* (``Plain``): the program source is compiled under a different file name, no import
hook, no pynguin code involved.  ``Plain.run_import()`` executes the module body, ``Plain.run_call``
one call ``f(a, b)``; both under ``sys.monitoring`` (a free tool id, local events restricted to the
module's own code objects): ``LINE`` events -> executed lines, ``BRANCH`` events -> taken jumps,
``PY_START`` -> entered code objects.  ``Plain.run_call_settrace`` is a second, independent line
oracle: ``sys.settrace`` with ``f_trace_opcodes`` records every executed instruction offset, the
executed lines are the lines of those instructions (``dis`` position table).  Code objects are
identified by ``(co_qualname, co_firstlineno)`` ("key"), which is what links the plain code objects
to pynguin's registered (instrumented) ones.

``jumps_of(code)`` lists the conditional jumps (``POP_JUMP_IF_*``, ``FOR_ITER``) of a code object
from ``dis`` in offset order with their fall-through / target offsets and a static reachability
flag; ``outcome_of(jump, dst)`` turns one BRANCH event into the outcome of the *tested condition*
(independent of pynguin's ``get_branch_type``):

    POP_JUMP_IF_TRUE / IF_NONE / IF_NOT_NONE   jump taken      <=> condition true
    POP_JUMP_IF_FALSE                          jump taken      <=> condition false
    FOR_ITER                                   fall through    <=> body entered (true);
                                               any other destination (it is *past* END_FOR) = exhausted (false)

*Pynguin side* (``Reported``): the same source loaded through the real import hook under the real
tracer (``mc.pyn.Sut``), calls executed as ``var_0 = <alias>.f(a, b)`` by the real
``TestCaseExecutor``; ``Reported`` only translates registries and traces into key-based sets.
"""

from __future__ import annotations

import dis
import sys
import types

COND_JUMPS = ("POP_JUMP_IF_TRUE", "POP_JUMP_IF_FALSE", "POP_JUMP_IF_NONE", "POP_JUMP_IF_NOT_NONE", "FOR_ITER")
TAKEN_MEANS_TRUE = {"POP_JUMP_IF_TRUE": True, "POP_JUMP_IF_NONE": True, "POP_JUMP_IF_NOT_NONE": True,
                    "POP_JUMP_IF_FALSE": False}
# instructions that never start a line for the interpreter (CPython instrumentation.c) ...
NO_LINE_OPS = ("RESUME", "END_FOR", "END_SEND", "CACHE", "EXTENDED_ARG")
_LEAVING = ("RETURN_VALUE", "RETURN_CONST", "RAISE_VARARGS", "RERAISE", "JUMP_FORWARD", "JUMP_BACKWARD",
            "JUMP_BACKWARD_NO_INTERRUPT", "INTERPRETER_EXIT")


class GroundTruthError(Exception):
    """The oracle itself is inconsistent (always a harness error, never a violation)."""


def key_of(code) -> tuple:
    return (code.co_qualname, code.co_firstlineno)


def code_objects(code):
    yield code
    for c in code.co_consts:
        if isinstance(c, types.CodeType):
            yield from code_objects(c)


# ------------------------------------------------------------------------------- static (dis) facts
def instructions(code):
    """[(offset, opname, line, argval)] without CACHE entries."""
    return [(i.offset, i.opname, i.positions.lineno if i.positions else None, i.argval)
            for i in dis.get_instructions(code, show_caches=False)]


def _tested_by(code):
    """{offset of a conditional jump: what produced the tested value} e.g. ``COMPARE_OP<``, ``CONTAINS_OP``,
    ``IS_OP``, ``CHECK_EXC_MATCH``, ``value`` (anything else: truthiness of a value)."""
    out = {}
    prev = None
    for i in dis.get_instructions(code, show_caches=False):
        if i.opname in COND_JUMPS:
            if i.opname == "FOR_ITER":
                out[i.offset] = "iterator"
            elif i.opname in ("POP_JUMP_IF_NONE", "POP_JUMP_IF_NOT_NONE"):
                out[i.offset] = "none-test"
            elif prev is not None and prev.opname == "COMPARE_OP":
                out[i.offset] = "COMPARE_OP" + str(prev.argrepr)
            elif prev is not None and prev.opname == "CONTAINS_OP":
                out[i.offset] = "CONTAINS_OP" + ("-not" if prev.arg else "")
            elif prev is not None and prev.opname == "IS_OP":
                out[i.offset] = "IS_OP" + ("-not" if prev.arg else "")
            elif prev is not None and prev.opname == "CHECK_EXC_MATCH":
                out[i.offset] = "CHECK_EXC_MATCH"
            else:
                out[i.offset] = "value"
        prev = i
    return out


def line_ops(code):
    """{line: [opname, ...]} in offset order (instructions without a line are left out)."""
    out: dict = {}
    for _off, op, line, _arg in instructions(code):
        if line is not None:
            out.setdefault(line, []).append(op)
    return out


def _reachable_offsets(code, ins):
    """Static reachability over the instruction list (fall-through, jump targets, exception handlers)."""
    offs = [o for o, _op, _l, _a in ins]
    index = {o: n for n, o in enumerate(offs)}
    try:
        table = list(dis._parse_exception_table(code))  # noqa: SLF001
    except Exception:  # noqa: BLE001
        table = []
    seen: set = set()
    todo = [0]
    while todo:
        n = todo.pop()
        if n in seen or n >= len(ins):
            continue
        seen.add(n)
        off, op, _line, arg = ins[n]
        for e in table:
            if e.start <= off < e.end and e.target in index:
                todo.append(index[e.target])
        opc = dis.opmap.get(op)
        if opc in dis.hasjrel or opc in dis.hasjabs:
            if arg in index:
                todo.append(index[arg])
        if op == "FOR_ITER" and arg in index:
            todo.append(index[arg] + 1)          # the interpreter skips END_FOR
        if op not in _LEAVING:
            todo.append(n + 1)
    return {offs[n] for n in seen}


def jumps_of(code):
    """Conditional jumps of one code object, offset order:
    [{"offset", "op", "line", "fall", "target", "reachable", "rank", "tests"}]."""
    ins = instructions(code)
    reach = _reachable_offsets(code, ins)
    tested = _tested_by(code)
    out = []
    for n, (off, op, line, arg) in enumerate(ins):
        if op in COND_JUMPS:
            fall = ins[n + 1][0] if n + 1 < len(ins) else None
            out.append({"offset": off, "op": op, "line": line, "fall": fall, "target": arg,
                        "reachable": off in reach, "rank": len(out), "tests": tested.get(off, "value")})
        elif op in ("SEND",) or (op.startswith(("POP_JUMP", "JUMP_IF")) and op not in COND_JUMPS):
            raise GroundTruthError(f"conditional jump {op} outside the oracle's table in {code.co_qualname}")
    return out


def outcome_of(jump, dst) -> bool:
    """Outcome of the tested condition for one BRANCH event (see module docstring)."""
    fell = dst == jump["fall"]
    if jump["op"] == "FOR_ITER":
        return fell
    taken_true = TAKEN_MEANS_TRUE[jump["op"]]
    return (not fell) if taken_true else fell


def true_means_jump(op) -> bool:
    """Does the condition being true make the interpreter leave the fall-through path?"""
    return False if op == "FOR_ITER" else TAKEN_MEANS_TRUE[op]


# ------------------------------------------------------------------------------- plain side
class Events:
    __slots__ = ("lines", "branches", "entered", "offsets", "raised")

    def __init__(self):
        self.lines: set = set()          # {(key, line)}
        self.branches: dict = {}         # {(key, src, dst): count}
        self.entered: set = set()        # {key}
        self.offsets: set = set()        # {(key, offset)}   (settrace oracle only)
        self.raised = None               # exception type name of the call, or None

    def merged(self, other):
        e = Events()
        e.lines = self.lines | other.lines
        e.entered = self.entered | other.entered
        e.offsets = self.offsets | other.offsets
        e.branches = dict(self.branches)
        for k, v in other.branches.items():
            e.branches[k] = e.branches.get(k, 0) + v
        return e


class _Monitor:
    """One claimed sys.monitoring tool id per process; local events switched on per run."""

    def __init__(self):
        self.tool = None
        self.current: Events | None = None
        self.keys: dict = {}

    def claim(self):
        if self.tool is not None:
            return
        mon = sys.monitoring
        for tid in (3, 4, 5, 2):
            if mon.get_tool(tid) is None:
                mon.use_tool_id(tid, "verif-groundtruth")
                self.tool = tid
                break
        else:
            raise GroundTruthError("no free sys.monitoring tool id")
        E = mon.events
        mon.register_callback(self.tool, E.LINE, self._line)
        mon.register_callback(self.tool, E.BRANCH, self._branch)
        mon.register_callback(self.tool, E.PY_START, self._start)

    def _line(self, code, line):
        self.current.lines.add((self.keys[code], line))

    def _branch(self, code, src, dst):
        k = (self.keys[code], src, dst)
        b = self.current.branches
        b[k] = b.get(k, 0) + 1

    def _start(self, code, _offset):
        self.current.entered.add(self.keys[code])

    def run(self, codes, thunk) -> Events:
        self.claim()
        mon = sys.monitoring
        E = mon.events
        ev = Events()
        self.current = ev
        self.keys = {c: key_of(c) for c in codes}
        for c in codes:
            mon.set_local_events(self.tool, c, E.LINE | E.BRANCH | E.PY_START)
        try:
            try:
                thunk()
            except Exception as exc:  # noqa: BLE001  (the SUT's own exception: part of the behaviour)
                ev.raised = type(exc).__name__
        finally:
            for c in codes:
                mon.set_local_events(self.tool, c, 0)
            self.current = None
        return ev


_MONITOR = _Monitor()
_WARM = []


def _warm_up_opcode_tracing():
    if _WARM:
        return

    def dummy():
        return 1

    def tracer(frame, _event, _arg):
        frame.f_trace_opcodes = True
        return tracer

    sys.settrace(tracer)
    try:
        dummy()
        dummy()
    finally:
        sys.settrace(None)
    _WARM.append(True)


class Plain:
    """The uninstrumented program: compiled under its own file name, run without any pynguin code."""

    def __init__(self, source: str, name: str):
        self.source = source
        self.filename = f"<plain:{name}>"
        self.code = compile(source, self.filename, "exec")
        self.codes = list(code_objects(self.code))
        self.by_key = {}
        for c in self.codes:
            k = key_of(c)
            if k in self.by_key:
                raise GroundTruthError(f"code object key {k} is not unique in {name}")
            self.by_key[k] = c
        self.jumps = {key_of(c): jumps_of(c) for c in self.codes}
        self.jump_at = {(k, j["offset"]): j for k, js in self.jumps.items() for j in js}
        self.lineops = {key_of(c): line_ops(c) for c in self.codes}
        self.instr_at = {(key_of(c), off): (op, line) for c in self.codes
                         for off, op, line, _a in instructions(c)}
        self.ns: dict | None = None

    # -- runs
    def run_import(self) -> Events:
        self.ns = {"__name__": "plain_module", "__builtins__": __builtins__}
        ns = self.ns
        return _MONITOR.run(self.codes, lambda: exec(self.code, ns))  # noqa: S102

    def run_call(self, args, func="f") -> Events:
        fn = self.ns[func]
        return _MONITOR.run(self.codes, lambda: fn(*args))

    def run_call_settrace(self, args_factory, func="f") -> Events:
        """Second oracle: every executed instruction offset (sys.settrace + f_trace_opcodes).

        ``args_factory()`` builds fresh arguments.  Opcode tracing is switched on process-wide by the
        first frame that asks for it and only reaches code that is entered afterwards, hence the
        warm-up and the retry when an entered code object shows no instruction at all."""
        _warm_up_opcode_tracing()
        ev = self._settrace_once(args_factory(), func)
        if any(k not in {kk for kk, _o in ev.offsets} for k in ev.entered):
            ev = self._settrace_once(args_factory(), func)
        missing = [k for k in ev.entered if k not in {kk for kk, _o in ev.offsets}]
        if missing:
            raise GroundTruthError(f"settrace oracle saw no instruction in entered code objects {missing}")
        return ev

    def _settrace_once(self, args, func) -> Events:
        fn = self.ns[func]
        ev = Events()
        keys = {c: key_of(c) for c in self.codes}

        def tracer(frame, event, _arg):
            k = keys.get(frame.f_code)
            if k is None:
                return None
            frame.f_trace_opcodes = True
            if event == "opcode":
                ev.offsets.add((k, frame.f_lasti))
            elif event == "call":
                ev.entered.add(k)
            return tracer

        sys.settrace(tracer)
        try:
            try:
                fn(*args)
            except Exception as exc:  # noqa: BLE001
                ev.raised = type(exc).__name__
        finally:
            sys.settrace(None)
        # lines of the executed instructions that can start a line
        for (k, off) in ev.offsets:
            op, line = self.instr_at[(k, off)]
            if line is not None and op not in NO_LINE_OPS:
                ev.lines.add((k, line))
        return ev

    # -- derived
    def outcomes(self, ev: Events):
        """{(key, jump rank): {True, False} observed}; raises if a BRANCH event has an unknown source."""
        out: dict = {}
        for (k, src, dst), _n in ev.branches.items():
            j = self.jump_at.get((k, src))
            if j is None:
                op = self.instr_at.get((k, src), ("?", None))[0]
                raise GroundTruthError(f"BRANCH event from {op} at {k}@{src}: not a conditional jump of the table")
            out.setdefault((k, j["rank"]), set()).add(outcome_of(j, dst))
        return out

    def first_op(self, key, line):
        ops = [o for o in self.lineops.get(key, {}).get(line, ()) if o not in ("CACHE", "EXTENDED_ARG")]
        return ops[0] if ops else "no-instruction"


# ------------------------------------------------------------------------------- pynguin side
class Reported:
    """Key-based view of a loaded ``mc.pyn.Sut`` (registries) and of execution traces."""

    def __init__(self, sut):
        self.sut = sut
        sp = sut.props
        self.sp = sp
        self.key_of_cid = {cid: key_of(md.code_object) for cid, md in sp.existing_code_objects.items()}
        self.cid_of_key = {}
        for cid, k in self.key_of_cid.items():
            if k in self.cid_of_key:
                raise GroundTruthError(f"pynguin registered two code objects with key {k}")
            self.cid_of_key[k] = cid
        # coverable (key, line) pairs and their ids
        self.line_id = {}
        self.foreign = []
        for lid, meta in sp.existing_lines.items():
            k = self.key_of_cid.get(meta.code_object_id, ("<unregistered code object>", meta.code_object_id))
            self.line_id[(k, meta.line_number)] = lid
            if meta.file_name != sut.path:
                self.foreign.append((lid, meta.file_name, meta.line_number))
        self.pair_of_id = {lid: pair for pair, lid in self.line_id.items()}
        # predicates per code object in node-index order
        self.preds: dict = {}
        for pid, meta in sp.existing_predicates.items():
            k = self.key_of_cid.get(meta.code_object_id)
            self.preds.setdefault(k, []).append((meta.node.index, pid, meta))
        for lst in self.preds.values():
            lst.sort(key=lambda t: t[0])

    def coverable(self):
        return set(self.line_id)

    def covered_pairs(self, trace):
        return {self.pair_of_id[lid] for lid in trace.covered_line_ids}

    def predicate_last_op(self, meta):
        last = None
        for ins in meta.node.original_instructions:
            last = ins
        return last.name if last is not None else "empty-block"

    def true_edge_is_jump(self, key, meta):
        """Where does the CFG edge labelled True leave the predicate's node: True = to the jump target,
        False = to the fall-through block, None = cannot tell (both edges reach the same node / no labels)."""
        md = self.sp.existing_code_objects[meta.code_object_id]
        g = md.cfg.graph
        succ = {}
        for _u, v, attr in g.out_edges(meta.node, data=True):
            bv = attr.get("branch_value")
            if bv is not None:
                succ[bv] = getattr(v, "index", None)
        if set(succ) != {True, False} or succ[True] == succ[False]:
            return None
        fall = meta.node.index + 1
        if succ[True] == fall:
            return False
        if succ[False] == fall:
            return True
        return None


# ------------------------------------------------------------------------------- shared driver
class Case:
    """One program prepared for comparison: plain ground truth for the import and for every input."""

    def __init__(self, name, source, meta, second_oracle=False):
        from mc import progen

        self.name, self.source, self.meta = name, source, meta
        self.plain = Plain(source, name)
        self.imp = self.plain.run_import()
        self.inputs = []                                    # [(a_src, b_src, Events)]
        self.oracle_disagreements = []
        for a_src, b_src in progen.input_menu_src(meta):
            ev = self.plain.run_call((eval(a_src), eval(b_src)))  # noqa: S307
            if second_oracle:
                ev2 = self.plain.run_call_settrace(lambda a=a_src, b=b_src: (eval(a), eval(b)))  # noqa: S307
                if ev.lines != ev2.lines or ev.raised != ev2.raised or ev.entered != ev2.entered:
                    self.oracle_disagreements.append(
                        (a_src, b_src, sorted(ev.lines - ev2.lines), sorted(ev2.lines - ev.lines)))
            self.inputs.append((a_src, b_src, ev))


def metrics_tag(metrics):
    return "+".join(metrics)


def drive(col, case: Case, metric_sets, scratch, visitor, id_prefix):
    """Load ``case`` through the real import hook once per metric set and execute every input through the
    real TestCaseExecutor.  ``visitor.loaded(case, rep, metrics)`` is called after the import (the import
    trace is available as ``rep.sut.tracer.import_trace``), ``visitor.call(case, rep, metrics, idx, result)``
    after every executed call.  Returns nothing; everything is recorded through ``col``."""
    from mc import pyn

    unsafe_checked = any(op == "LOAD_FAST_AND_CLEAR" for _k, (op, _l) in case.plain.instr_at.items())
    for metrics in metric_sets:
        tag = metrics_tag(metrics)
        if "CHECKED" in metrics and unsafe_checked:
            # The checked-coverage instrumentation reads the comprehension variable with LOAD_FAST after
            # it was restored to "unbound": the interpreter dereferences NULL and the process dies
            # (a C01 matter, reported there).  A dead worker cannot report anything, so these are skipped.
            col.count("skipped_checked_on_inlined_comprehension")
            continue
        pyn.reset_config()
        import pynguin.configuration as config
        config.configuration.statistics_output.coverage_metrics = [getattr(config.CoverageMetric, m) for m in metrics]
        modname = f"{case.name}_{'_'.join(m.lower() for m in metrics)}"
        sut = pyn.Sut(case.source, scratch, name=modname, coverage=metrics)
        try:
            sut.__enter__()
        except Exception as exc:  # noqa: BLE001
            sut.__exit__(None, None, None)
            # "instrumenting never raises" is C01's subject; here the case is only counted (and bounded by
            # the harnesses' guards so that it can never silently empty the exploration)
            col.count("instrumentation_failures")
            col.count(f"instrumentation_failures[{tag}|{type(exc).__name__}]")
            col.note(f"instrumentation_failure_example[{tag}|{type(exc).__name__}]", f"{case.name}: {exc!r}"[:200])
            continue
        try:
            rep = Reported(sut)
            visitor.loaded(col, case, rep, metrics)
            executor = sut.executor(maximum_test_execution_timeout=120, test_execution_time_per_statement=120)
            alias = sut.name + "_"
            for idx, (a_src, b_src, ev) in enumerate(case.inputs):
                stmt = f"var_0 = {alias}.f({a_src}, {b_src})"
                result = executor.execute(pyn.test_case(stmt))
                if result.timeout:
                    result = executor.execute(pyn.test_case(stmt))
                if result.timeout:
                    raise GroundTruthError(f"{case.name} f({a_src}, {b_src}) timed out twice under {tag}")
                col.count("evaluations")
                col.count("traces_validated_against_impl")
                raised = None
                if result.has_test_exceptions():
                    raised = type(next(iter(result.exceptions.values()))).__name__
                if raised != ev.raised:
                    col.count("behaviour_differs")
                    col.note("behaviour_differs_example",
                             f"{case.name} f({a_src}, {b_src}) [{tag}]: plain {ev.raised}, instrumented {raised}")
                    visitor.behaviour_differs(col, case, rep, metrics, idx, ev.raised, raised)
                    continue
                visitor.call(col, case, rep, metrics, idx, result)
        finally:
            sut.__exit__(None, None, None)
            try:
                import os
                os.unlink(sut.path)
            except OSError:
                pass


def _meta_data(meta):
    return {"constructs": list(meta.get("constructs", ())), "size": meta.get("size"), "kind": meta.get("kind")}


def case_data(case, metrics, idx=None):
    d = {"name": case.name, "source": case.source, "meta": _meta_data(case.meta), "metrics": list(metrics)}
    if idx is not None:
        d["args"] = [case.inputs[idx][0], case.inputs[idx][1]]
    return d


def case_rank(case, idx=0):
    return (case.meta.get("size") or 99) * 100 + idx
