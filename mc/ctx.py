"""Run context: counters, samples, distinct-case sets and violations.

A ``Collector`` is plain picklable data so that shard workers (fresh
processes, see ``mc.par``) can fill one and hand it back to be merged.
"""

from __future__ import annotations

import hashlib
import os
import shutil
import tempfile


class HarnessError(Exception):
    """The harness itself is broken (divergent replay, vacuous run, bad oracle)."""


def h64(obj) -> int:
    return int.from_bytes(hashlib.blake2b(repr(obj).encode("utf-8", "replace"),
                                          digest_size=8).digest(), "big")


class Collector:
    MAX_SAMPLES = 6

    def __init__(self):
        self.counters: dict[str, int] = {}
        self.sets: dict[str, set] = {}
        self.samples: list = []
        self.notes: dict = {}
        self.assumptions: list[str] = []
        self.violations: dict[str, dict] = {}
        self._nsample = 0

    # -- counters -----------------------------------------------------------
    def count(self, key: str, n: int = 1) -> None:
        self.counters[key] = self.counters.get(key, 0) + n

    def distinct(self, key: str, item) -> bool:
        """Add ``item`` to the named set; True if it was new."""
        s = self.sets.setdefault(key, set())
        k = item if isinstance(item, (int, str)) else h64(item)
        if k in s:
            return False
        s.add(k)
        return True

    def sample(self, obj, every: int = 1) -> None:
        self._nsample += 1
        if len(self.samples) < self.MAX_SAMPLES and (self._nsample - 1) % every == 0:
            self.samples.append(obj)

    def note(self, key: str, value) -> None:
        self.notes[key] = value

    def assume(self, text: str) -> None:
        if text not in self.assumptions:
            self.assumptions.append(text)

    def violation(self, fingerprint: str, what: str, data, rank=None) -> None:
        """Record a violation; per fingerprint the lowest-rank (else first) case is kept."""
        self.count("violating_cases")
        old = self.violations.get(fingerprint)
        if old is None or (rank is not None and old.get("rank") is not None and rank < old["rank"]):
            self.violations[fingerprint] = {"fingerprint": fingerprint, "what": what,
                                            "data": data, "rank": rank,
                                            "n": (old["n"] if old else 0)}
        self.violations[fingerprint]["n"] += 1

    def merge(self, other: "Collector") -> None:
        for k, v in other.counters.items():
            self.counters[k] = self.counters.get(k, 0) + v
        for k, s in other.sets.items():
            self.sets.setdefault(k, set()).update(s)
        for smp in other.samples:
            if len(self.samples) < self.MAX_SAMPLES:
                self.samples.append(smp)
        for k, v in other.notes.items():
            if isinstance(v, (int, float)) and isinstance(self.notes.get(k), (int, float)):
                self.notes[k] = max(self.notes[k], v)
            elif isinstance(v, list) and isinstance(self.notes.get(k), list):
                self.notes[k] = sorted(set(map(str, self.notes[k])) | set(map(str, v)))
            else:
                self.notes.setdefault(k, v)
        for a in other.assumptions:
            self.assume(a)
        for fp, v in other.violations.items():
            old = self.violations.get(fp)
            if old is None:
                self.violations[fp] = dict(v)
            else:
                n = old["n"] + v["n"]
                if v.get("rank") is not None and old.get("rank") is not None and v["rank"] < old["rank"]:
                    self.violations[fp] = dict(v)
                self.violations[fp]["n"] = n


class Ctx:
    def __init__(self, prop_id: str, tier: str, seed: int, workers: int):
        self.prop_id = prop_id
        self.tier = tier
        self.seed = seed
        self.workers = workers
        self.col = Collector()
        self.exhaustive: bool | None = None
        self.rule = ""
        self._scratch: list[str] = []
        self.level_keys: dict = {}

    quick = property(lambda self: self.tier == "quick")
    thorough = property(lambda self: self.tier == "thorough")

    # delegate
    def count(self, *a, **k): return self.col.count(*a, **k)
    def distinct(self, *a, **k): return self.col.distinct(*a, **k)
    def sample(self, *a, **k): return self.col.sample(*a, **k)
    def note(self, *a, **k): return self.col.note(*a, **k)
    def assume(self, *a, **k): return self.col.assume(*a, **k)
    def violation(self, *a, **k): return self.col.violation(*a, **k)
    def merge(self, other): return self.col.merge(other)

    def scratch(self, prefix="verif_") -> str:
        base = "/dev/shm" if os.path.isdir("/dev/shm") and os.access("/dev/shm", os.W_OK) else None
        d = tempfile.mkdtemp(prefix=prefix, dir=base)
        self._scratch.append(d)
        return d

    def cleanup(self) -> None:
        for d in self._scratch:
            shutil.rmtree(d, ignore_errors=True)
        self._scratch.clear()

    def require(self, cond: bool, msg: str) -> None:
        """Vacuity / self-consistency guard: failing it is a harness error, not a verdict."""
        if not cond:
            raise HarnessError(msg)

    def coverage(self) -> dict:
        c = self.col
        cov: dict = {}
        cnt = c.counters
        if "states" in c.sets:
            cov["states"] = len(c.sets["states"])
        elif "states" in cnt:
            cov["states"] = cnt["states"]
        if "transitions" in cnt:
            cov["transitions"] = cnt["transitions"]
        if "traces_validated_against_impl" in cnt:
            cov["traces_validated_against_impl"] = cnt["traces_validated_against_impl"]
        if "evaluations" in cnt:
            cov["evaluations"] = cnt["evaluations"]
        if "nontrivial" in c.sets:
            cov["distinct_nontrivial"] = len(c.sets["nontrivial"])
        cov["rule"] = self.rule
        cov["samples"] = c.samples
        if self.exhaustive is not None:
            cov["exhaustive"] = bool(self.exhaustive)
        extra = {k: v for k, v in cnt.items()
                 if k not in ("states", "transitions", "traces_validated_against_impl", "evaluations")}
        if extra:
            cov["counters"] = dict(sorted(extra.items()))
        sets = {f"distinct_{k}": len(v) for k, v in c.sets.items() if k not in ("states", "nontrivial")}
        if sets:
            cov["distinct_sets"] = dict(sorted(sets.items()))
        if c.notes:
            cov["notes"] = c.notes
        cov.update(self.level_keys)
        return cov
