"""The RNG seam: every draw pynguin makes becomes an explorer-owned choice point.

``pynguin.utils.randomness.RNG`` (dereferenced at call time by all helpers) and
the by-name binding in ``pynguin.analyses.string_subtypes`` are replaced by a
``ChoiceRNG`` whose high-level methods ask a ``mc.explore.Chooser``. Index 0 of
every menu is the *neutral* answer (coin flips with p <= 0.5 fail, first
candidate is chosen, shuffles are the identity), so "0 deviations" is the quiet
execution and each deviation is exactly one environment event.

Menus are data (``MENUS`` below) and evidence files record them; all claims made
with this seam are "for all answer sequences over these menus with <= d
deviations".
"""

from __future__ import annotations

import contextlib
import dataclasses
import math
import random

from mc.ctx import HarnessError

EPS = 2.0 ** -40
FRACTIONS = (0.51, 0.0, 1.0 - 2.0 ** -53, 0.125, 0.25, 0.375, 0.625, 0.75, 0.875)
GAUSS = (0.0, 0.5, -0.5, 3.0, -3.0)
BITS8 = (0x00, 0x41, 0xFF)
MENUS = {
    "uniform(0,1)": "0.51 (neutral: coins with p <= 0.5 fail, p > 0.51 succeed), 0.0 (every coin "
                    "succeeds), 1-2^-53 (every coin fails), 0.25, 0.75 (multi-way splits); a harness "
                    "may add configured thresholds p (p itself and a midpoint below) via thresholds=",
    "uniform(a,b)": f"a + f*(b-a) for f in {FRACTIONS}",
    "choice/randrange(n)": "every index if n <= 6 else {0, 1, n//2, n-1}",
    "gauss(mu,sigma)": f"mu + sigma*g for g in {GAUSS}",
    "getrandbits(8)": f"{BITS8}",
    "shuffle": "identity, reversal, rotate-left-by-1",
    "sample(k)": "first k, last k",
    "choices(k)": "per element: like choice over entries with positive weight",
}


def config_thresholds() -> tuple[float, ...]:
    """All distinct float settings in (0,1) of the live configuration (coin-flip thresholds)."""
    import pynguin.configuration as config

    found: set[float] = set()

    def walk(obj, depth=0):
        if depth > 4 or not dataclasses.is_dataclass(obj):
            return
        for f in dataclasses.fields(obj):
            v = getattr(obj, f.name, None)
            if isinstance(v, float) and 0.0 < v < 1.0:
                found.add(v)
            elif dataclasses.is_dataclass(v):
                walk(v, depth + 1)

    walk(config.configuration)
    return tuple(sorted(found))


def unit_menu(thresholds) -> tuple[float, ...]:
    menu = [0.51, 0.0, 1.0 - 2.0 ** -53, 0.25, 0.75]
    prev = 0.0
    for t in sorted(set(thresholds)):
        for v in (t, (prev + t) / 2.0):
            if v not in menu:
                menu.append(v)
        prev = t
    return tuple(menu)


def index_menu(n: int, full_upto: int = 6) -> tuple[int, ...]:
    if n <= full_upto:
        return tuple(range(n))
    return tuple(dict.fromkeys((0, 1, n // 2, n - 1)))


class ChoiceRNG(random.Random):
    """A random.Random whose every high-level draw is answered by a Chooser."""

    def __init__(self, chooser, thresholds=None, unit=None, index_full_upto=6):
        super().__init__(0)
        self._ch = chooser
        self._full_upto = index_full_upto
        self._unit = tuple(unit) if unit is not None else unit_menu(
            thresholds if thresholds is not None else ())
        self.draws = 0

    # --- bookkeeping pynguin expects from its Random subclass
    def seed(self, a=None, version=2):  # noqa: D102
        self._current_seed = 0 if a is None else a

    def get_seed(self):
        return getattr(self, "_current_seed", 0)

    def getstate(self):
        raise HarnessError("ChoiceRNG.getstate(): use a pass-through RNG for this driver")

    def setstate(self, state):
        raise HarnessError("ChoiceRNG.setstate(): use a pass-through RNG for this driver")

    def _pick(self, kind, menu):
        self.draws += 1
        return menu[self._ch.choose(kind, len(menu))]

    # --- floats
    def random(self):
        return self._pick("uniform(0,1)", self._unit)

    def uniform(self, a, b):
        if a == 0 and b == 1:
            return self._pick("uniform(0,1)", self._unit)
        f = self._pick("uniform(a,b)", FRACTIONS)
        v = a + f * (b - a)
        if b > a and v >= b:
            v = math.nextafter(b, a)
        return v

    def gauss(self, mu=0.0, sigma=1.0):
        return mu + sigma * self._pick("gauss", GAUSS)

    normalvariate = gauss

    # --- ints / sequences
    def _index(self, what, n):
        if n <= 0:
            raise ValueError(f"empty range for {what}")
        menu = index_menu(n, self._full_upto)
        return self._pick(f"{what}/{n if n <= self._full_upto else 'big'}", menu)

    def randrange(self, start, stop=None, step=1):
        if stop is None:
            start, stop = 0, start
        n = len(range(start, stop, step))
        if n <= 0:
            raise ValueError(f"empty range in randrange({start}, {stop}, {step})")
        return start + step * self._index("randrange", n)

    def randint(self, a, b):
        return self.randrange(a, b + 1)

    def choice(self, seq):
        if not len(seq):
            raise IndexError("Cannot choose from an empty sequence")
        return seq[self._index("choice", len(seq))]

    def getrandbits(self, k):
        if k == 8:
            return self._pick("getrandbits(8)", BITS8)
        return self._pick(f"getrandbits({k})", (0, 1, (1 << k) - 1))

    def randbytes(self, n):
        return bytes(self.getrandbits(8) for _ in range(n))

    def shuffle(self, x):
        n = len(x)
        if n < 2:
            return
        c = self._pick("shuffle", (0, 1, 2) if n > 2 else (0, 1))
        if c == 1:
            x.reverse()
        elif c == 2:
            x.append(x.pop(0))

    def sample(self, population, k, *, counts=None):
        pop = list(population)
        if k > len(pop) or k < 0:
            raise ValueError("Sample larger than population or is negative")
        if k == len(pop) or k == 0:
            return pop[:k]
        c = self._pick("sample", (0, 1))
        return pop[:k] if c == 0 else pop[len(pop) - k:]

    def choices(self, population, weights=None, *, cum_weights=None, k=1):
        pop = list(population)
        if cum_weights is not None and weights is None:
            weights = [cum_weights[0]] + [cum_weights[i] - cum_weights[i - 1]
                                           for i in range(1, len(cum_weights))]
        idx = [i for i in range(len(pop)) if weights is None or weights[i] > 0]
        if not idx:
            raise ValueError("Total of weights must be greater than zero")
        return [pop[idx[self._index("choices", len(idx))]] for _ in range(k)]

    # anything else would reach the Mersenne Twister un-owned: fail loudly
    def _unowned(self, *a, **k):
        raise HarnessError("un-owned random draw (method not covered by ChoiceRNG)")

    triangular = betavariate = expovariate = gammavariate = lognormvariate = _unowned
    vonmisesvariate = paretovariate = weibullvariate = binomialvariate = _unowned


class RecordingRNG(random.Random):
    """Pass-through RNG (seeded Mersenne Twister) that logs every high-level draw."""

    def __init__(self, seed=0):
        super().__init__(seed)
        self._current_seed = seed
        self.log: list = []

    def seed(self, a=None, version=2):
        self._current_seed = 0 if a is None else a
        super().seed(self._current_seed, version)

    def get_seed(self):
        return self._current_seed


@contextlib.contextmanager
def installed(rng):
    """Bind ``rng`` to every place pynguin keeps a reference to its RNG."""
    import pynguin.utils.randomness as randomness

    saved = [(randomness, "RNG", randomness.RNG)]
    try:
        import pynguin.analyses.string_subtypes as ss
        if hasattr(ss, "RNG"):
            saved.append((ss, "RNG", ss.RNG))
    except Exception:  # noqa: BLE001
        pass
    try:
        for mod, name, _ in saved:
            setattr(mod, name, rng)
        yield rng
    finally:
        for mod, name, old in saved:
            setattr(mod, name, old)
