"""Helpers to drive the real pynguin from a harness process.

Nothing here changes /repo: configuration is reset, SUT modules are written to
a scratch directory, loaded through the real import hook under the real tracer
(exactly the sequence ``generator._setup_and_check`` performs) and torn down
again.
"""

from __future__ import annotations

import contextlib
import importlib
import itertools
import os
import sys
import textwrap

_counter = itertools.count()


def reset_config(module_name: str = "", project_path: str = "", algorithm=None, **kw):
    """Fresh process-global configuration (what the tests' autouse fixture does)."""
    import pynguin.configuration as config

    config.configuration = config.Configuration(
        algorithm=algorithm or config.Algorithm.RANDOM,
        project_path=project_path,
        test_case_output=config.TestCaseOutputConfiguration(output_path=kw.pop("output_path", "")),
        module_name=module_name,
    )
    c = config.configuration
    c.test_creation.none_weight = 0
    c.test_creation.any_weight = 0
    c.test_creation.use_random_object_for_call = 0.0
    for k, v in kw.items():
        obj = c
        parts = k.split("__")
        for p in parts[:-1]:
            obj = getattr(obj, p)
        setattr(obj, parts[-1], v)
    return c


def clear_caches() -> None:
    """Clear functools caches that survive between executions in one process."""
    import functools
    import gc

    try:
        import pynguin.analyses.typesystem as ts
        for name in dir(ts.TypeSystem):
            f = getattr(ts.TypeSystem, name, None)
            if hasattr(f, "cache_clear"):
                f.cache_clear()
    except Exception:  # noqa: BLE001
        pass
    for mod in list(sys.modules.values()):
        if mod is None or not getattr(mod, "__name__", "").startswith("pynguin"):
            continue
        for v in list(vars(mod).values()):
            if isinstance(v, functools._lru_cache_wrapper):  # noqa: SLF001
                v.cache_clear()
    gc.collect()


def metrics(*names):
    import pynguin.configuration as config
    return {getattr(config.CoverageMetric, n) for n in names}


class Sut:
    """A source text loaded as an instrumented module through the real import hook."""

    def __init__(self, source: str, scratch: str, name: str | None = None,
                 coverage=("BRANCH", "LINE"), to_cover=None, extra_files=None,
                 dynamic_constant_provider=None, instrument=True):
        self.source = textwrap.dedent(source)
        self.scratch = scratch
        self.name = name or f"sut_{os.getpid()}_{next(_counter)}"
        self.coverage = coverage
        self.to_cover = to_cover
        self.extra_files = extra_files or {}
        self.dcp = dynamic_constant_provider
        self.instrument = instrument
        self.module = None
        self.props = None
        self._hook = None

    @property
    def path(self):
        return os.path.join(self.scratch, self.name + ".py")

    def __enter__(self):
        import pynguin.configuration as config
        from pynguin.instrumentation.machinery import install_import_hook
        from pynguin.instrumentation.tracer import SubjectProperties

        os.makedirs(self.scratch, exist_ok=True)
        with open(self.path, "w") as fh:
            fh.write(self.source)
        for fn, src in self.extra_files.items():
            with open(os.path.join(self.scratch, fn), "w") as fh:
                fh.write(textwrap.dedent(src))
        if self.scratch not in sys.path:
            sys.path.insert(0, self.scratch)
            self._added_path = True
        else:
            self._added_path = False
        importlib.invalidate_caches()
        config.configuration.module_name = self.name
        config.configuration.project_path = self.scratch
        self.props = SubjectProperties()
        if self.instrument:
            self._hook = install_import_hook(
                self.name, self.props, coverage_metrics=metrics(*self.coverage),
                to_cover_config=self.to_cover, dynamic_constant_provider=self.dcp)
        with self.props.instrumentation_tracer:
            sys.modules.pop(self.name, None)
            self.module = importlib.import_module(self.name)
        return self

    def __exit__(self, *exc):
        if self._hook is not None:
            self._hook.uninstall()
        sys.modules.pop(self.name, None)
        for fn in self.extra_files:
            sys.modules.pop(fn[:-3], None)
        if self._added_path:
            with contextlib.suppress(ValueError):
                sys.path.remove(self.scratch)
        return False

    @property
    def tracer(self):
        return self.props.instrumentation_tracer

    def executor(self, **kw):
        from pynguin.testcase.execution import TestCaseExecutor
        return TestCaseExecutor(self.props, **kw)

    def cluster(self):
        import pynguin.configuration as config
        from pynguin.analyses.module import generate_test_cluster

        with self.tracer.temporarily_disable():
            return generate_test_cluster(
                self.name, config.configuration.type_inference.type_inference_strategy)


def stmt(code: str, bound_variable=None, bound_type=None):
    import libcst as cst
    import pynguin.testcase.testcase as tc

    node = cst.parse_module(code if code.endswith("\n") else code + "\n").body[0]
    return tc.Statement(node=node, bound_variable=bound_variable, bound_type=bound_type)


def test_case(*lines):
    """Build a TestCase from source lines ``var_0 = ...`` (bound variable inferred)."""
    import re
    import pynguin.testcase.testcase as tc

    t = tc.TestCase()
    for line in lines:
        m = re.match(r"^(\w+)\s*=[^=]", line)
        t.add_statement(stmt(line, bound_variable=m.group(1) if m else None))
    return t
