"""Enumerate every test case the real TestFactory can build (DESIGN 4.3).

A ``World`` loads one corpus module through the real import hook, builds the
real test cluster and TestFactory once per process, and runs *scripts* of
operations on fresh TestCase/TestCaseChromosome objects with pynguin's RNG seam
bound to an explorer-owned ``Chooser`` (mc.rng.ChoiceRNG).
"""

from __future__ import annotations

import os

from mc import pyn, rng
from mc.explore import Chooser, explore_deviations

CORPUS_DIR = os.path.join(os.path.dirname(os.path.dirname(os.path.abspath(__file__))), "corpus")


def corpus_source(name: str) -> str:
    with open(os.path.join(CORPUS_DIR, name + ".py")) as fh:
        return fh.read()


class World:
    def __init__(self, module: str, scratch: str, coverage=("BRANCH", "LINE"), instrument=True,
                 config_over=None, sut_name=None):
        self.module = module
        self.config_over = dict(config_over or {})
        pyn.reset_config(**self.config_over)
        pyn.clear_caches()
        self.sut = pyn.Sut(corpus_source(module), scratch, name=sut_name or f"c_{module}",
                           coverage=coverage, instrument=instrument)
        self.sut.__enter__()
        self.cluster = self.sut.cluster()
        import pynguin.testcase.testfactory as tf
        self.factory = tf.TestFactory(self.cluster)
        self.thresholds = ()
        self.accessibles = list(self.cluster.accessible_objects_under_test)

    def close(self):
        self.sut.__exit__(None, None, None)

    # ------------------------------------------------------------------
    def chromosome(self, test_case=None):
        import pynguin.ga.testcasechromosome as tcc
        import pynguin.testcase.testcase as tc
        return tcc.TestCaseChromosome(test_case if test_case is not None else tc.TestCase(),
                                      test_factory=self.factory)

    def run_script(self, script, chooser, start=None, on_step=None):
        """Run ``script`` on a fresh chromosome (or a clone of ``start``) under the chooser."""
        chrom = self.chromosome(start.clone() if start is not None else None)
        r = rng.ChoiceRNG(chooser, self.thresholds, index_full_upto=getattr(self, "index_full_upto", 6))
        with rng.installed(r):
            for i, op in enumerate(script):
                apply_op(self, chrom, op)
                if on_step is not None:
                    on_step(i, op, chrom)
        return chrom


def apply_op(world, chrom, op):
    """One factory / operator step on a TestCaseChromosome (all randomness via the seam)."""
    import pynguin.utils.randomness as randomness
    kind = op[0]
    t = chrom.test_case
    f = world.factory
    if kind == "insert":          # insert_random_statement at the end
        f.insert_random_statement(t, t.size())
    elif kind == "insert_at":     # at an explorer-chosen position
        pos = randomness.next_int(0, t.size() + 1)
        f.insert_random_statement(t, pos)
    elif kind == "append":        # a specific accessible
        f.append_generic_accessible(t, world.accessibles[op[1] % len(world.accessibles)])
    elif kind == "mutate":
        chrom.mutate()
    elif kind == "mut_insert":    # the insertion operator alone (TestCaseMutation._mutation_insert)
        chrom._mutation_insert()  # noqa: SLF001
    elif kind == "mut_delete":
        chrom._mutation_delete()  # noqa: SLF001
    elif kind == "mut_change":
        chrom._mutation_change()  # noqa: SLF001
    elif kind == "delete":
        if t.size():
            f.delete_statement_gracefully(t, randomness.next_int(0, t.size()))
    elif kind == "mutate_value":
        if t.size():
            f.mutate_value(t, randomness.next_int(0, t.size()))
    elif kind == "mutate_call":
        if t.size():
            f.mutate_call(t, randomness.next_int(0, t.size()))
    elif kind == "change_call":
        if t.size():
            f.change_random_call(t, randomness.next_int(0, t.size()))
    elif kind == "change_field":
        if t.size():
            f.change_random_field_call(t, randomness.next_int(0, t.size()))
    elif kind == "change_type":
        if t.size():
            f.change_statement_type(t, randomness.next_int(0, t.size()))
    elif kind == "chop":
        if t.size():
            t.chop(randomness.next_int(-1, t.size()))
    elif kind == "remove_unused":
        t.remove_unused_variables()
    # positional forms: the position belongs to the operation alphabet, not to the RNG answers
    elif kind == "mutate_value_at":
        if op[1] < t.size():
            f.mutate_value(t, op[1])
    elif kind == "delete_at":
        if op[1] < t.size():
            f.delete_statement_gracefully(t, op[1])
    elif kind == "mutate_call_at":
        if op[1] < t.size():
            f.mutate_call(t, op[1])
    else:
        raise ValueError(op)
    t._code_cache = None  # noqa: SLF001  (defensive: canon must reflect the live statements)


def canon(test_case):
    return (test_case.to_module().code,
            tuple(getattr(s.bound_type, "__name__", str(s.bound_type)) for s in test_case.statements()),
            tuple(repr(s.accessible) if s.accessible is not None else None for s in test_case.statements()))


def enumerate_testcases(world, script, bound, max_execs=None, roots=None, on_exec=None):
    """All test cases ``script`` can build with <= bound deviations. Returns (dict, stats)."""
    found: dict = {}
    stats = {"executions": 0, "capped": False, "max_choice_points": 0}

    def run(ch):
        return world.run_script(script, ch)

    def on(ch, chrom):
        stats["max_choice_points"] = max(stats["max_choice_points"], len(ch.points))
        k = canon(chrom.test_case)
        if k not in found:
            found[k] = (chrom.test_case.clone(), ch.choices)
        if on_exec is not None:
            on_exec(ch, chrom)

    n, capped = explore_deviations(run, bound, on, roots=roots, max_execs=max_execs)
    stats["executions"] = n
    stats["capped"] = capped
    return found, stats
