"""C06 -- control-dependence graphs match the post-dominance definition.

Bounded-exhaustive enumeration (E3).  For every code object (recursively:
module body, functions, nested functions, classes, lambdas, generator
expressions) of

* every ``mc.progen`` grammar program up to a size/depth bound, the ~50 progen
  seeds and the static seeds (infinite loops, async, ``yield from``, ``except*``),
* every code object of ~45 pure-Python stdlib modules (source compiled, never run),

the real ``InstrumentationTransformer`` (no adapters, no exclusions) is run on
the compiled module, which builds the CFG with ``CFG.from_bytecode`` and the
CDG with ``ControlDependenceGraph.compute`` exactly as in production, and the
registered graphs are compared with an oracle written from the definition:

(a) CFG: ``ENTRY`` is the only node with in-degree 0, ``EXIT`` the only node
    with out-degree 0, every node reachable from ``ENTRY``, ``EXIT`` reachable
    from every node.
(b) ``pdom(B, S)``  <=>  ``S == B`` or ``EXIT`` is unreachable from ``S`` in the
    graph without ``B`` (path definition).  Graphs larger than ``PATH_MAX``
    nodes use the iterative set-intersection fixpoint instead; both are computed
    and required to agree on every graph <= ``PATH_MAX`` nodes.
(c) on the augmented graph (``AUGMENTED_ENTRY -> ENTRY``, ``AUGMENTED_ENTRY ->
    EXIT``, read off ``_create_augmented_graph``) the expected CDG has an edge
    ``A -> B`` carrying the label of the CFG edge ``A -> S`` exactly when
    ``pdom(B, S)`` and not (``B != A`` and ``pdom(B, A)``) (Ferrante et al.);
    ``ENTRY``/``EXIT`` are dropped as ``compute`` does.  Node sets, edge sets and
    labels must agree.
(d) ``is_control_dependent_on_root(n)``  <=>  ``n`` is reachable from
    ``AUGMENTED_ENTRY`` through unlabelled edges of the *oracle* CDG; and (the
    property's own sentence) a node whose oracle dependency set is empty is
    root-dependent.
(e) ``get_control_dependencies(n)`` = the (predicate node, outcome) pairs of the
    labelled oracle-CDG edges met when walking backwards from ``n`` through
    unlabelled edges.
"""

from __future__ import annotations

import os
import types

ID = "C06"
LEVEL = "exploration"

PATH_MAX = 60          # path definition of post-dominance up to this many nodes (quick)
PATH_MAX_THOROUGH = 400

STDLIB = [
    "bisect", "heapq", "textwrap", "fnmatch", "shlex", "colorsys", "string", "keyword", "ast",
    "tokenize", "difflib", "glob", "posixpath", "genericpath", "stat", "reprlib", "copy", "pprint",
    "json.decoder", "json.encoder", "json.scanner", "csv", "configparser", "argparse", "getopt",
    "calendar", "_pydatetime", "fractions", "statistics", "random", "functools", "_collections_abc",
    "contextlib", "dataclasses", "enum", "inspect", "dis", "types", "typing", "abc", "operator",
    "numbers", "base64", "quopri", "html.parser", "sched", "queue", "traceback", "linecache",
    "codeop", "cmd", "gettext", "graphlib", "ipaddress", "uuid", "zipfile", "tarfile", "_pydecimal",
]

ENTRY, EXIT, AUG = "ENTRY", "EXIT", "AUG"


# ------------------------------------------------------------------ real implementation
def build_real(code):
    """Run the real transformer (no adapters); return [(code_object, cfg, cdg)] for every code object."""
    from pynguin.instrumentation.tracer import SubjectProperties
    from pynguin.instrumentation.transformer import InstrumentationTransformer

    sp = SubjectProperties()
    tr = InstrumentationTransformer(sp, [])
    tr._instrument_code_recursive(code, None)  # noqa: SLF001  (module_ast_info None = nothing excluded)
    return [(md.code_object, md.cfg, md.cdg) for _cid, md in sorted(sp.existing_code_objects.items())]


def build_one(code):
    """CFG and CDG of a single code object, the two calls of ``_instrument_code_recursive``."""
    from bytecode import Bytecode

    from pynguin.instrumentation import controlflow as cf
    from pynguin.instrumentation import version

    cfg = cf.CFG.from_bytecode(version.add_for_loop_no_yield_nodes(Bytecode.from_code(code)))
    return cfg, cf.ControlDependenceGraph.compute(cfg)


def walk_code(code, path=()):
    yield path, code
    for i, c in enumerate(code.co_consts):
        if isinstance(c, types.CodeType):
            yield from walk_code(c, path + (i,))


def node_key(n):
    from pynguin.instrumentation.controlflow import ArtificialNode, BasicBlockNode

    if isinstance(n, BasicBlockNode):
        return n.index
    return {ArtificialNode.ENTRY: ENTRY, ArtificialNode.EXIT: EXIT, ArtificialNode.AUGMENTED_ENTRY: AUG}[n]


def node_kind(n):
    """Construct at a node: its last real instruction (or TryBegin for blocks that open a try region)."""
    from bytecode.instr import Instr, TryBegin

    from pynguin.instrumentation.controlflow import BasicBlockNode

    if not isinstance(n, BasicBlockNode):
        return str(node_key(n))
    bb = list(n._basic_block)  # noqa: SLF001
    if bb and isinstance(bb[-1], TryBegin):
        return "TryBegin"
    last = None
    for ins in bb:
        if isinstance(ins, Instr):
            last = ins
    return last.name if last is not None else "empty-block"


_COND = ("POP_JUMP_IF_FALSE", "POP_JUMP_IF_TRUE", "POP_JUMP_IF_NONE", "POP_JUMP_IF_NOT_NONE", "FOR_ITER", "SEND")


def node_class(kind):
    """Coarse class of a dependent node for fingerprints (the branch node keeps its opcode)."""
    if kind in _COND or kind in ("TryBegin", AUG, ENTRY, EXIT):
        return kind
    if kind.startswith(("RETURN", "RAISE", "RERAISE")):
        return "leaving-block"
    if kind.startswith("JUMP"):
        return "jump-block"
    return "plain-block"


def extract(graph):
    """nx graph -> (keys in a stable order, {(u, v): set of labels}).

    Representation-tolerant: a label is the ``branch_value`` attribute of an edge (None = unlabelled);
    parallel edges of a multigraph and an optional ``branch_values`` collection attribute add labels.
    """
    keys = sorted((node_key(n) for n in graph.nodes), key=lambda k: (isinstance(k, str), k))
    edges = {}
    for u, v, attr in graph.edges(data=True):
        labels = edges.setdefault((node_key(u), node_key(v)), set())
        many = attr.get("branch_values")
        if many:
            labels.update(many)
        else:
            labels.add(attr.get("branch_value"))
    return keys, edges


# ------------------------------------------------------------------ oracle
class Oracle:
    """Definition-based CDG of a CFG given as (keys, {(u, v): label})."""

    def __init__(self, keys, edges, path_max):
        self.problems = []                       # [(signature, node key)] of part (a)
        self.keys = list(keys)
        self.edges = dict(edges)
        self.path_max = path_max
        self.crosscheck = None
        self._check_cfg()
        if self.problems:
            return
        akeys = self.keys + [AUG]
        aedges = dict(self.edges)
        aedges[(AUG, ENTRY)] = {None}
        aedges[(AUG, EXIT)] = {None}
        self.akeys, self.aedges = akeys, aedges
        idx = {k: i for i, k in enumerate(akeys)}
        n = len(akeys)
        succ = [0] * n
        pred = [0] * n
        for (u, v) in aedges:
            succ[idx[u]] |= 1 << idx[v]
            pred[idx[v]] |= 1 << idx[u]
        self.idx, self.n, self.succ, self.pred = idx, n, succ, pred
        full = (1 << n) - 1
        use_path = n <= path_max
        pd_path = self._pdom_path(full) if use_path else None
        pd_iter = self._pdom_iter(full)
        if use_path:
            self.crosscheck = pd_path == pd_iter
            self.method = "path"
            self.pdom = pd_path
        else:
            self.method = "iterative"
            self.pdom = pd_iter
        self._expected_cdg()

    # (a) -------------------------------------------------------------
    def _check_cfg(self):
        keys, edges = self.keys, self.edges
        indeg = {k: 0 for k in keys}
        outdeg = {k: 0 for k in keys}
        succ = {k: [] for k in keys}
        pred = {k: [] for k in keys}
        for (u, v) in edges:
            outdeg[u] += 1
            indeg[v] += 1
            succ[u].append(v)
            pred[v].append(u)
        if ENTRY not in indeg or EXIT not in indeg:
            self.problems.append(("multi-entry" if ENTRY not in indeg else "multi-exit", "missing-artificial-node"))
            return
        for k in keys:
            if indeg[k] == 0 and k != ENTRY:
                self.problems.append(("multi-entry", k))
            if outdeg[k] == 0 and k != EXIT:
                self.problems.append(("multi-exit", k))
        if indeg[ENTRY] != 0:
            self.problems.append(("multi-entry", ENTRY))
        if outdeg[EXIT] != 0:
            self.problems.append(("multi-exit", EXIT))

        def closure(start, nxt):
            seen, todo = {start}, [start]
            while todo:
                for m in nxt[todo.pop()]:
                    if m not in seen:
                        seen.add(m)
                        todo.append(m)
            return seen

        fwd = closure(ENTRY, succ)
        bwd = closure(EXIT, pred)
        for k in keys:
            if k not in fwd:
                self.problems.append(("unreachable-node", k))
            if k not in bwd:
                self.problems.append(("no-path-to-exit", k))

    # (b) -------------------------------------------------------------
    def _pdom_path(self, full):
        """pd[b] = bitset of nodes S that b post-dominates: S == b or EXIT unreachable from S without b."""
        n, pred, ex = self.n, self.pred, self.idx[EXIT]
        pd = [0] * n
        for b in range(n):
            if b == ex:
                pd[b] = full
                continue
            ban = ~(1 << b)
            seen = frontier = 1 << ex
            while frontier:
                new = 0
                f = frontier
                while f:
                    low = f & -f
                    new |= pred[low.bit_length() - 1]
                    f ^= low
                new &= ban & ~seen
                seen |= new
                frontier = new
            pd[b] = full & ~seen          # contains b itself (b is never in `seen`)
        return pd

    def _pdom_iter(self, full):
        """Iterative data-flow: PD(EXIT) = {EXIT}; PD(n) = {n} | AND over successors; returned transposed."""
        n, succ, ex = self.n, self.succ, self.idx[EXIT]
        dom = [full] * n                  # dom[s] = bitset of nodes that post-dominate s
        dom[ex] = 1 << ex
        changed = True
        while changed:
            changed = False
            for s in range(n):
                if s == ex:
                    continue
                acc = full
                f = succ[s]
                while f:
                    low = f & -f
                    acc &= dom[low.bit_length() - 1]
                    f ^= low
                acc |= 1 << s
                if acc != dom[s]:
                    dom[s] = acc
                    changed = True
        pd = [0] * n
        for s in range(n):
            f = dom[s]
            while f:
                low = f & -f
                pd[low.bit_length() - 1] |= 1 << s
                f ^= low
        return pd

    # (c) -------------------------------------------------------------
    def _expected_cdg(self):
        idx, pd, akeys = self.idx, self.pdom, self.akeys
        exp = {}
        for (a, s), edge_labels in self.aedges.items():
            ia, is_ = idx[a], idx[s]
            for ib, b in enumerate(akeys):
                if not (pd[ib] >> is_) & 1:
                    continue                              # B does not post-dominate the successor
                if ib != ia and (pd[ib] >> ia) & 1:
                    continue                              # B strictly post-dominates A
                if a in (ENTRY, EXIT) or b in (ENTRY, EXIT):
                    continue                              # compute() removes the dummy nodes
                exp.setdefault((a, b), set()).update(edge_labels)
        self.exp = exp
        self.exp_nodes = [k for k in akeys if k not in (ENTRY, EXIT)]
        preds = {k: [] for k in self.exp_nodes}
        for (a, b), labels in exp.items():
            preds[b].append((a, labels))
        self.exp_preds = preds

    # (d) -------------------------------------------------------------
    def root_dependent(self, node):
        seen, todo = {node}, [node]
        while todo:
            cur = todo.pop()
            for a, labels in self.exp_preds[cur]:
                unlabelled = a == AUG or None in labels
                if not unlabelled:
                    continue
                if a == AUG:
                    return True
                if a not in seen:
                    seen.add(a)
                    todo.append(a)
        return False

    # (e) -------------------------------------------------------------
    def control_dependencies(self, node):
        out, seen, todo = set(), {node}, [node]
        while todo:
            cur = todo.pop()
            for a, labels in self.exp_preds[cur]:
                if a != AUG:
                    for lab in labels:
                        if lab is not None:
                            out.add((a, lab))
                if (a == AUG or None in labels) and a not in seen:
                    seen.add(a)
                    todo.append(a)
        return out


# ------------------------------------------------------------------ comparison of one code object
def check_code_object(col, where, cfg, cdg, path_max, opcount=None):
    """Compare the real cfg/cdg of one code object with the oracle.  ``where`` = replay data + label."""
    from pynguin.instrumentation.controlflow import BasicBlockNode

    col.count("evaluations")
    keys, edges = extract(cfg.graph)
    kinds = {node_key(n): node_kind(n) for n in cfg.graph.nodes}
    kinds[AUG] = AUG
    size = len(keys)
    col.notes["max_cfg_nodes"] = max(col.notes.get("max_cfg_nodes", 0), size)
    outdeg = {}
    for (u, _v) in edges:
        outdeg[u] = outdeg.get(u, 0) + 1
    branching = sum(1 for d in outdeg.values() if d >= 2)

    def viol(sig, kind, what):
        col.violation(f"C06|{sig}|{kind}", f"{where['label']}: {what}", where["data"], rank=where["rank"] * 1000 + size)

    # (a') which nodes are wired to EXIT: a node that leaves the frame (its block ends in a return / raise /
    # reraise), a node that suspends it (contains a YIELD_VALUE), or -- only there -- a node on a cycle
    # (the artificial way out of a loop that cannot terminate).
    from bytecode.instr import Instr as _Instr
    succs = {}
    for (u, v) in edges:
        succs.setdefault(u, set()).add(v)
    for n in cfg.graph.nodes:
        k = node_key(n)
        if not isinstance(n, BasicBlockNode):
            continue
        names = [i.name for i in n._basic_block if isinstance(i, _Instr)]  # noqa: SLF001
        leaves = bool(names) and names[-1] in ("RETURN_VALUE", "RETURN_CONST", "RAISE_VARARGS", "RERAISE")
        yields = "YIELD_VALUE" in names
        has_exit = EXIT in succs.get(k, ())
        if (leaves or yields) and not has_exit:
            viol("missing-exit-edge", "YIELD_VALUE" if yields else names[-1],
                 f"node {k} {'suspends' if yields else 'leaves'} the frame but has no edge to EXIT")
        elif has_exit and not (leaves or yields):
            col.count("loop_exit_edges")
            # must lie on a cycle: k reachable from one of its successors
            seen, todo = set(), [x for x in succs.get(k, ()) if x != EXIT]
            while todo:
                cur = todo.pop()
                if cur in seen:
                    continue
                seen.add(cur)
                todo.extend(x for x in succs.get(cur, ()) if x != EXIT)
            if k not in seen:
                viol("spurious-exit-edge", kinds[k], f"node {k} neither leaves nor suspends the frame nor lies "
                     "on a cycle, yet has an edge to EXIT")

    orc = Oracle(keys, edges, path_max)
    if orc.problems:
        col.count("cfg_structure_violations")
        for sig, k in orc.problems:
            viol(sig, kinds.get(k, str(k)), f"CFG node {k} ({kinds.get(k, k)}) violates single-entry/exit/reachability: {sig}")
        return None
    if orc.crosscheck is not None:
        col.count("pdom_crosschecked_graphs")
        if not orc.crosscheck:
            col.count("pdom_oracle_disagreements")
            col.note("pdom_oracle_disagreement_at", where["label"])
    col.count(f"pdom_method_{orc.method}")

    ckeys, cedges = extract(cdg.graph)
    collapsed = set()          # branch nodes that lost one of two labels towards the same dependent node

    def third_way(a):
        """Why a conditional node has a third successor: a yield inside the block or the infinite-loop exit."""
        from pynguin.instrumentation import version
        node = next(n for n in cfg.graph.nodes if node_key(n) == a)
        if any(i.name in version.YIELDING_NAMES for i in node.instructions):
            return "yield"
        return "loop-exit" if (a, EXIT) in edges else "other"

    # node sets
    for k in sorted(set(orc.exp_nodes) ^ set(ckeys), key=str):
        viol("missing-cdg-node" if k in orc.exp_nodes else "extra-cdg-node", kinds.get(k, str(k)),
             f"CDG node set differs at {k}")
    # edges + labels
    ok = True
    for (a, b), labels in sorted(orc.exp.items(), key=str):
        col.count("cdg_edges_expected")
        if (a, b) not in cedges:
            ok = False
            viol("missing-cdg-edge", f"{kinds[a]}:{_lab(labels)}",
                 f"definition requires CDG edge {a} -{_lab(labels)}-> {b} ({kinds[a]} -> {kinds[b]}), absent")
        else:
            got = cedges[(a, b)]
            if got == labels:
                continue
            ok = False
            if got < labels and len(got) >= 1:
                col.count("multi_label_pairs")
                collapsed.add(a)
                viol("label-collapsed", f"{kinds[a]}+{third_way(a)}:{_lab(labels)}",
                     f"definition gives CDG edges {a}->{b} for outcomes {_lab(labels)} (node {a} has successors "
                     f"{sorted(((v, _lab(l)) for (u, v), l in edges.items() if u == a), key=str)}), "
                     f"the graph keeps only {_lab(got)}")
            else:
                viol("wrong-label", f"{kinds[a]}:{_lab(labels)}",
                     f"CDG edge {a}->{b} is labelled {_lab(got)}, definition gives {_lab(labels)}")
    for (a, b), got in sorted(cedges.items(), key=str):
        if (a, b) not in orc.exp:
            ok = False
            viol("extra-cdg-edge", f"{kinds.get(a, a)}:{_lab(got)}",
                 f"CDG has edge {a} -{_lab(got)}-> {b} ({kinds.get(a, a)} -> {kinds.get(b, b)}) that the definition does not give")
    # root dependence and get_control_dependencies
    real_nodes = {node_key(n): n for n in cdg.graph.nodes}
    for k in orc.exp_nodes:
        n = real_nodes.get(k)
        if n is None or not isinstance(n, BasicBlockNode):
            continue
        col.count("node_queries")
        exp_root = orc.root_dependent(k)
        exp_deps = orc.control_dependencies(k)
        try:
            got_root = cdg.is_control_dependent_on_root(n)
        except Exception as exc:  # noqa: BLE001
            viol(f"raises:{type(exc).__name__}", "is_control_dependent_on_root", f"node {k}: {exc!r}")
            got_root = exp_root
        if got_root != exp_root:
            viol("root-dependence-wrong", f"{node_class(kinds[k])}:{'missing' if exp_root else 'spurious'}",
                 f"is_control_dependent_on_root({k}) = {got_root}, oracle (unlabelled path from the "
                 f"augmented entry) = {exp_root}")
        if not exp_deps and not got_root:
            viol("root-dependence-wrong", f"{node_class(kinds[k])}:branchless-not-root",
                 f"node {k} depends on no branch outcome but is_control_dependent_on_root is False")
        try:
            got_deps = {(d.node.index, d.branch_value) for d in cdg.get_control_dependencies(n)}
        except Exception as exc:  # noqa: BLE001
            viol(f"raises:{type(exc).__name__}", "get_control_dependencies", f"node {k}: {exc!r}")
            got_deps = exp_deps
        if got_deps != exp_deps:
            missing = sorted(exp_deps - got_deps)
            extra = sorted(got_deps - exp_deps)
            first = (missing or extra)[0]
            if not extra and all(a in collapsed for a, _v in missing):
                kind = f"label-collapsed:{kinds[first[0]]}"      # consequence of the collapsed labels above
            else:
                kind = f"{kinds[first[0]]}:{'missing' if missing else 'extra'}-{first[1]}"
            viol("control-deps-mismatch", kind,
                 f"get_control_dependencies({k}) = {sorted(got_deps)}, oracle = {sorted(exp_deps)}")
        col.distinct("outcomes", (exp_root, len(exp_deps) > 0, len(exp_deps) > 1))
        if exp_root:
            col.count("nodes_root_dependent")
        if exp_deps:
            col.count("nodes_branch_dependent")
    # the same queries in other orders, each on a FRESH CDG of the same CFG: an accessor that remembers
    # answers (or anything else) between queries must not depend on the order in which it is asked.
    # Orders: branching nodes first (as DynaMOSA asks), and reverse block order.
    if size <= 120:
        import pynguin.instrumentation.controlflow as cf

        keys = [k for k in orc.exp_nodes if isinstance(real_nodes.get(k), BasicBlockNode)]
        branching_keys = {a for (a, _b), labs in orc.exp.items() if any(l is not None for l in labs)}
        orders = {"branching-first": sorted(keys, key=lambda k: (k not in branching_keys, str(k))),
                  "reverse": list(reversed(keys))}
        for oname, order in orders.items():
            cdg2 = cf.ControlDependenceGraph.compute(cfg)
            nodes2 = {node_key(n): n for n in cdg2.graph.nodes}
            for k in order:
                n = nodes2.get(k)
                if n is None:
                    continue
                col.count("node_queries_reordered")
                try:
                    got_root = cdg2.is_control_dependent_on_root(n)
                    got_deps = {(d.node.index, d.branch_value) for d in cdg2.get_control_dependencies(n)}
                except Exception as exc:  # noqa: BLE001
                    viol(f"raises:{type(exc).__name__}", f"reordered:{oname}", f"node {k}: {exc!r}")
                    break
                if got_root != orc.root_dependent(k):
                    viol("root-dependence-wrong", f"query-order:{oname}",
                         f"asked in order {oname}: is_control_dependent_on_root({k}) = {got_root}, oracle = "
                         f"{orc.root_dependent(k)}")
                    break
                exp_deps = orc.control_dependencies(k)
                if got_deps != exp_deps and not all(a in collapsed for a, _v in (exp_deps ^ got_deps)):
                    viol("control-deps-mismatch", f"query-order:{oname}",
                         f"asked in order {oname}: get_control_dependencies({k}) = {sorted(got_deps)}, oracle = "
                         f"{sorted(exp_deps)}")
                    break
    for k in kinds.values():
        col.distinct("node_kinds", k)
    return {"nodes": size, "branching": branching, "ok": ok, "cdg_edges": len(orc.exp)}


def _lab(labels):
    return "+".join(str(x) for x in sorted(labels, key=str))


# ------------------------------------------------------------------ one module (source) -> all code objects
def check_module(col, label, source, filename, data, rank, path_max, collect_ops=True):
    from mc import progen

    try:
        code = compile(source, filename, "exec")
    except (SyntaxError, ValueError) as exc:
        col.count("uncompilable")
        col.note("uncompilable_example", f"{label}: {exc!r}")
        return None
    col.count("modules")
    paths = list(walk_code(code))
    if collect_ops:
        for _p, co in paths:
            import dis
            for ins in dis.get_instructions(co):
                col.distinct("opcodes", ins.opname)
                col.notes.setdefault("opcode_list", [])
                if ins.opname not in col.notes["opcode_list"]:
                    col.notes["opcode_list"].append(ins.opname)
    results = None
    raised = False
    try:
        results = build_real(code)
    except Exception as exc:  # noqa: BLE001
        # locate the offending code object(s) one by one
        raised = True
        col.count("transformer_raised")
        located = False
        for p, co in paths:
            try:
                build_one(co)
            except Exception as exc2:  # noqa: BLE001
                located = True
                kind = _raise_kind(co)
                col.violation(f"C06|raises:{type(exc2).__name__}|{kind}",
                              _noaddr(f"{label} code object {co.co_name}@{list(p)}: building CFG/CDG raised {exc2!r}"),
                              dict(data, code_path=list(p)), rank=rank * 1000)
        if not located:
            col.violation(f"C06|raises:{type(exc).__name__}|transformer",
                          _noaddr(f"{label}: transformer raised {exc!r}"), data, rank=rank * 1000)
    if results is None:
        # still check the code objects that can be built
        results = []
        for p, co in paths:
            try:
                cfg, cdg = build_one(co)
            except Exception:  # noqa: BLE001
                continue
            results.append((co, cfg, cdg))
    if len(results) != len(paths) and not raised:
        col.violation("C06|code-object-not-registered|transformer",
                      f"{label}: {len(paths)} code objects, {len(results)} registered", data, rank=rank * 1000)
    summaries = []
    for co, cfg, cdg in results:
        where = {"label": f"{label}::{co.co_name}@L{co.co_firstlineno}",
                 "data": dict(data, code_name=co.co_name, code_line=co.co_firstlineno), "rank": rank}
        col.count("code_objects")
        summ = check_code_object(col, where, cfg, cdg, path_max)
        if summ is not None:
            sig = progen.dis_signature(co, "shape", recursive=False)
            col.distinct("cfg_shapes", sig)
            if summ["branching"] >= 1:
                col.distinct("nontrivial", sig)
            summaries.append((co.co_name, summ))
    return summaries


def _noaddr(text):
    import re
    return re.sub(r"0x[0-9a-fA-F]+", "0x..", text)[:400]


def _raise_kind(co):
    import dis
    ops = {i.opname for i in dis.get_instructions(co)}
    for marker in ("SEND", "YIELD_VALUE", "BEFORE_ASYNC_WITH", "BEFORE_WITH", "CHECK_EG_MATCH", "PUSH_EXC_INFO",
                   "FOR_ITER", "JUMP_BACKWARD"):
        if marker in ops:
            return marker
    return "straight-line"


# ------------------------------------------------------------------ shards
def shard_progen(col, max_stmts, max_depth, k, nshards, cap, path_max):
    from mc import progen

    n = 0
    for i, (name, source, meta) in enumerate(progen.programs(max_stmts, max_depth)):
        if i % nshards != k:
            continue
        if cap is not None and i >= cap:
            col.count("progen_programs_beyond_cap")
            continue
        n += 1
        col.count("progen_programs")
        _one_program(col, progen, name, source, meta, path_max, every=211)


def shard_seeds(col, path_max):
    from mc import progen

    for name, source, meta in progen.seeds() + progen.static_seeds():
        col.count("seed_programs")
        _one_program(col, progen, name, source, meta, path_max, every=7)


def _one_program(col, progen, name, source, meta, path_max, every):
    data = {"kind": "source", "name": name, "source": source}
    summ = check_module(col, name, source, f"<{name}>", data, rank=meta["size"] or 99, path_max=path_max)
    if summ is None:
        return
    code = compile(source, f"<{name}>", "exec")
    ev = progen.construct_evidence(code)
    for t in meta["constructs"]:
        col.distinct("constructs_declared", t)
        if t in ev:
            col.distinct("constructs_evidenced", t)
            col.notes.setdefault("constructs_evidenced_list", [])
            if t not in col.notes["constructs_evidenced_list"]:
                col.notes["constructs_evidenced_list"].append(t)
        col.notes.setdefault("constructs_declared_list", [])
        if t not in col.notes["constructs_declared_list"]:
            col.notes["constructs_declared_list"].append(t)
    f = [s for nm, s in summ if nm == "f"]
    if f:
        col.sample({"program": name, "source": source, "f_cfg_nodes": f[0]["nodes"],
                    "f_cdg_edges": f[0]["cdg_edges"], "agrees": f[0]["ok"]}, every=every)


def stdlib_source(modname):
    """(path, source) of a pure-Python stdlib module, located statically (frozen modules included)."""
    import sysconfig

    base = sysconfig.get_paths()["stdlib"]
    for path in (os.path.join(base, *modname.split(".")) + ".py",
                 os.path.join(base, *modname.split("."), "__init__.py")):
        if os.path.exists(path):
            with open(path, encoding="utf-8") as fh:
                return path, fh.read()
    return None, None


def shard_stdlib(col, modnames, path_max):
    for modname in modnames:
        origin, source = stdlib_source(modname)
        if source is None:
            col.count("stdlib_modules_unavailable")
            col.note("stdlib_unavailable_example", modname)
            continue
        col.count("stdlib_modules")
        before = col.counters.get("code_objects", 0)
        check_module(col, modname, source, origin, {"kind": "stdlib", "module": modname}, rank=500,
                     path_max=path_max)
        col.count("stdlib_code_objects", col.counters.get("code_objects", 0) - before)


def shard(col, kind, args):
    {"progen": shard_progen, "seeds": shard_seeds, "stdlib": shard_stdlib}[kind](col, *args)


# ------------------------------------------------------------------ entry points
def run(ctx):
    from mc import par, progen

    if ctx.quick:
        n, d, cap, path_max = 3, 2, None, PATH_MAX
    else:
        n, d, cap, path_max = 4, 3, None, PATH_MAX_THOROUGH
    nshards = max(1, ctx.workers)
    order = list(range(nshards))
    if ctx.seed:
        order = order[ctx.seed % nshards:] + order[:ctx.seed % nshards]
    jobs = [("progen", (n, d, k, nshards, cap, path_max)) for k in order]
    jobs.append(("seeds", (path_max,)))
    # stdlib: largest modules first, dealt round-robin into groups
    sized = []
    for m in STDLIB:
        origin, _src = stdlib_source(m)
        sized.append((-(os.path.getsize(origin) if origin else 0), m))
    sized.sort()
    groups = [[] for _ in range(max(1, ctx.workers))]
    for i, (_s, m) in enumerate(sized):
        groups[i % len(groups)].append(m)
    jobs = [("stdlib", (g, path_max)) for g in groups if g] + jobs
    par.run_shards("props.c06_cdg:shard", jobs, ctx.workers, ctx)

    c = ctx.col.counters
    total = sum(progen.count(n, d).values())
    ctx.note("progen_bound", {"max_size": n, "max_depth": d, "programs_in_bound": total, "cap": cap})
    ctx.note("path_definition_up_to_nodes", path_max)
    ctx.require(c.get("progen_programs", 0) == (total if cap is None else min(total, cap)),
                f"progen programs checked {c.get('progen_programs')} != enumerated {total}")
    ctx.require(c.get("uncompilable", 0) == 0, "a corpus program did not compile")
    ctx.require(c.get("stdlib_modules", 0) >= 40, f"only {c.get('stdlib_modules')} stdlib modules available")
    ctx.require(c.get("pdom_oracle_disagreements", 0) == 0,
                "oracle self-check failed: path-definition and iterative post-dominators disagree at "
                f"{ctx.col.notes.get('pdom_oracle_disagreement_at')}")
    ctx.require(c.get("pdom_crosschecked_graphs", 0) > 1000, "too few graphs cross-validated the iterative oracle")
    declared = ctx.col.sets.get("constructs_declared", set())
    evidenced = ctx.col.sets.get("constructs_evidenced", set())
    ctx.require(declared and declared == evidenced,
                f"vacuity: constructs never seen in dis output: {sorted(declared - evidenced)}")
    if cap is None:
        ctx.require(set(progen.ALL_CONSTRUCTS) <= declared,
                    f"vacuity: grammar constructs never generated: {sorted(set(progen.ALL_CONSTRUCTS) - declared)}")
    ctx.require(len(ctx.col.sets.get("outcomes", ())) >= 4, "vacuous: fewer than 4 distinct dependence outcomes")
    ctx.require(c.get("nodes_root_dependent", 0) > 0 and c.get("nodes_branch_dependent", 0) > 0,
                "vacuous: root or branch dependence never observed")
    ctx.require(c.get("pdom_method_path", 0) > 0
                and (c.get("pdom_method_iterative", 0) > 0 or ctx.col.notes.get("max_cfg_nodes", 0) < path_max),
                "graphs above the path-definition bound must have been decided by the cross-validated iterative oracle")
    for key in ("TryBegin", "FOR_ITER", "POP_JUMP_IF_FALSE", "POP_JUMP_IF_TRUE", "POP_JUMP_IF_NONE",
                "POP_JUMP_IF_NOT_NONE", "YIELD_VALUE", "JUMP_BACKWARD", "RETURN_VALUE", "RERAISE", "SEND"):
        ctx.require(key in ctx.col.sets.get("node_kinds", set()) or key in ctx.col.sets.get("opcodes", set()),
                    f"vacuity: no CFG node / instruction of kind {key}")
    ctx.exhaustive = cap is None
    ctx.rule = ("one evaluation = one code object whose real CFG+CDG (built by the real transformer) is compared "
                "with the definition-based oracle; non-trivial = distinct bytecode shape (opnames, jump structure, "
                "exception table of the code object alone) whose CFG has at least one node with >= 2 successors")
    ctx.assume("the CFG's edges and their True/False labels are taken from the real CFG (C03 checks labels against "
               "execution); C06 decides the graph-theoretic relation between that CFG and the CDG")
    ctx.assume("no coverage exclusions (module_ast_info=None); _create_covered_cdg's node removal is C08's subject")
    ctx.assume("CPython 3.12 bytecode; opcodes never emitted by the corpora are outside the claim (see opcode_list)")


def replay(ctx, data):
    path_max = PATH_MAX_THOROUGH
    if data.get("kind") == "stdlib":
        origin, source = stdlib_source(data["module"])
        check_module(ctx.col, data["module"], source, origin, {"kind": "stdlib", "module": data["module"]},
                     rank=500, path_max=path_max)
    else:
        check_module(ctx.col, data["name"], data["source"], f"<{data['name']}>",
                     {"kind": "source", "name": data["name"], "source": data["source"]}, rank=1,
                     path_max=path_max)
