"""C11 — adding tests never lowers coverage or raises fitness; merging is order-independent.

Explicit-state search (E1) over the real ``ExecutionTrace.merge`` / ``analyze_results``:
a state is the merged trace reached by a sequence of single-test traces (canonical
form: its coverage/fitness-relevant projection); the events are the traces of the
reduced alphabet of ``mc.tracedomain`` (20-35 distinct single-test traces per
registry: every hit-count class 0 / 1 / >= 2, zero / small / large / infinite
distances, several code-object and line subsets). ALL ordered sequences (with
repetition) of <= 3 (quick) / <= 4 (thorough) alphabet traces are enumerated per
registry. For every sequence:

* left fold by the real ``analyze_results`` over real ``ExecutionResult`` objects and
  every bracketing (all binary merge trees over the ordered sequence) by the real
  ``ExecutionTrace.merge``: the projection must equal that of the sorted arrangement
  of the same multiset (order / grouping independence) and a reference merge
  computed on the abstract specs (set union, sum of hit counts, minimum distance);
* no merge may change an argument trace (all alphabet traces are re-projected after
  the merges of every sequence);
* for the suite S (the sequence without its last trace) and the added test t: every
  suite coverage function of ``ga/computations.py`` satisfies cov(S+t) >= cov(S) and
  every suite fitness function fit(S+t) <= fit(S), evaluated through real
  ``TestSuiteChromosome`` objects (sequences of length <= 3: every ordered
  sequence; length 4: the sorted arrangement of every multiset against each of its
  sub-multisets);
* lifetime leg: for every ordered pair and triple of alphabet tests the first one is
  analysed through SHORT-LIVED result objects (copies, and fresh executions), which are
  dropped before fresh results of the others are analysed: the merge must be that of the
  traces handed in, whatever was analysed and freed before (re-executing a chromosome
  replaces its result, so results die all the time in the real pipeline);
* a side leg merges traces that carry executed instructions and executed assertions
  and checks that every assertion still points at its own instruction.
"""

from __future__ import annotations

import itertools

ID = "C11"
LEVEL = "model_checking"

FULL_EVAL_LEN = 3      # fitness/coverage evaluated for every ORDERED sequence up to this length


# ---------------------------------------------------------------- reference merge
def ref_merge(reg, specs):
    """Reference: union / sum / min on the abstract specs -> projection tuple."""
    cos, cov, chk = set(), set(), set()
    counts, td_, fd_ = {}, {}, {}
    for s in specs:
        cos.update(s[0])
        cov.update(s[2])
        chk.update(s[3])
        for pid, st in zip(reg.pred_ids, s[1]):
            if st is None:
                continue
            counts[pid] = counts.get(pid, 0) + st[0]
            td_[pid] = min(td_.get(pid, float("inf")), st[1])
            fd_[pid] = min(fd_.get(pid, float("inf")), st[2])
    return (tuple(sorted(cos)), tuple(sorted(counts.items())), tuple(sorted(td_.items())),
            tuple(sorted(fd_.items())), tuple(sorted(cov)), tuple(sorted(chk)))


def trees(lo, hi):
    """All binary merge trees over leaves lo..hi-1 (ordered)."""
    if hi - lo == 1:
        return [lo]
    out = []
    for mid in range(lo + 1, hi):
        for left in trees(lo, mid):
            for right in trees(mid, hi):
                out.append((left, right))
    return out


_TREES = {k: trees(0, k) for k in range(1, 6)}


class Machine:
    def __init__(self, col, reg_name, cap):
        from mc import tracedomain as td
        from pynguin.ga.fitness_metrics import analyze_results
        from pynguin.instrumentation.tracer import ExecutionTrace
        import pynguin.ga.computations as ff

        self.td, self.col = td, col
        self.analyze_results, self.ExecutionTrace = analyze_results, ExecutionTrace
        self.reg = reg = td.build_registry(reg_name)
        self.lab = lab = td.Lab(reg)
        self.alphabet = td.reduced_alphabet(reg, cap)
        self.chroms = [lab.chromosome(s) for s in self.alphabet]
        ex = lab.executor
        # execute every alphabet test once (real chromosome path), keep the real results
        self.results = []
        for c in self.chroms:
            r = ex.execute(c.test_case)
            c.set_last_execution_result(r)
            c.changed = False
            self.results.append(r)
        self.orig_proj = [self.full_projection(r.execution_trace) for r in self.results]
        self.fitness = [("BranchDistanceTestSuiteFitnessFunction",
                         ff.BranchDistanceTestSuiteFitnessFunction(ex))]
        if reg.pred_ids:
            r1 = ff.BranchDistanceTestSuiteFitnessFunction(ex)
            r1.restrict(set(reg.branchless[:1]), {reg.pred_ids[0]}, {reg.pred_ids[-1]})
            self.fitness.append(("BranchDistanceTestSuiteFitnessFunction[restricted]", r1))
        self.fitness += [("LineTestSuiteFitnessFunction", ff.LineTestSuiteFitnessFunction(ex)),
                         ("StatementCheckedTestSuiteFitnessFunction",
                          ff.StatementCheckedTestSuiteFitnessFunction(ex))]
        self.coverage = [(cls.__name__, cls(ex)) for cls in (
            ff.TestSuiteBranchCoverageFunction, ff.TestSuiteLineCoverageFunction,
            ff.TestSuiteStatementCheckedCoverageFunction,
            ff.TestSuiteAssertionCheckedCoverageFunction)]
        self.canon = {}       # multiset (sorted index tuple) -> projection of its real fold
        self.values_memo = {}  # sorted index tuple -> values (length-4 leg only)

    # ------------------------------------------------------------ helpers
    def full_projection(self, trace):
        return self.td.projection(trace) + (len(trace.executed_instructions),
                                            len(trace.executed_assertions),
                                            len(trace.object_addresses))

    def data(self, seq, extra=None):
        d = {"registry": self.reg.name, "alphabet_size": len(self.alphabet),
             "sequence": list(seq),
             "specs": [self.td.spec_to_json(self.alphabet[i]) for i in seq]}
        if extra:
            d.update(extra)
        return d

    def fold(self, seq):
        merged = self.analyze_results([self.results[i] for i in seq])
        self.col.count("transitions", len(seq))
        return merged

    def merge_tree(self, tree, seq):
        if isinstance(tree, int):
            t = self.ExecutionTrace()
            t.merge(self.results[seq[tree]].execution_trace)
            self.col.count("transitions")
            return t
        left = self.merge_tree(tree[0], seq)
        right = self.merge_tree(tree[1], seq)
        left.merge(right)
        self.col.count("transitions")
        return left

    def diff_field(self, p, q):
        for name, a, b in zip(self.td.PROJECTION_FIELDS, p, q):
            if a != b:
                return name
        return "?"

    def values(self, seq):
        suite = self.lab.suite([self.chroms[i] for i in seq])
        out = {}
        for name, f in self.fitness:
            out["F:" + name] = f.compute_fitness(suite)
        for name, c in self.coverage:
            out["C:" + name] = c.compute_coverage(suite)
        self.col.count("function_evaluations", len(out))
        return out

    # ------------------------------------------------------------ oracles
    def check_merge(self, seq):
        col = self.col
        specs = [self.alphabet[i] for i in seq]
        proj = self.td.projection(self.fold(seq))
        col.distinct("states", (self.reg.name, proj))
        col.count("traces_validated_against_impl")
        ref = ref_merge(self.reg, specs)
        if proj != ref:
            col.violation(f"C11|merge|reference|{self.diff_field(proj, ref)}",
                          f"registry {self.reg.name}: analyze_results of {len(seq)} traces gives "
                          f"{proj}, reference merge {ref}", self.data(seq), rank=len(seq))
        key = tuple(sorted(seq))
        if key not in self.canon:
            self.canon[key] = proj if key == tuple(seq) else self.td.projection(self.fold(key))
        if proj != self.canon[key]:
            col.violation(f"C11|merge|order|{self.diff_field(proj, self.canon[key])}",
                          f"registry {self.reg.name}: merging {list(seq)} and {list(key)} (same "
                          f"multiset) gives different traces", self.data(seq), rank=len(seq))
        if len(seq) >= 2:
            for tree in _TREES[len(seq)]:
                col.count("traces_validated_against_impl")
                tp = self.td.projection(self.merge_tree(tree, seq))
                if tp != proj:
                    col.violation(f"C11|merge|grouping|{self.diff_field(tp, proj)}",
                                  f"registry {self.reg.name}: bracketing {tree} of {list(seq)} "
                                  f"differs from the left fold", self.data(seq, {"tree": repr(tree)}),
                                  rank=len(seq))
        # no merge may have changed an argument
        for i in set(seq):
            now = self.full_projection(self.results[i].execution_trace)
            if now != self.orig_proj[i]:
                col.violation(f"C11|merge|mutates-argument|{self.diff_field(now, self.orig_proj[i])}",
                              f"registry {self.reg.name}: merging {list(seq)} changed argument "
                              f"trace {i}", self.data(seq), rank=len(seq))
                # restore so that one defect does not cascade
                self.results[i].execution_trace = self.td.make_trace(self.reg, self.alphabet[i])
        return proj

    def check_monotone(self, before, after, seq_before, seq_after, added):
        col = self.col
        for key, new in after.items():
            old = before[key]
            col.count("monotonicity_checks")
            kind, name = key[0], key[2:]
            if kind == "C" and new < old:
                sig = "coverage-decreased"
            elif kind == "F" and new > old:
                sig = "fitness-increased"
            else:
                if new != old:
                    col.distinct("effects", (name, "changed"))
                continue
            cause = "plain"
            pb = dict(ref_merge(self.reg, [self.alphabet[i] for i in seq_before])[1])
            pa = dict(ref_merge(self.reg, [self.alphabet[i] for i in seq_after])[1])
            if any(pb.get(p, 0) < 2 <= c for p, c in pa.items()):
                cause = "hitcount-crossed-2"
            col.violation(f"C11|monotone|{name}|{sig}|{cause}",
                          f"registry {self.reg.name}: suite {list(seq_before)} has {name} = {old!r}, "
                          f"after adding test {added} it is {new!r}",
                          self.data(seq_after, {"added": added, "before": list(seq_before)}),
                          rank=len(seq_after))

    # ------------------------------------------------------------ short-lived results
    def check_lifetimes(self, first):
        """History independence across object lifetimes: a chromosome that is executed again REPLACES its
        execution result, the old one dies, and the allocator hands its address to the next result. For
        every ordered pair (first, j) and every ordered triple (first, j, k) of alphabet tests: analyse a
        short-lived result of `first`, drop it, then analyse short-lived results of j (and [j, k]): the
        merge must be the one of the traces handed in, whatever was analysed (and freed) before."""
        import copy

        col = self.col
        n = len(self.alphabet)

        def fresh(i, how):
            if how == "copy":
                return copy.copy(self.results[i])
            return self.lab.executor.execute(self.chroms[i].test_case)

        for how in ("copy", "execute"):
            for j in range(n):
                for tail in [()] + [(k,) for k in range(n)]:
                    seq2 = (j,) + tail
                    want = self.canon.get(tuple(sorted(seq2)))
                    if want is None:
                        want = ref_merge(self.reg, [self.alphabet[i] for i in seq2])
                    rs = [fresh(first, how) for _ in seq2]
                    self.analyze_results(rs)
                    del rs
                    rs = [fresh(i, how) for i in seq2]
                    got = self.td.projection(self.analyze_results(rs))
                    del rs
                    col.count("transitions", 2 * len(seq2))
                    col.count("lifetime_sequences")
                    if got != want:
                        col.violation(f"C11|merge|lifetime|{self.diff_field(got, want)}",
                                      f"registry {self.reg.name}: after analysing (and dropping) "
                                      f"{len(seq2)} short-lived result(s) of test {first}, fresh results "
                                      f"of {list(seq2)} merge to {got}, their traces to {want}",
                                      self.data(seq2, {"leg": "lifetime", "first": first, "how": how}),
                                      rank=len(seq2))

    # ------------------------------------------------------------ search
    def explore(self, first, max_len):
        col = self.col
        n = len(self.alphabet)
        empty_vals = self.values(())

        def dfs(seq, vals):
            proj = self.check_merge(seq)
            col.count("sequences")
            col.sample({"registry": self.reg.name, "sequence": list(seq),
                        "merged": [list(map(list, f)) if f and isinstance(f[0], tuple) else list(f)
                                   for f in proj]}, every=7919)
            if len(seq) <= FULL_EVAL_LEN:
                mine = self.values(seq)
                self.check_monotone(vals, mine, seq[:-1], seq, seq[-1])
            else:
                mine = None
                if tuple(sorted(seq)) == tuple(seq):
                    # length 4: the sorted arrangement of the multiset against every sub-multiset
                    mine = self.sorted_values(seq)
                    for k in sorted(set(seq)):
                        sub = list(seq)
                        sub.remove(k)
                        self.check_monotone(self.sorted_values(tuple(sub)), mine, tuple(sub), seq, k)
            if len(seq) < max_len:
                for i in range(n):
                    dfs(seq + (i,), mine)

        dfs((first,), empty_vals)

    def sorted_values(self, key):
        if key not in self.values_memo:
            self.values_memo[key] = self.values(key)
        return self.values_memo[key]


# ---------------------------------------------------------------- executed-assertion leg
def assertion_leg(col):
    """Traces with executed instructions + assertions: positions stay consistent after merging."""
    import pynguin.slicer.executedinstruction as ei
    from pynguin.instrumentation.tracer import ExecutedAssertion, ExecutionTrace

    class Marker:
        def __init__(self, tag):
            self.tag = tag
            self.checked_instructions = []

    def build(idx, n_instr, positions):
        t = ExecutionTrace()
        for k in range(n_instr):
            t.executed_instructions.append(
                ei.ExecutedInstruction("f.py", 0, 0, 1, None, 100 * idx + k, k))
        for p in positions:
            t.executed_assertions.append(ExecutedAssertion(p, Marker((idx, p))))
        return t

    shapes = [(0, ()), (1, (0,)), (2, (1,)), (3, (0, 2)), (2, ())]
    protos = [build(i, n, pos) for i, (n, pos) in enumerate(shapes)]

    def check(merged, seq, how):
        col.count("traces_validated_against_impl")
        exp_len = sum(shapes[i][0] for i in seq)
        exp_asserts = sum(len(shapes[i][1]) for i in seq)
        ok = (len(merged.executed_instructions) == exp_len
              and len(merged.executed_assertions) == exp_asserts)
        if ok:
            for a in merged.executed_assertions:
                src, pos = a.assertion.tag
                if not (0 <= a.trace_position < exp_len) or \
                        merged.executed_instructions[a.trace_position] is not \
                        protos[src].executed_instructions[pos]:
                    ok = False
        if not ok:
            col.violation("C11|merge|executed_assertions|position-inconsistent",
                          f"merging instruction traces {list(seq)} ({how}): an executed assertion "
                          f"no longer points at its own instruction",
                          {"leg": "assertions", "sequence": list(seq)}, rank=len(seq))

    def tree_merge(tree, seq):
        if isinstance(tree, int):
            t = ExecutionTrace()
            t.merge(protos[seq[tree]])
            col.count("transitions")
            return t
        left, right = tree_merge(tree[0], seq), tree_merge(tree[1], seq)
        left.merge(right)
        col.count("transitions")
        return left

    for k in (1, 2, 3):
        for seq in itertools.product(range(len(shapes)), repeat=k):
            for tree in _TREES[k]:
                check(tree_merge(tree, seq), seq, f"tree {tree}")
            col.distinct("states", ("assertion-leg", tuple(sorted(seq))))
    for i, (n, pos) in enumerate(shapes):
        if len(protos[i].executed_instructions) != n or len(protos[i].executed_assertions) != len(pos) \
                or any(a.trace_position != p for a, p in zip(protos[i].executed_assertions, pos)):
            col.violation("C11|merge|mutates-argument|executed_instructions",
                          "merge changed an argument's instruction/assertion lists",
                          {"leg": "assertions", "sequence": [i]}, rank=1)


# ---------------------------------------------------------------- shards / entry points
def shard(col, reg_name, first, max_len, cap):
    if reg_name == "<assertions>":
        assertion_leg(col)
        return
    m = Machine(col, reg_name, cap)
    m.explore(first, max_len)
    m.check_lifetimes(first)
    col.note(f"alphabet_{reg_name}", len(m.alphabet))


def run(ctx):
    import random

    from mc import par
    from mc import tracedomain as td

    max_len = 3 if ctx.quick else 4
    cap = None if ctx.quick else 28
    tasks = [("<assertions>", 0, 0, None)]
    expected = 0
    for name in td.registry_names(ctx.tier):
        reg = td.build_registry(name)
        a = len(td.reduced_alphabet(reg, cap))
        expected += sum(a ** k for k in range(1, max_len + 1))
        for first in range(a):
            tasks.append((name, first, max_len, cap))
    random.Random(ctx.seed).shuffle(tasks)
    par.run_shards("props.c11_merge_monotone:shard", tasks, ctx.workers, ctx)
    cnt = ctx.col.counters
    ctx.require(cnt.get("sequences", 0) == expected,
                f"enumerated {cnt.get('sequences', 0)} sequences, expected {expected}")
    ctx.require(len(ctx.col.sets.get("states", ())) > 100, "vacuous: too few merged states")
    effects = ctx.col.sets.get("effects", ())
    ctx.require(len(effects) >= 7, f"vacuous: only {len(effects)} functions ever changed value")
    ctx.note("max_sequence_length", max_len)
    ctx.note("registries", td.registry_names(ctx.tier))
    ctx.note("bracketings_per_length", {k: len(v) for k, v in _TREES.items() if k <= max_len})
    ctx.exhaustive = True
    ctx.rule = ("all ordered sequences (with repetition) of <= max_sequence_length traces of the "
                "reduced alphabet per registry; every bracketing; state = projection of the merged "
                "trace; reference = union / sum / min on the abstract specs")
    ctx.assume("alphabet traces respect the tracer's invariant (see C10); hit count 2 stands for "
               ">= 2; distances from {0, 5e-17, 0.5, 1, 7, inf}")
    ctx.assume("order independence is required of the coverage/fitness-relevant projection "
               "(executed code objects, hit counts, distances, covered and checked lines), not of "
               "the order of executed_instructions or of ordered-set iteration order")
    ctx.assume("for sequences of length 4 fitness/coverage are evaluated on the sorted "
               "arrangement of each multiset (projection equality of all arrangements is checked)")


def replay(ctx, data):
    if data.get("leg") == "assertions":
        assertion_leg(ctx.col)
        return
    m = Machine(ctx.col, data["registry"], None)
    if data.get("alphabet_size") != len(m.alphabet):
        m = Machine(ctx.col, data["registry"], data.get("alphabet_size"))
    if data.get("leg") == "lifetime":
        m.check_lifetimes(data["first"])
        return
    seq = tuple(data["sequence"])
    m.check_merge(seq)
    before = tuple(data.get("before", seq[:-1]))
    m.check_monotone(m.values(before), m.values(seq), before, seq, data.get("added", seq[-1]))
