"""C08 -- coverage exclusions remove exactly the excluded code from the goals.

Bounded-exhaustive enumeration (E3), differential against an independent region computation.

For every module of a corpus (all ``mc.progen`` programs up to a size bound + 18 hand-written modules
with if/elif/else, for/while...else, try/except/else/finally, match, nested / decorated / conditional
defs and classes, ``if __name__ == "__main__":`` and ``if TYPE_CHECKING:`` blocks) and every exclusion
configuration of a stated finite product

    placements of <= k markers (``# pragma: no cover`` / ``# pynguin: no cover``) on ANY line
    x the 4 enable/disable flag combinations of ``ToCoverConfiguration``
    x every (only_cover, no_cover) pair of subsets of the module's <= 3 scope names (conflicting ones too)

(quick: <= 1 marker x flags, and <= 1 marker x lists, for the hand-written modules and progen size <= 2; thorough:
the full three-way product for <= 1 marker plus exactly-2-marker placements x flags and x lists for those modules,
and <= 1 marker x flags plus the lists alone for progen size 3 -- see ``config_plan`` / ``mode_for``)

the marked source is imported through the REAL import hook (``install_import_hook`` ->
``InstrumentationFinder`` -> ``InstrumentationLoader`` -> ``InstrumentationTransformer``) for BRANCH+LINE
and the registries (line goals, predicates, code objects) are read.  The oracle is
``mc.exclusions.Expectation``: a three-valued (EXC / INC / ANY) classification of every source line
and scope written from ``docs/user/coverage.rst`` and the ``AstInfo`` docstrings only.  Checked:

* soundness -- no line goal, no predicate and no branch-less code object lies inside excluded code;
* completeness for lines -- every line goal of the marker-free default-configuration baseline whose line
  is outside excluded code (inside the only-cover scopes when given) is still a line goal;
* nothing is registered that the baseline does not have;
* a scope named in both lists, or an active marker on the ``def`` line of an only-cover scope, raises the
  documented ``ValueError`` (and nothing else raises anything);
* ``ignore_methods``: two ``install_import_hook`` calls in a row (same module; and module A then a
  same-shaped module B with ``ignore_methods`` naming only A's scopes) give the goals the documentation
  promises -- in-place accumulation in ``to_cover_config.no_cover`` shows up as B losing goals.

A violation is reported for the *minimal* configuration only: a (signature, line) pair that already
occurs with one configuration element removed is attributed to that smaller configuration.
"""

from __future__ import annotations

import itertools
import os

ID = "C08"
LEVEL = "exploration"


# ------------------------------------------------------------------ configurations
def sub_configs(cfg):
    placement, flags, only, no = cfg
    for i in range(len(placement)):
        yield (placement[:i] + placement[i + 1:], flags, only, no)
    for i in range(len(only)):
        yield (placement, flags, only[:i] + only[i + 1:], no)
    for i in range(len(no)):
        yield (placement, flags, only, no[:i] + no[i + 1:])
    if flags != (True, True):
        yield (placement, (True, True), only, no)


def config_plan(source, names, mode):
    """The configurations of one module.  mode: (max_markers, full_product, pairs)."""
    from mc import exclusions as ex

    max_markers, full_product, pair_legs = mode
    if max_markers == 0:
        # markers x flags, and the lists without markers
        plan = [(p, f, (), ()) for p in ex.placements(source, 1) for f in ex.flag_combinations()]
        plan += [((), (True, True), o, n) for o, n in ex.scope_lists(names) if o or n]
        plan.sort(key=lambda c: (len(c[0]) + len(c[2]) + len(c[3]), c[1] != (True, True), c))
        return plan
    lists = ex.scope_lists(names)
    flagsets = ex.flag_combinations()
    seen = set()
    out = []

    def add(p, f, o, n):
        c = (p, f, o, n)
        if c not in seen:
            seen.add(c)
            out.append(c)

    for p in ex.placements(source, 1 if max_markers >= 1 else 0):
        if full_product:
            for f in flagsets:
                for o, n in lists:
                    add(p, f, o, n)
        else:
            for f in flagsets:
                add(p, f, (), ())
            for o, n in lists:
                add(p, (True, True), o, n)
    if max_markers >= 2 and pair_legs:
        for p in ex.placements(source, 2):
            if len(p) < 2:
                continue
            for f in flagsets:
                add(p, f, (), ())
            for o, n in lists:
                add(p, (True, True), o, n)
    out.sort(key=lambda c: (len(c[0]) + len(c[2]) + len(c[3]), c[1] != (True, True), c))
    return out


# ------------------------------------------------------------------ one module
class BaselineError(Exception):
    """The module cannot even be instrumented without any exclusion (a defect outside the exclusion logic)."""


class ModuleRun:
    def __init__(self, col, name, source, names, scratch, kind):
        from mc import exclusions as ex

        self.ex = ex
        self.col, self.name, self.source, self.names = col, name, source, list(names)
        self.scratch, self.kind = scratch, kind
        self.model = ex.Model(source)
        self.cache = {}
        self.marked = {}
        self.base = self._load((), (True, True), (), ())
        again = self._load((), (True, True), (), ())
        if self.base.error is not None:
            raise BaselineError(self.base.error, self.base.error_text)
        if self.base.summary() != again.summary():
            raise RuntimeError(f"{name}: baseline not deterministic: {self.base.summary()} / {again.summary()}")

    def _load(self, placement, flags, only, no):
        ex = self.ex
        if placement not in self.marked:
            self.marked[placement] = (f"{self.name}_p{len(self.marked)}", ex.apply_markers(self.source, placement))
        modname, text = self.marked[placement]
        return ex.load(text, self.scratch, modname, ex.to_cover_configuration(flags, only, no))

    def result(self, cfg):
        """(observation, expectation, {(signature, line): (reason, detail)}) of one configuration (memoised)."""
        if cfg in self.cache:
            return self.cache[cfg]
        ex = self.ex
        placement, flags, only, no = cfg
        obs = self._load(placement, flags, only, no)
        exp = ex.Expectation(self.model, ex.active_markers(placement, flags), only, no)
        viol = {}
        for v in ex.judge(exp, self.base, obs):
            viol.setdefault((v["sig"], v["line"]), v)
        self.cache[cfg] = (obs, exp, viol)
        return self.cache[cfg]

    def config_label(self, cfg):
        """(kind label, construct label) from the configuration elements (used when no rule is to blame)."""
        placement, flags, only, no = cfg
        en = {"pragma": flags[0], "pynguin": flags[1]}
        kinds, cons = [], []
        for ln, k in placement:
            kinds.append(k if en[k] else f"{k}-disabled")
            cons.append(self.model.construct_at(ln))
        for lab, ns in (("only_cover", only), ("no_cover", no)):
            for n in ns:
                kinds.append(lab)
                ss = self.model.by_name.get(n, [])
                cons.append(ss[0].construct() if ss else "unknown-name")
        if not kinds:
            return "none", "none"
        return "+".join(sorted(set(kinds))), "+".join(sorted(set(cons)))

    def check(self, cfg):
        col = self.col
        obs, exp, viol = self.result(cfg)
        col.count("evaluations")
        placement, flags, only, no = cfg
        changed = obs.error is not None or obs.summary() != self.base.summary()
        if changed:
            col.distinct("nontrivial", (self.name, placement, flags, only, no))
        col.distinct("outcomes", ("raise" if obs.error else "changed" if changed else "same"))
        if obs.error:
            col.count("configs_raising")
            if exp.must_raise:
                col.count("conflicts_rejected_as_documented")
        if placement:
            col.count("configs_with_marker")
            for ln, _k in placement:
                col.distinct("marker_constructs", self.model.construct_at(ln))
        if only or no:
            col.count("configs_with_scope_list")
        if flags != (True, True):
            col.count("configs_with_flag_disabled")
        for st in exp.line[1:self.model.n + 1]:
            col.distinct("line_statuses", st)
        if changed and not obs.error:
            col.sample({"module": self.name, "markers": [list(x) for x in placement], "flags": list(flags),
                        "only_cover": list(only), "no_cover": list(no),
                        "baseline_lines": self.base.summary()["lines"], "lines": obs.summary()["lines"],
                        "predicates": obs.summary()["predicates"]}, every=997)
        if not viol:
            return
        inherited = set()
        for sub in sub_configs(cfg):
            inherited |= set(self.result(sub)[2])
        size = len(placement) + len(only) + len(no) + (flags != (True, True))
        for (sig, line), v in sorted(viol.items()):
            if (sig, line) in inherited:
                col.count("violations_attributed_to_smaller_configuration")
                continue
            detail = v["detail"]
            kind, construct = self.ex.label(exp, v, self.config_label(cfg))
            col.violation(f"C08|{kind}|{construct}|{sig}",
                          f"{self.name} markers={list(placement)} flags(pragma,pynguin)={flags} only_cover={list(only)} "
                          f"no_cover={list(no)}: {detail}",
                          {"leg": "config", "name": self.name, "source": self.source, "names": self.names,
                           "markers": [list(x) for x in placement], "flags": list(flags),
                           "only_cover": list(only), "no_cover": list(no)},
                          rank=size * 1000 + self.model.n)


# ------------------------------------------------------------------ ignore_methods leg
def ignore_methods_leg(col, name, source, names, scratch):
    """Two hooks in a row with ``config.configuration.ignore_methods`` (to_cover_config taken from the config).

    Differential: ``ignore_methods = [<module>.<name> ...]`` must register exactly what ``no_cover = [<name> ...]``
    registers (``ToCoverConfiguration.no_cover``: "Automatically include the methods of the ignore_methods
    argument") -- on the first hook and on a second hook for the same module; a second hook for ANOTHER module
    (same source, other name; ignore_methods still names only the first) must register the exclusion-free goals.
    """
    import pynguin.configuration as config

    from mc import exclusions as ex
    from mc import pyn

    model = ex.Model(source)
    base = ex.load(source, scratch, f"{name}_ig0", ex.to_cover_configuration())
    subsets = [s for r in range(1, len(names) + 1) for s in itertools.combinations(names, r)]
    for subset in subsets:
        equivalent = ex.load(source, scratch, f"{name}_ig1", ex.to_cover_configuration((True, True), (), subset))
        for scenario in ("same-module-twice", "other-module-after"):
            col.count("evaluations")
            col.count("ignore_methods_scenarios")
            pyn.reset_config()
            mod_a, mod_b = f"{name}_iga", f"{name}_igb"
            config.configuration.ignore_methods = [f"{mod_a}.{n}" for n in subset] + ["unrelated_module.f"]
            sequence = (mod_a, mod_a) if scenario == "same-module-twice" else (mod_a, mod_b)
            # to_cover=None: install_import_hook falls back to config.configuration.to_cover
            observations = [ex.load(source, scratch, modname, None) for modname in sequence]
            grown = list(config.configuration.to_cover.no_cover)
            if len(grown) != len(set(grown)):
                col.count("ignore_methods_no_cover_list_has_duplicates")
            expected = [equivalent, equivalent if sequence[1] == mod_a else base]
            ss = model.by_name.get(subset[0], [])
            construct = ss[0].construct() if ss else "unknown-name"
            for which, (obs, want) in enumerate(zip(observations, expected)):
                if obs.summary() == want.summary():
                    col.count("ignore_methods_hooks_as_documented")
                    continue
                sig = "ignore_methods-differs-from-no_cover" if which == 0 else "accumulates-across-hooks"
                col.violation(f"C08|ignore_methods|{construct}|{sig}",
                              f"{name} ignore_methods={[f'{mod_a}.{n}' for n in subset]} {scenario}: hook #{which + 1} "
                              f"(module {sequence[which]}; config.to_cover.no_cover is now {grown}) registers "
                              f"{obs.summary()}, expected {want.summary()}",
                              {"leg": "ignore", "name": name, "source": source, "names": list(names)},
                              rank=len(subset) * 1000 + model.n)
    pyn.reset_config()


# ------------------------------------------------------------------ shards
def corpus(tier):
    from mc import exclusions as ex
    from mc import progen

    out = []
    for name, names, src in ex.hand_seeds():
        out.append((name, src, names, "hand"))
    n = 2 if tier == "quick" else 3
    for name, src, meta in progen.programs(n, 2):
        out.append((name, src, None, f"progen{meta['size']}"))
    return out


def mode_for(kind, tier):
    """(max markers, full 3-D product?, 2-marker legs?)."""
    if tier == "quick":
        return (1, False, False)          # two 2-D slices: markers x flags, markers x lists
    if kind not in ("hand", "progen1", "progen2"):
        return (0, False, False)          # progen size 3: markers x flags, and the lists alone
    return (2, True, True)                # full 3-D product for <= 1 marker, the two slices for exactly 2 markers


def shard(col, tier, k, nshards, seed):
    import logging

    from mc import pyn

    logging.disable(logging.CRITICAL)      # "Target scope name ... not found" warnings of the code under test
    pyn.reset_config()
    scratch = os.path.join("/dev/shm" if os.path.isdir("/dev/shm") else "/tmp", f"verif_c08_{os.getpid()}")
    os.makedirs(scratch, exist_ok=True)
    try:
        jobs = work_items(tier)
        for i, (name, src, names, kind, lo, hi) in enumerate(jobs):
            if i % nshards != k:
                continue
            _run_item(col, name, src, names, kind, lo, hi, tier, scratch)
    finally:
        import shutil
        shutil.rmtree(scratch, ignore_errors=True)


def work_items(tier):
    """(module, slice of its configuration plan) items of roughly equal cost, deterministic order."""
    from mc import exclusions as ex

    chunk = 700 if tier == "quick" else 2500
    items = []
    for name, src, names, kind in corpus(tier):
        if names is None:
            names = ex.Model(src).names()[:3]
        plan_len = len(config_plan(src, names, mode_for(kind, tier)))
        for lo in range(0, plan_len, chunk):
            items.append((name, src, names, kind, lo, min(plan_len, lo + chunk)))
    items.sort(key=lambda it: (-(it[5] - it[4]), it[0], it[4]))
    return items


def _run_item(col, name, src, names, kind, lo, hi, tier, scratch):
    import shutil

    from mc import pyn

    pyn.reset_config()
    sub = os.path.join(scratch, name)
    os.makedirs(sub, exist_ok=True)
    try:
        try:
            run = ModuleRun(col, name, src, names, sub, kind)
        except BaselineError as exc:
            col.count("configurations_skipped_module_not_instrumentable", hi - lo)
            if lo == 0:
                col.count("modules")
                col.count("modules_not_instrumentable")
                col.violation(f"C08|none|none|raises:{exc.args[0]}",
                              f"{name}: importing through the instrumentation hook without any exclusion raised "
                              f"{exc.args[0]}: {exc.args[1]}; its configurations are skipped",
                              {"leg": "config", "name": name, "source": src, "names": list(names), "markers": [],
                               "flags": [True, True], "only_cover": [], "no_cover": []}, rank=1)
            return
        plan = config_plan(src, names, mode_for(kind, tier))
        if lo == 0:
            col.count("modules")
            col.count(f"modules_{'hand' if kind == 'hand' else 'progen'}")
            col.count("baseline_line_goals", len(run.base.lines))
            for s in run.model.scopes[1:]:
                col.distinct("scope_constructs", s.construct())
            if names:
                ignore_methods_leg(col, name, src, names, sub)
        for cfg in plan[lo:hi]:
            run.check(cfg)
    finally:
        shutil.rmtree(sub, ignore_errors=True)


# ------------------------------------------------------------------ entry points
def run(ctx):
    from mc import par

    nshards = max(1, ctx.workers)
    order = list(range(nshards))
    if ctx.seed:
        order = order[ctx.seed % nshards:] + order[:ctx.seed % nshards]
    par.run_shards("props.c08_exclusions:shard", [(ctx.tier, k, nshards, ctx.seed) for k in order], ctx.workers, ctx)
    c = ctx.col.counters
    items = work_items(ctx.tier)
    planned = sum(hi - lo for *_x, lo, hi in items)
    done = (c.get("evaluations", 0) - c.get("ignore_methods_scenarios", 0)
            + c.get("configurations_skipped_module_not_instrumentable", 0))
    ctx.require(done == planned, f"evaluated {c.get('evaluations')} configurations, planned {planned}")
    ctx.require(len(ctx.col.sets.get("outcomes", ())) == 3, "vacuous: raise / changed / same not all observed")
    ctx.require(len(ctx.col.sets.get("line_statuses", ())) == 3, "vacuous: EXC / INC / ANY not all produced by the oracle")
    need = {"if-header", "elif", "else", "loop-else", "try-header", "except", "try-else", "finally", "case",
            "match-header", "for-header", "while-header", "with-header", "def", "class", "decorator", "main-guard",
            "type-checking", "simple", "blank<else", "blank<elif", "blank<finally", "blank<except"}
    got = ctx.col.sets.get("marker_constructs", set())
    ctx.require(need <= got, f"vacuity: no marker ever placed on {sorted(need - got)}")
    need_s = {"def", "method", "class", "nested-def", "nested-class", "decorated-def", "def-in-compound"}
    ctx.require(need_s <= ctx.col.sets.get("scope_constructs", set()), "vacuity: a scope construct is missing")
    ctx.require(c.get("conflicts_rejected_as_documented", 0) > 0, "vacuous: no conflicting configuration was rejected")
    ctx.require(c.get("configs_with_flag_disabled", 0) > 0 and c.get("configs_with_scope_list", 0) > 0
                and c.get("configs_with_marker", 0) > 0, "vacuous: a configuration dimension was never used")
    ctx.note("corpus", {"modules": c.get("modules"), "hand_written": c.get("modules_hand"),
                        "progen": c.get("modules_progen")})
    ctx.note("plan", "quick (hand-written + progen size <= 2): <= 1 marker x 4 flag combinations (no lists) + <= 1 marker "
                     "x all list pairs (default flags); thorough: hand-written + progen size <= 2: <= 1 marker x flags x "
                     "lists (full product) plus exactly-2-marker placements x flags and x lists; progen size 3: <= 1 "
                     "marker x flags, and all list pairs without markers")
    ctx.exhaustive = True
    ctx.rule = ("one evaluation = one (module, marker placement, flag combination, only_cover, no_cover) configuration "
                "imported through the real hook and compared with the independent region oracle (plus the "
                "ignore_methods double-hook scenarios); non-trivial = the configuration changed the registered goal "
                "set or raised")
    ctx.assume("oracle written from docs/user/coverage.rst and the AstInfo docstrings; lenient (ANY) where they leave "
               "latitude: with-bodies under a marked header, decorator-line markers, else-parts of main/TYPE_CHECKING "
               "ifs and such ifs below module level, def lines of scopes excluded by name, enclosing scopes of "
               "only-cover scopes")
    ctx.assume("executable line := line goal of the marker-free default-configuration baseline (same instrumentation)")
    ctx.assume("no multi-line statements and no one-line compound statements in the corpus; CPython 3.12")


def replay(ctx, data):
    import logging

    from mc import pyn

    logging.disable(logging.CRITICAL)
    pyn.reset_config()
    scratch = ctx.scratch()
    if data.get("leg") == "ignore":
        ignore_methods_leg(ctx.col, data["name"], data["source"], data["names"], scratch)
        return
    try:
        run = ModuleRun(ctx.col, data["name"], data["source"], data["names"], scratch, "replay")
    except BaselineError as exc:
        ctx.col.violation(f"C08|none|none|raises:{exc.args[0]}", f"{data['name']}: not instrumentable: {exc.args[1]}",
                          data, rank=1)
        return
    cfg = (tuple(tuple(x) for x in data["markers"]), tuple(data["flags"]), tuple(data["only_cover"]),
           tuple(data["no_cover"]))
    run.check(cfg)
