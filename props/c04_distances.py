"""C04 — branch distances are non-negative and zero exactly for the outcome taken.

Bounded-exhaustive value enumeration (E3) against plain CPython semantics:

* compare leg: ALL ordered pairs of the adversarial alphabet ``mc.values`` (plus, for
  every value, the pair in which both operands are the *same* object) x the 10
  comparison kinds ``ExecutionTracer.executed_compare_predicate`` supports
  (``PynguinCompare`` without ``EXC_MATCH``) x the auxiliary membership predicate
  ``executed_in_presence_predicate`` (kind ``IN_PRESENCE``, oracle ``key in container``
  as its docstring says);
* bool leg: every single value through ``executed_bool_predicate``;
* exception leg: every (raised class | raised instance) x every matcher (classes of a
  small hierarchy with a diamond, a ``__subclasscheck__`` metaclass and an ABC
  registration, tuples, nested tuples, non-exception matchers) through
  ``executed_exception_match``; the reference is a real ``try/except``.

Per evaluation: Python's own operator is applied to fresh copies (truth, or the
exception type it raises, the user-operator log, what is left in one-shot iterators);
then the real tracer callback is called through the real
``InstrumentationExecutionTracer`` proxy on a fresh real ``ExecutionTracer`` entered on
this thread, with a predicate registered in real ``SubjectProperties``. The distances
handed to ``_update_metrics`` (observed by an instance-level spy that then calls the
real method) and the ones recorded in the trace are checked against the statement.

Lenient readings (said so in the report): user-operator calls are compared as *sets* of
(operand, dunder) – calling the same dunder twice is not "extra"; when Python's operator
raises, a tracer that raises the same type is accepted and nothing is required of any
distances.
"""

from __future__ import annotations

import math

from mc import values as val

ID = "C04"
LEVEL = "exploration"

CMP_KINDS = ("LT", "LE", "EQ", "NE", "GT", "GE", "IN", "NOT_IN", "IS", "IS_NOT")
ALL_PAIR_KINDS = CMP_KINDS + ("IN_PRESENCE",)
NSHARDS = 32

PY_OPS = {
    "LT": lambda a, b: a < b,
    "LE": lambda a, b: a <= b,
    "EQ": lambda a, b: a == b,
    "NE": lambda a, b: a != b,
    "GT": lambda a, b: a > b,
    "GE": lambda a, b: a >= b,
    "IN": lambda a, b: a in b,
    "NOT_IN": lambda a, b: a not in b,
    "IS": lambda a, b: a is b,
    "IS_NOT": lambda a, b: a is not b,
    "IN_PRESENCE": lambda a, b: a in b,
}


# ---------------------------------------------------------------- the statement as code
def is_nan(d) -> bool:
    return isinstance(d, float) and d != d


def classify(dt, df, truth):
    """Signatures of a (true-distance, false-distance) pair against the outcome ``truth``.

    ``truth`` is True/False (what Python's operator produced) or None (unknown: only
    the value constraints are checked).
    """
    sigs = []
    nan = is_nan(dt) or is_nan(df)
    if nan:
        sigs.append("nan-distance")
    if (not is_nan(dt) and dt < 0) or (not is_nan(df) and df < 0):
        sigs.append("negative-distance")
    zt, zf = dt == 0, df == 0
    if zt and zf:
        sigs.append("both-zero")
    elif not zt and not zf:
        if not nan:
            sigs.append("none-zero")
    elif truth is not None and (zt != truth):
        sigs.append("wrong-zero-side")
    return sigs


def classify_selftest():
    inf, nan = math.inf, math.nan
    exp = [((0.0, 1.0, True), []), ((3, 0, False), []), ((inf, 0.0, False), []),
           ((0.0, 1.0, False), ["wrong-zero-side"]), ((1.0, 0.0, True), ["wrong-zero-side"]),
           ((0.0, 0.0, True), ["both-zero"]), ((1.0, inf, True), ["none-zero"]),
           ((nan, 0.0, False), ["nan-distance"]), ((nan, 1.0, False), ["nan-distance"]),
           ((0.0, nan, False), ["nan-distance", "wrong-zero-side"]),
           ((-1.0, 0.0, False), ["negative-distance"]),
           ((0.0, -2.0, True), ["negative-distance"]), ((0.0, 0, None), ["both-zero"])]
    for args, want in exp:
        got = classify(*args)
        if got != want:
            raise AssertionError(f"classify{args} = {got}, expected {want}")


# ---------------------------------------------------------------- real tracer binding
class Env:
    """Real SubjectProperties with one registered predicate; a fresh tracer per evaluation."""

    def __init__(self):
        from pynguin.instrumentation import PynguinCompare
        from pynguin.instrumentation.tracer import (ExecutionTracer, PredicateMetaData,
                                                    SubjectProperties)
        self.ExecutionTracer = ExecutionTracer
        self.sp = SubjectProperties()
        node = self._real_node()
        self.pid = self.sp.register_predicate(PredicateMetaData(line_no=1, code_object_id=0,
                                                                node=node))
        self.proxy = self.sp.instrumentation_tracer
        self.cmp = {k: PynguinCompare[k] for k in CMP_KINDS}
        self.supported = [m.name for m in PynguinCompare]

    @staticmethod
    def _real_node():
        try:
            from bytecode import Bytecode
            from pynguin.instrumentation.controlflow import CFG

            def f(x, y):
                if x < y:
                    return 1
                return 0

            cfg = CFG.from_bytecode(Bytecode.from_code(f.__code__))
            return cfg.first_basic_block_node or object()
        except Exception:  # noqa: BLE001 - the node is only registry metadata
            return object()

    def call(self, fn):
        """One tracer callback ``fn(proxy, predicate_id)`` on a fresh tracer -> observation dict."""
        tr = self.ExecutionTracer()
        seen = []
        real = tr._update_metrics

        def spy(distance_false, distance_true, predicate):
            seen.append((distance_true, distance_false))
            return real(distance_false, distance_true, predicate)

        tr._update_metrics = spy
        self.proxy.tracer = tr
        raised = None
        val.oplog_clear()
        try:
            with self.proxy as p:
                fn(p, self.pid)
        except Exception as exc:  # noqa: BLE001
            raised = type(exc).__name__
        log = set(val.oplog_snapshot())
        trace = tr.get_trace()
        rec = None
        if self.pid in trace.true_distances or self.pid in trace.false_distances:
            rec = (trace.true_distances.get(self.pid), trace.false_distances.get(self.pid))
        return {"raised": raised, "log": log, "computed": seen[-1] if seen else None,
                "recorded": rec, "count": trace.executed_predicates.get(self.pid, 0),
                "disabled": tr.is_disabled()}


def python_outcome(fn, *args):
    """('T'|'F'|'raise:<Exc>', operator log) of Python's own operator on these objects."""
    val.oplog_clear()
    try:
        out = "T" if fn(*args) else "F"
    except Exception as exc:  # noqa: BLE001
        out = "raise:" + type(exc).__name__
    return out, set(val.oplog_snapshot())


def fmt(d):
    if d is None:
        return "-"
    return repr(float(d)) if isinstance(d, (int, float)) and not isinstance(d, bool) else repr(d)


def shape(d):
    if d is None:
        return "-"
    if is_nan(d):
        return "nan"
    if d == 0:
        return "0"
    if d < 0:
        return "neg"
    if d == math.inf:
        return "inf"
    return "pos"


def judge(py, ref_log, obs, drained_ref, drained_tr):
    """All signatures of one evaluation (the oracle, straight from the statement)."""
    sigs = []
    truth = {"T": True, "F": False}.get(py)
    py_exc = py[6:] if truth is None else None
    dist = obs["computed"] if obs["computed"] is not None else obs["recorded"]
    # value constraints on whatever distances the tracer produced (truth None: no side check)
    dsigs = classify(dist[0], dist[1], truth) if dist is not None else []
    # an AssertionError out of _update_metrics is the symptom of the bad distances, not a second defect
    explained = obs["raised"] == "AssertionError" and obs["computed"] is not None and bool(dsigs)
    if py_exc is not None:
        # Python's operator raises: the tracer may raise the same type (nothing else is required)
        # Lenient reading of "raises only if the comparison itself raises": the tracer is not
        # obliged to raise; in instrumented code the comparison itself raises right afterwards,
        # so a distance recorded for an evaluation that produces no outcome is unobservable.
        if obs["raised"] is None:
            pass
        elif obs["raised"] != py_exc:
            sigs.extend(dsigs if explained else ["raises:" + obs["raised"]])
    else:
        sigs.extend(dsigs)
        if obs["raised"] is not None:
            if not explained:
                sigs.append("raises:" + obs["raised"])
        elif obs["recorded"] is None or obs["count"] != 1:
            sigs.append("not-recorded")
        elif obs["computed"] is not None and not is_nan(obs["computed"][0]) \
                and not is_nan(obs["computed"][1]) and tuple(obs["recorded"]) != tuple(obs["computed"]):
            sigs.append("recorded-differs")
    for (_role, dunder) in sorted(obs["log"] - ref_log):
        s = "extra-operator:" + dunder
        if s not in sigs:
            sigs.append(s)
    if drained_ref != drained_tr:
        sigs.append("iterator-consumed")
    if obs["disabled"]:
        sigs.append("tracer-left-disabled")
    return sigs


# ---------------------------------------------------------------- fingerprints
ORD_EQ = ("LT", "LE", "GT", "GE", "EQ", "NE", "IS", "IS_NOT")
ITERABLE_FAMILIES = ("str", "bytes", "container", "iterator")
# value traits a failure signature can depend on (substring of the class label)
TRAITS = {"nan-distance": ("nan", "inf"), "none-zero": ("nan",), "raises:OverflowError": ("1e308",)}


def base_type(v):
    """Class label without value traits: ``float:nan`` -> ``float``, ``int>2^53`` -> ``int``."""
    return v.coarse.split(":")[0].split(">")[0] if v.family != "user" else v.coarse


def user_side(v, kind):
    """Label of one operand of a pair that involves a generated user class."""
    if val.is_generated_user(v):
        return "user"
    if kind in ORD_EQ:  # for ordering/equality only "is it a user object with operators" matters
        return v.coarse if v.coarse == "user:eq-nohash" else "other"
    return v.coarse if v.family == "user" else v.family


def fp_classes(kind, va, vb, sig):
    """Class pair of a fingerprint, projected to what the failure signature can depend on.

    One defect must be a handful of fingerprints, so the 40-odd value classes are not
    simply multiplied out:

    * ``tracer-left-disabled``: one defect whatever the values are -> ``any,any``;
    * ``extra-operator:*``: user object or not (``user`` / ``other``);
    * ``iterator-consumed``: operand families;
    * ``swallowed:*`` of the membership kinds: family of the right operand, and the
      family of the left operand only if the right one is iterable at all
      (``any`` otherwise: nothing is ``in`` a number);
    * a pair with a generated user class (190 classes -> ``user``): the partner is
      ``other`` for ordering/equality kinds, its family for membership kinds;
    * ``nan-distance`` / ``none-zero`` / ``raises:OverflowError``: the operand carrying the
      trait (NaN/inf, NaN, > 1e308) by its class, the other operand by family;
    * other ``raises:*``: base types without value traits (``decimal,float``);
    * everything else (both-zero, none-zero, wrong-zero-side, negative-distance, ...):
      the value classes of ``mc.values`` (all ints > 2**53 are one class).
    """
    if sig == "tracer-left-disabled":
        return "any,any"
    ua, ub = val.is_generated_user(va), val.is_generated_user(vb)
    if sig.startswith("extra-operator:"):
        return f"{'user' if va.family == 'user' else 'other'},{'user' if vb.family == 'user' else 'other'}"
    if sig == "iterator-consumed":
        return f"{va.family},{vb.family}"
    if sig.startswith("swallowed:") and kind not in ORD_EQ:
        return f"{va.family if vb.family in ITERABLE_FAMILIES else 'any'},{vb.family}"
    if ua or ub:
        return f"{user_side(va, kind)},{user_side(vb, kind)}"
    traits = TRAITS.get(sig)
    if traits:
        ta = any(t in va.coarse for t in traits)
        tb = any(t in vb.coarse for t in traits)
        if ta or tb:
            return f"{va.coarse if ta else va.family},{vb.coarse if tb else vb.family}"
    if sig.startswith("raises:"):
        return f"{base_type(va)},{base_type(vb)}"
    return f"{va.coarse},{vb.coarse}"


# ---------------------------------------------------------------- compare leg
def eval_pair(col, env, kind, va, vb, same, n_alpha):
    # 1. Python's own operator on fresh copies
    a1 = val.set_role(va.make(), "LR" if same else "L")
    b1 = a1 if same else val.set_role(vb.make(), "R")
    py, ref_log = python_outcome(PY_OPS[kind], a1, b1)
    drained_ref = (val.remaining(a1) if va.oneshot else None,
                   val.remaining(b1) if vb.oneshot and not same else None)
    # 2. the real tracer on other fresh copies
    a2 = val.set_role(va.make(), "LR" if same else "L")
    b2 = a2 if same else val.set_role(vb.make(), "R")
    if kind == "IN_PRESENCE":
        obs = env.call(lambda p, pid: p.executed_in_presence_predicate(a2, b2, pid))
    else:
        op = env.cmp[kind]
        obs = env.call(lambda p, pid: p.executed_compare_predicate(a2, b2, pid, op))
    drained_tr = (val.remaining(a2) if va.oneshot else None,
                  val.remaining(b2) if vb.oneshot and not same else None)
    sigs = judge(py, ref_log, obs, drained_ref, drained_tr)
    col.count("evaluations")
    col.count("traces_validated_against_impl")
    col.distinct("outcomes", f"{kind}:{py[:5]}")
    dist = obs["computed"] or obs["recorded"]
    shp = (shape(dist[0]), shape(dist[1])) if dist else ("-", "-")
    cell = f"{kind}|{va.coarse},{vb.coarse}|{py}|{shp[0]},{shp[1]}|{obs['raised']}"
    new = col.distinct("cells", cell)
    if kind not in ("IS", "IS_NOT") and (shp[0] in ("pos", "nan", "neg") or shp[1] in ("pos", "nan", "neg")
                                         or py.startswith("raise") or obs["raised"]):
        col.distinct("nontrivial", cell)
    for (_r, d) in ref_log:
        col.distinct("dunders_fired", d)
    if new:
        col.sample({"kind": kind, "a": va.label, "b": vb.label, "same_object": same, "python": py,
                    "true_distance": fmt(dist[0]) if dist else None,
                    "false_distance": fmt(dist[1]) if dist else None,
                    "tracer_raised": obs["raised"], "signatures": sigs}, every=97)
    if sigs:
        col.count("violating_evaluations")
        rank = (va.index + vb.index) * 4 * n_alpha + va.index * 2 + (1 if same else 0)
        what = (f"{kind}({va.label}, {vb.label}{' [same object]' if same else ''}): Python -> {py}; "
                f"tracer -> {'raised ' + obs['raised'] if obs['raised'] else 'ok'}, "
                f"true={fmt(dist[0]) if dist else '-'} false={fmt(dist[1]) if dist else '-'}")
        for s in sigs:
            col.violation(f"C04|{kind}|{fp_classes(kind, va, vb, s)}|{s}", what + f" [{s}]",
                          {"leg": "cmp", "kind": kind, "a": va.label, "b": vb.label, "same": same},
                          rank=rank)
    return py, obs, sigs


# ---------------------------------------------------------------- bool leg
def eval_bool(col, env, va, n_alpha):
    a1 = val.set_role(va.make(), "L")
    py, ref_log = python_outcome(bool, a1)
    drained_ref = val.remaining(a1) if va.oneshot else None
    a2 = val.set_role(va.make(), "L")
    obs = env.call(lambda p, pid: p.executed_bool_predicate(a2, pid))
    drained_tr = val.remaining(a2) if va.oneshot else None
    sigs = judge(py, ref_log, obs, drained_ref, drained_tr)
    col.count("evaluations")
    col.count("traces_validated_against_impl")
    col.count("bool_evaluations")
    col.distinct("outcomes", f"BOOL:{py[:5]}")
    dist = obs["computed"] or obs["recorded"]
    shp = (shape(dist[0]), shape(dist[1])) if dist else ("-", "-")
    cell = f"BOOL|{va.coarse}|{py}|{shp[0]},{shp[1]}|{obs['raised']}"
    col.distinct("cells", cell)
    col.distinct("nontrivial", cell)
    if sigs:
        col.count("violating_evaluations")
        what = (f"bool({va.label}): Python -> {py}; tracer -> "
                f"{'raised ' + obs['raised'] if obs['raised'] else 'ok'}, "
                f"true={fmt(dist[0]) if dist else '-'} false={fmt(dist[1]) if dist else '-'}")
        for s in sigs:
            cls = "any" if s == "tracer-left-disabled" else va.coarse
            col.violation(f"C04|BOOL|{cls},-|{s}", what + f" [{s}]",
                          {"leg": "bool", "a": va.label}, rank=va.index)


# ---------------------------------------------------------------- exception leg
def exception_cases():
    """(raised things, matchers); each entry (label, class-label, factory)."""
    import abc

    class E0(Exception):
        pass

    class E1(E0):
        pass

    class E2(E1):
        pass

    class F0(Exception):
        pass

    class M(E1, F0):  # diamond below Exception
        pass

    class B0(BaseException):
        pass

    class VirtMeta(type):
        def __subclasscheck__(cls, sub):  # CPython's exception matching ignores this
            return True

        def __instancecheck__(cls, inst):
            return True

    class Virt(Exception, metaclass=VirtMeta):
        pass

    class AbcErr(Exception, metaclass=abc.ABCMeta):
        pass

    AbcErr.register(F0)

    classes = [("E0", E0), ("E1", E1), ("E2", E2), ("F0", F0), ("M", M), ("B0", B0),
               ("ValueError", ValueError), ("KeyError", KeyError), ("Virt", Virt), ("AbcErr", AbcErr)]
    raised = []
    for name, c in classes:
        raised.append((f"inst:{name}", "inst", (lambda c=c: c())))
        raised.append((f"class:{name}", "class", (lambda c=c: c)))
    matchers = [(name, {"Virt": "subclasscheck-metaclass", "AbcErr": "abc-registered"}.get(name, "class"),
                 (lambda c=c: c)) for name, c in classes]
    matchers += [
        ("Exception", "class", lambda: Exception),
        ("LookupError", "class", lambda: LookupError),
        ("BaseException", "class", lambda: BaseException),
        ("(E1,F0)", "tuple", lambda: (E1, F0)),
        ("(ValueError,KeyError)", "tuple", lambda: (ValueError, KeyError)),
        ("()", "tuple", lambda: ()),
        ("(F0,(E2,))", "nested-tuple", lambda: (F0, (E2,))),
        ("(Virt,)", "subclasscheck-metaclass", lambda: (Virt,)),
        ("object", "non-exception", lambda: object),
        ("int", "non-exception", lambda: int),
        ("None", "non-exception", lambda: None),
        ("5", "non-exception", lambda: 5),
        ("'E0'", "non-exception", lambda: "E0"),
        ("(E0,int)", "tuple-with-non-exception", lambda: (E0, int)),
        ("(int,E0)", "tuple-with-non-exception", lambda: (int, E0)),
    ]
    return raised, matchers


def py_exc_match(err, exc):
    inst = err() if isinstance(err, type) else err
    try:
        try:
            raise inst
        except exc:
            return "T"
    except BaseException as e:  # noqa: BLE001
        if e is inst:
            return "F"
        return "raise:" + type(e).__name__


def eval_exc(col, env, r, m, rank):
    rl, rc, rmake = r
    ml, mc_, mmake = m
    py = py_exc_match(rmake(), mmake())
    err, exc = rmake(), mmake()
    obs = env.call(lambda p, pid: p.executed_exception_match(err, exc, pid))
    sigs = judge(py, set(), obs, None, None)
    col.count("evaluations")
    col.count("traces_validated_against_impl")
    col.count("exception_evaluations")
    col.distinct("outcomes", f"EXC_MATCH:{py[:5]}")
    dist = obs["computed"] or obs["recorded"]
    cell = f"EXC_MATCH|{rc},{mc_}|{py}|{obs['raised']}"
    col.distinct("cells", cell)
    col.distinct("nontrivial", cell)
    if sigs:
        col.count("violating_evaluations")
        what = (f"except-match(raised {rl}, matcher {ml}): Python -> {py}; tracer -> "
                f"{'raised ' + obs['raised'] if obs['raised'] else 'ok'}, "
                f"true={fmt(dist[0]) if dist else '-'} false={fmt(dist[1]) if dist else '-'}")
        for s in sigs:
            cls = "any,any" if s == "tracer-left-disabled" else f"{rc},{mc_}"
            col.violation(f"C04|EXC_MATCH|{cls}|{s}", what + f" [{s}]",
                          {"leg": "exc", "raised": rl, "matcher": ml}, rank=rank)


# ---------------------------------------------------------------- shards
def shard(col, tier, seed, idx, nshards):
    env = Env()
    alpha = val.alphabet(tier)
    n = len(alpha)
    for i, va in enumerate(alpha):
        if (i + seed) % nshards != idx:
            continue
        col.count("rows")
        for kind in ALL_PAIR_KINDS:
            for vb in alpha:
                eval_pair(col, env, kind, va, vb, False, n)
            eval_pair(col, env, kind, va, va, True, n)
    if idx == seed % nshards:
        for va in alpha:
            eval_bool(col, env, va, n)
        raised, matchers = exception_cases()
        k = 0
        for r in raised:
            for m in matchers:
                eval_exc(col, env, r, m, k)
                k += 1
        col.note("exception_raised_forms", len(raised))
        col.note("exception_matchers", len(matchers))
        col.note("tracer_compare_kinds", [k for k in env.supported])


def run(ctx):
    from mc.par import run_shards

    classify_selftest()
    alpha = val.alphabet(ctx.tier)
    n = len(alpha)
    run_shards("props.c04_distances:shard",
               [(ctx.tier, ctx.seed, i, NSHARDS) for i in range(NSHARDS)], ctx.workers, ctx)
    c = ctx.col.counters
    raised, matchers = exception_cases()
    expect = n * (n + 1) * len(ALL_PAIR_KINDS) + n + len(raised) * len(matchers)
    ctx.require(c.get("rows") == n, f"not every alphabet row was enumerated ({c.get('rows')} of {n})")
    ctx.require(c.get("evaluations") == expect,
                f"evaluations {c.get('evaluations')} != size of the stated space {expect}")
    outcomes = ctx.col.sets.get("outcomes", set())
    for kind in ALL_PAIR_KINDS + ("BOOL", "EXC_MATCH"):
        for o in ("T", "F"):
            ctx.require(f"{kind}:{o}" in outcomes, f"vacuous: kind {kind} never produced outcome {o}")
    for kind in ("LT", "LE", "GT", "GE", "EQ", "NE", "IN", "NOT_IN", "IN_PRESENCE", "BOOL", "EXC_MATCH"):
        ctx.require(f"{kind}:raise" in outcomes, f"vacuous: Python's {kind} never raised")
    fired = ctx.col.sets.get("dunders_fired", set())
    for d in val.RICH + ("__hash__", "__contains__", "__iter__", "__eq__"):
        ctx.require(d in fired, f"vacuous: user operator {d} was never called by a plain operator")
    ctx.require(len(ctx.col.sets.get("nontrivial", ())) >= 50, "vacuous: too few distinct non-trivial cells")
    # every comparison kind of the tracer is either enumerated or deliberately excluded
    kinds = ctx.col.notes.get("tracer_compare_kinds", [])
    ctx.require(sorted(kinds) == sorted(CMP_KINDS + ("EXC_MATCH",)),
                f"PynguinCompare members changed: {kinds}")
    ctx.note("alphabet_size", n)
    ctx.note("alphabet_non_user", [v.label for v in alpha if v.coarse != "user"])
    ctx.note("generated_user_classes", sum(1 for v in alpha if v.coarse == "user"))
    ctx.note("ordered_pairs_incl_same_object", n * (n + 1))
    ctx.note("kinds", list(ALL_PAIR_KINDS) + ["BOOL", "EXC_MATCH"])
    ctx.exhaustive = True
    ctx.rule = ("one evaluation = one (kind, operand objects) case run through Python's operator and "
                "through the real tracer callback; distinct = distinct (kind, value-class pair, Python "
                "outcome, shape of the true/false distance in {0,pos,inf,nan,neg}, tracer exception) cell; "
                "non-trivial = cell not of kind IS/IS_NOT in which a distance is positive-finite/NaN/"
                "negative or Python or the tracer raised")
    ctx.assume("values are drawn from the mc.values alphabet of this tier; results of rich comparisons are "
               "bool or NotImplemented (no array-like truth values)")
    ctx.assume("user-operator calls are compared as sets of (operand, dunder); repeated calls of a dunder "
               "the plain operator also makes are not counted as extra")
    ctx.assume("the distances judged are the ones handed to ExecutionTracer._update_metrics (instance-level "
               "spy that calls the real method) and, when recorded, the ones in the ExecutionTrace")


def replay(ctx, data):
    env = Env()
    col = ctx.col
    if data["leg"] == "cmp":
        lab = val.by_label("thorough")
        n = len(lab)
        va, vb = lab[data["a"]], lab[data["b"]]
        eval_pair(col, env, data["kind"], va, vb, bool(data.get("same")), n)
    elif data["leg"] == "bool":
        lab = val.by_label("thorough")
        eval_bool(col, env, lab[data["a"]], len(lab))
    else:
        raised, matchers = exception_cases()
        r = next(x for x in raised if x[0] == data["raised"])
        m = next(x for x in matchers if x[0] == data["matcher"])
        eval_exc(col, env, r, m, 0)
