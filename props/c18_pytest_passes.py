"""C18 — generated test files pass when run against the module under test.

E2 population (every test case the real factory builds with <= d RNG deviations,
per corpus module: numeric, string, container, class-state/enum/float-returning
incl. -0.0/inf/nan, raising) -> suites of 1-3 test cases -> real assertion
generation (NONE / SIMPLE / MUTATION_ANALYSIS) -> real ``_minimize`` -> real
``_export_chromosome`` (with and without seed fixture, no_xfail on/off). All
files written by a shard are run by ONE real ``pytest`` subprocess against the
UNINSTRUMENTED module in a fresh interpreter (junit XML).

Oracle: no collection/import error; every test passes, except tests marked
``xfail(strict=True)``, which must be reported xfailed (neither xpassed nor
error); NameError / SyntaxError in a failure are fingerprinted by the name.
"""

from __future__ import annotations

import itertools
import os
import re
import subprocess
import xml.etree.ElementTree as ET

from mc import par, pipeline

SEQUENCE_MODULES = {"hidden": "Counter()"}

ID = "C18"
LEVEL = "exploration"


def classify(message, text):
    blob = (message or "") + "\n" + (text or "")
    m = re.search(r"NameError: name '(\w+)' is not defined", blob)
    if m:
        return f"NameError({m.group(1)})"
    for exc in ("SyntaxError", "ImportError", "ModuleNotFoundError", "AttributeError", "TypeError",
                "AssertionError", "ValueError", "IndexError", "KeyError", "ZeroDivisionError"):
        if exc in blob:
            return exc
    if "XPASS(strict)" in blob:
        return "XPASS(strict)"
    if "DID NOT RAISE" in blob:
        return "DID-NOT-RAISE"
    return "other"


def assertion_kinds(text):
    kinds = set()
    for line in text.splitlines():
        s = line.strip()
        if s.startswith("assert "):
            if "pytest.approx" in s:
                kinds.add("float")
            elif "isinstance" in s:
                kinds.add("isinstance")
            elif "len(" in s:
                kinds.add("length")
            elif "__name__" in s:
                kinds.add("typename")
            elif " is " in s:
                kinds.add("is")
            else:
                kinds.add("equals")
    return "+".join(sorted(kinds)) or "none"


def shard(col, module, mode, pop_bound, limit, n_groups, variants):
    import logging
    import shutil
    import tempfile

    logging.disable(logging.CRITICAL)
    scratch = tempfile.mkdtemp(prefix="c18_", dir="/dev/shm")
    try:
        pipe = pipeline.Pipe(module, scratch)
        if module in SEQUENCE_MODULES:
            # private object state: every call sequence of <= 4 accessibles on ONE object
            tests = [t for t in pipe.population_sequences(4)
                     if t.size() >= 3 and t.to_code().count(SEQUENCE_MODULES[module]) == 1]
        else:
            tests, _ = pipe.population(bound=pop_bound, limit=limit)
        # core = one (smallest) test per distinct set of called accessibles, so that suites mix tests
        # with different kinds of assertions (float / int / str / object state / raising)
        by_calls = {}
        for t in tests:
            key = tuple(sorted({str(s.accessible) for s in t.statements() if s.accessible is not None}))
            by_calls.setdefault(key, t)
        core = list(by_calls.values())[:8]
        groups = [[t] for t in tests]
        # ORDERED pairs: which test comes last matters to the writer's import bookkeeping
        groups += [list(g) for g in itertools.islice(itertools.permutations(core, 2), n_groups)]
        groups += [list(g) for g in itertools.islice(itertools.combinations(core, 3), n_groups // 4)]
        written = {}
        for gi, group in enumerate(groups):
            for (seed_fixture, no_xfail, minimize) in variants:
                suite = pipe.suite(group)
                data = {"module": module, "mode": mode, "seed_fixture": seed_fixture, "no_xfail": no_xfail,
                        "minimize": minimize, "tests": [t.to_code() for t in group], "pop_bound": pop_bound}
                tag = f"{mode}|seed={int(seed_fixture)},no_xfail={int(no_xfail)}"
                try:
                    if mode != "NONE":
                        pipe.generate_assertions(suite, mode)
                    if minimize:
                        try:
                            pipe.minimize(suite, "CASE", "BACKWARD")
                        except Exception:  # noqa: BLE001
                            pass  # generator._run logs and continues
                    name = f"g{gi}_{int(seed_fixture)}{int(no_xfail)}{int(minimize)}"
                    path, text = pipe.export(suite, name=name, seed_fixture=seed_fixture, no_xfail=no_xfail)
                except Exception as exc:  # noqa: BLE001
                    import traceback
                    tb = traceback.extract_tb(exc.__traceback__)
                    where = next((f.name for f in reversed(tb) if "/pynguin/" in f.filename), "?")
                    col.violation(f"C18|{tag}|pipeline-raises:{type(exc).__name__}@{where}",
                                  f"{module}: {exc!r}"[:300], data, rank=len(group))
                    continue
                written[name] = (path, text, data, tag)
                col.count("files_written")
        pipe.close()
        # ---- one pytest process for the whole shard, uninstrumented module, fresh interpreter
        junit = os.path.join(scratch, "junit.xml")
        env = {k: v for k, v in os.environ.items() if k not in ("PYTHONPATH", "PYNGUIN_VERIF")}
        env["PYTHONPATH"] = scratch
        env["PYTHONHASHSEED"] = "0"
        cmd = ["/venv/bin/python", "-m", "pytest", "-q", "-p", "no:cacheprovider", "-p", "no:sugar",
               "-p", "no:randomly", "--import-mode=importlib", f"--junitxml={junit}", "-o",
               "junit_family=xunit1", pipe.out_dir]
        r = subprocess.run(cmd, cwd=scratch, env=env, capture_output=True, text=True, timeout=1500)
        if not os.path.exists(junit):
            col.violation(f"C18|{mode}|pytest-did-not-run", (r.stdout + r.stderr)[-600:],
                          {"module": module, "mode": mode})
            return
        root = ET.parse(junit).getroot()
        seen_files = set()
        for case in root.iter("testcase"):
            f = case.get("file") or case.get("classname", "")
            name = next((n for n in written if f"/{n}/" in f or f".{n}." in f or f.endswith(n)), None)
            if name is None:
                m = re.search(r"(g\d+_\d{3})", f + " " + case.get("classname", ""))
                name = m.group(1) if m else None
            col.count("evaluations")
            if name is None or name not in written:
                continue
            seen_files.add(name)
            path, text, data, tag = written[name]
            tname = case.get("name")
            body = text.split(f"def {tname}(", 1)
            marked_xfail = False
            if len(body) == 2:
                head = body[0].rstrip().splitlines()[-1:] or [""]
                marked_xfail = "xfail" in head[0]
            fail = case.find("failure")
            err = case.find("error")
            skipped = case.find("skipped")
            kinds = assertion_kinds(text)
            col.distinct("nontrivial", (module, tag, kinds, marked_xfail,
                                        "f" if fail is not None else "e" if err is not None else
                                        "s" if skipped is not None else "p"))
            d2 = dict(data, test=tname, file_text=text)
            if err is not None:
                col.violation(f"C18|{tag}|error:{classify(err.get('message'), err.text)}|asserts={kinds}",
                              f"{module} {tname}: {(err.get('message') or '')[:200]}\n{text}", d2, rank=len(text))
            elif fail is not None:
                col.violation(f"C18|{tag}|{'xfail-test-' if marked_xfail else ''}failed:"
                              f"{classify(fail.get('message'), fail.text)}|asserts={kinds}",
                              f"{module} {tname}: {(fail.get('message') or '')[:200]}\n{text}", d2,
                              rank=len(text))
            elif marked_xfail and skipped is None:
                col.violation(f"C18|{tag}|xfail-test-passed|asserts={kinds}",
                              f"{module} {tname} is marked xfail(strict) but passed\n{text}", d2, rank=len(text))
            elif skipped is not None and not marked_xfail:
                col.violation(f"C18|{tag}|unexpected-skip|asserts={kinds}", f"{module} {tname}\n{text}", d2,
                              rank=len(text))
            else:
                col.count("tests_ok")
        for name, (path, text, data, tag) in written.items():
            if name not in seen_files and "def test_" in text:
                col.violation(f"C18|{tag}|file-not-collected", f"{module}: {path}\n"
                              + (r.stdout + r.stderr)[-400:] + "\n" + text, dict(data, file_text=text))
        col.sample({"module": module, "mode": mode, "files": len(written),
                    "example": next(iter(written.values()))[1][-400:] if written else ""})
    finally:
        shutil.rmtree(scratch, ignore_errors=True)


def run(ctx):
    quick = ctx.quick
    modules = ["numeric", "containers", "shapes", "strings", "raising", "nested", "excs", "hidden"]
    if not quick:
        modules += ["enums", "lambdas", "floats"]
    variants_q = [(False, False, True), (True, False, False), (False, True, True)]
    variants_t = [(s, x, m) for s in (False, True) for x in (False, True) for m in (False, True)]
    jobs = []
    for m in modules:
        jobs.append((m, "SIMPLE", 1 if quick else 2, 12 if quick else 60, 56 if quick else 56,
                     variants_q if quick else variants_t))
        jobs.append((m, "NONE", 1, 12 if quick else 40, 2 if quick else 8, variants_q[:2] if quick else variants_t))
        if not quick:
            jobs.append((m, "MUTATION_ANALYSIS", 1, 10, 4, variants_q))
    if quick:
        jobs.append(("shapes", "MUTATION_ANALYSIS", 1, 4, 0, variants_q[:1]))
    par.run_shards("props.c18_pytest_passes:shard", jobs, ctx.workers, ctx)
    ctx.require(ctx.col.counters.get("tests_ok", 0) > 50, "vacuous: hardly any exported test ran")
    ctx.exhaustive = True
    ctx.rule = ("suites = singletons, pairs, triples of the enumerated population per module x assertion mode x "
                "(seed fixture, no_xfail, minimise) variants; every exported test function is one evaluation; "
                "non-trivial = distinct (module, variant, assertion kinds in the file, xfail mark, outcome)")
    ctx.assume("pytest runs with --import-mode=importlib because all exported files share one basename")


def replay(ctx, data):
    import tempfile
    text = data.get("file_text")
    if not text:
        print("no file text recorded")
        return
    d = tempfile.mkdtemp(prefix="c18r_", dir="/dev/shm")
    import shutil
    try:
        src = os.path.join(os.environ.get("VERIF_HOME", "/verif"), "corpus", data["module"] + ".py")
        shutil.copy(src, os.path.join(d, f"c_{data['module']}.py"))
        with open(os.path.join(d, "test_replay.py"), "w") as fh:
            fh.write(text)
        env = {k: v for k, v in os.environ.items() if k not in ("PYTHONPATH", "PYNGUIN_VERIF")}
        env["PYTHONPATH"] = d
        r = subprocess.run(["/venv/bin/python", "-m", "pytest", "-q", "-p", "no:cacheprovider", "-p",
                            "no:sugar", "test_replay.py"], cwd=d, env=env, capture_output=True, text=True)
        print(r.stdout[-1500:])
        if r.returncode != 0:
            ctx.violation("C18|replay|pytest-failed", r.stdout[-600:], data)
    finally:
        shutil.rmtree(d, ignore_errors=True)
