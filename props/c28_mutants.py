"""C28 — mutation analysis yields genuine mutants and leaves the original intact.

Bounded-exhaustive enumeration (E3) of *modules x mutator configurations*, with
an abandonment leg in the style of crash-point enumeration:

* modules: every generated module of ``mc.c28_modules`` up to the tier's
  statement bound, plus the source of a fixed list of pure-Python stdlib modules;
* configurations: plain ``FirstOrderMutator``; ``reorder=True``; every
  ``maximum_mutants`` cap; ``HighOrderMutator`` x 4 strategies x order 1/2; and
  the same mutators driven through ``MutationController`` the way
  ``assertiongenerator.py`` drives it;
* randomness is owned: ``pynguin.utils.randomness.Random.sample/shuffle`` are
  replaced by scripted answers (a small menu, enumerated), every other draw
  raises.

Oracle at every generator step (``next()`` call):

* the shared original AST differs from its pristine state only inside the
  subtree(s) of the ``Mutation.node``(s) reported with the current mutant — in
  particular the change of the previous mutant has been undone by the step that
  followed its ``yield`` — and is fully pristine after exhaustion;
* the mutant is not syntactically equal to the original;
* capped / reordered / order-1 enumerations yield only mutants of the full
  (plain) enumeration (multiset inclusion) and no more than the cap;
* ``mutation_count()`` / ``MutationController.mutant_count()`` equals the
  number of mutants of the uncapped enumeration.

Abandonment: for every prefix length k the generator is advanced k times and
then ``close()``d, dropped, or left through ``break`` in a ``for`` loop (what a
time budget does in ``_execute_test_case_on_mutants``); the shared AST must be
pristine afterwards.

Two implementations of the tree oracle are used.  The *reference* one is
literal: ``ast.dump(tree, include_attributes=True)`` against the pristine dump,
and a parallel walk of the current tree against an untouched second parse with
the reported nodes masked.  The *fast* one is an identity snapshot of every
field of every original node (equivalent or stricter); a fast-path alarm is
always confirmed with the reference before it is reported, and on the generated
corpus both run at every step and must agree (else harness error).
"""

from __future__ import annotations

import ast
import collections
import operator as _operator
import warnings

ID = "C28"
LEVEL = "fault_enumeration"

HOM_STRATEGIES = ("FirstToLast", "EachChoice", "BetweenOperators", "Random")
SAMPLE_ANSWERS = ("first", "last", "stride", "mt-seed0")
SHUFFLE_ANSWERS = ("identity", "reverse", "rotate")


# ---------------------------------------------------------------- pynguin access
class P:
    """Lazy handles on the implementation under test."""

    loaded = False

    @classmethod
    def load(cls):
        if cls.loaded:
            return cls
        warnings.simplefilter("ignore")
        import pynguin.assertion.mutation_analysis.controller as ct
        import pynguin.assertion.mutation_analysis.mutators as mu
        import pynguin.assertion.mutation_analysis.operators as mo
        import pynguin.assertion.mutation_analysis.strategies as ms
        from pynguin.assertion.mutation_analysis.operators import misc
        from pynguin.assertion.mutation_analysis.transformer import (
            ParentNodeTransformer,
            create_module,
        )
        from pynguin.utils import randomness

        cls.ct, cls.mu, cls.mo, cls.ms, cls.randomness = ct, mu, mo, ms, randomness
        cls.create_ast = ParentNodeTransformer.create_ast
        cls.create_module = create_module
        cls.prod_ops = [*mo.standard_operators, *mo.experimental_operators]
        cls.extra_ops = [misc.AssignmentValueReplacement, misc.LambdaReplacement]
        cls.ops_by_name = {o.__name__: o for o in cls.prod_ops + cls.extra_ops}
        cls.strategies = {
            "FirstToLast": ms.FirstToLastHOMStrategy,
            "EachChoice": ms.EachChoiceHOMStrategy,
            "BetweenOperators": ms.BetweenOperatorsHOMStrategy,
            "Random": ms.RandomHOMStrategy,
        }
        cls.loaded = True
        return cls


# ---------------------------------------------------------------- owned randomness
class Unowned(Exception):
    pass


def _scripted_sample(answer):
    def sample(self, population, k, *, counts=None):
        pop = list(population)
        n = len(pop)
        if not 0 <= k <= n:
            raise ValueError("Sample larger than population or is negative")
        if answer == "first":
            return pop[:k]
        if answer == "last":
            return pop[n - k:]
        if answer == "stride":
            return [pop[(i * n) // k] for i in range(k)]
        raise AssertionError(answer)
    return sample


def _scripted_shuffle(answer):
    def shuffle(self, x):
        if answer == "reverse":
            x.reverse()
        elif answer == "rotate" and x:
            x.append(x.pop(0))
    return shuffle


class OwnedRNG:
    """Replace the draws of ``randomness.Random`` (class of ``RNG``) by scripted answers."""

    FORBIDDEN = ("random", "getrandbits", "randrange", "randint", "choice", "choices", "uniform",
                 "gauss", "randbytes", "triangular", "normalvariate", "expovariate")

    def __init__(self, sample="first", shuffle="identity"):
        self.sample, self.shuffle = sample, shuffle
        self.saved = {}

    def __enter__(self):
        cls = P.randomness.Random
        patch = {}
        if self.sample != "mt-seed0":
            patch["sample"] = _scripted_sample(self.sample)

            def boom(name):
                def f(self, *a, **k):
                    raise Unowned(name)
                return f
            for name in self.FORBIDDEN:
                patch[name] = boom(name)
        patch["shuffle"] = _scripted_shuffle(self.shuffle)
        for name, fn in patch.items():
            self.saved[name] = cls.__dict__.get(name, None)
            setattr(cls, name, fn)
        return self

    def __exit__(self, *exc):
        cls = P.randomness.Random
        for name, old in self.saved.items():
            if old is None:
                delattr(cls, name)
            else:
                setattr(cls, name, old)
        self.saved.clear()
        return False


# ---------------------------------------------------------------- tree snapshots
def preorder(root):
    nodes, par = [], []
    stack = [(root, -1)]
    while stack:
        node, p = stack.pop()
        i = len(nodes)
        nodes.append(node)
        par.append(p)
        for c in reversed(list(ast.iter_child_nodes(node))):
            stack.append((c, i))
    return nodes, par


_GETTERS: dict = {}


class Slot:
    """One place where the current tree differs from the pristine one."""

    __slots__ = ("holder", "field", "pos", "old", "new", "is_attr")

    def __init__(self, holder, field, pos, old, new, is_attr=False):
        self.holder, self.field, self.pos, self.old, self.new = holder, field, pos, old, new
        self.is_attr = is_attr          # a position attribute (lineno, ...), not syntax

    @property
    def kind(self):
        return "list-slot" if self.pos is not None else "field-slot"


def _dump_any(v):
    if isinstance(v, ast.AST):
        return ast.dump(v)
    if isinstance(v, list):
        return "[" + ", ".join(_dump_any(x) for x in v) + "]"
    return f"{type(v).__name__}:{v!r}"


class Snapshot:
    """Identity snapshot of every syntactic field and position attribute of every node."""

    def __init__(self, root):
        self.root = root
        self.nodes, self.par = preorder(root)
        self.index = {id(n): i for i, n in enumerate(self.nodes)}
        self.entries = []
        for n in self.nodes:
            names = tuple(f for f in n._fields if hasattr(n, f)) + \
                tuple(a for a in n._attributes if hasattr(n, a))
            key = ("__class__",) + (names or ("__doc__",))   # attrgetter needs >= 2 names for a tuple
            g = _GETTERS.get(key)
            if g is None:
                g = _GETTERS[key] = _operator.attrgetter(*key)
            cur = g(n)
            saved = tuple(list(v) if isinstance(v, list) else v for v in cur)
            lists = tuple(v if isinstance(v, list) else None for v in cur)
            self.entries.append((g, n, saved, key, lists))

    def dirty(self):
        """Indices of original nodes one of whose fields is not what it was."""
        out = []
        for i, (g, n, saved, _, _) in enumerate(self.entries):
            try:
                if g(n) != saved:
                    out.append(i)
            except AttributeError:
                out.append(i)
        return out

    def slots(self, dirty=None):
        res = []
        for i in (self.dirty() if dirty is None else dirty):
            _, n, saved, key, _ = self.entries[i]
            for name, sv in zip(key[1:], saved[1:]):
                cur = getattr(n, name, Ellipsis)
                if isinstance(sv, list):
                    if not isinstance(cur, list) or len(cur) != len(sv):
                        res.append(Slot(i, name, None, sv, cur))
                        continue
                    for j, (a, b) in enumerate(zip(sv, cur)):
                        if a is not b and not (not isinstance(a, ast.AST) and a == b):
                            res.append(Slot(i, name, j, a, b))
                elif isinstance(sv, ast.AST):
                    if cur is not sv:
                        res.append(Slot(i, name, None, sv, cur))
                elif cur != sv or type(cur) is not type(sv):
                    res.append(Slot(i, name, None, sv, cur, name in n._attributes))
            if type(n) is not saved[0]:
                res.append(Slot(i, "__class__", None, saved[0], type(n)))
        return res

    def anchor_index(self, slot):
        """Index of the original node a difference is located at."""
        if isinstance(slot.old, ast.AST):
            return self.index.get(id(slot.old), slot.holder)
        return slot.holder

    def within(self, idx, roots):
        """Is original node ``idx`` inside the subtree of one of the original nodes ``roots``?"""
        while idx >= 0:
            if idx in roots:
                return True
            idx = self.par[idx]
        return False

    def restore_slot(self, slot):
        """Put back one slot (used to stop a stale change from being re-reported at every later step)."""
        _, n, saved, key, lists = self.entries[slot.holder]
        if slot.field == "__class__":
            return
        j = key.index(slot.field)
        if lists[j] is not None:
            lst = lists[j]
            if slot.pos is None:
                lst[:] = saved[j]
            elif slot.pos < len(lst):
                lst[slot.pos] = slot.old
            setattr(n, slot.field, lst)
        else:
            setattr(n, slot.field, saved[j])

    def restore(self):
        for i in self.dirty():
            _, n, saved, key, lists = self.entries[i]
            for name, sv, lst in zip(key[1:], saved[1:], lists[1:]):
                if lst is not None:
                    lst[:] = sv
                    setattr(n, name, lst)
                else:
                    setattr(n, name, sv)


def ref_compare(r, c, masked, path=""):
    """Parallel walk of an untouched reference tree and the current tree.

    ``masked`` = ids of reference nodes whose subtrees are excluded.  Returns a
    description of the first difference outside the masked subtrees, or None.
    """
    if id(r) in masked:
        return None
    if type(r) is not type(c):
        return f"{path}: {type(r).__name__} -> {type(c).__name__}"
    for f in r._fields:
        rv, cv = getattr(r, f, None), getattr(c, f, None)
        p = f"{path}.{f}"
        if isinstance(rv, list):
            if not isinstance(cv, list) or len(rv) != len(cv):
                return f"{p}: list changed"
            for j, (a, b) in enumerate(zip(rv, cv)):
                if isinstance(a, ast.AST):
                    if id(a) in masked:
                        continue
                    if not isinstance(b, ast.AST):
                        return f"{p}[{j}]: node -> {type(b).__name__}"
                    d = ref_compare(a, b, masked, f"{p}[{j}]")
                    if d:
                        return d
                elif a != b or type(a) is not type(b):
                    return f"{p}[{j}]: {a!r} -> {b!r}"
        elif isinstance(rv, ast.AST):
            if id(rv) in masked:
                continue
            if not isinstance(cv, ast.AST):
                return f"{p}: node -> {type(cv).__name__}"
            d = ref_compare(rv, cv, masked, p)
            if d:
                return d
        elif rv != cv or type(rv) is not type(cv):
            return f"{p}: {rv!r} -> {cv!r}"
    for a in r._attributes:
        if getattr(r, a, None) != getattr(c, a, None):
            return f"{path}@{a}: {getattr(r, a, None)!r} -> {getattr(c, a, None)!r}"
    return None


# ---------------------------------------------------------------- subject
class Subject:
    """One module: the shared AST handed to the mutators, plus the oracles' pristine views."""

    def __init__(self, corpus, ident, source, module, size, reference=True):
        P.load()
        self.corpus, self.ident, self.source, self.module, self.size = corpus, ident, source, module, size
        self.tree = P.create_ast(source)
        self.snap = Snapshot(self.tree)
        self.reference = reference
        self.pristine_dump = ast.dump(self.tree, include_attributes=True)
        self.pristine_plain = ast.dump(self.tree)
        self.ref = ast.parse(source)
        self.rnodes, _ = preorder(self.ref)
        if len(self.rnodes) != len(self.snap.nodes) or any(
                type(a) is not type(b) for a, b in zip(self.rnodes, self.snap.nodes)):
            raise RuntimeError("reference parse does not line up with the transformer's tree")

    @classmethod
    def generated(cls, spec):
        from mc import c28_modules as cm
        P.load()
        src = cm.render(spec)
        module = P.create_module(ast.parse(src), "c28_generated")
        return cls("gen", spec, src, module, sum(len(b) for _, b in spec))

    @classmethod
    def stdlib(cls, name, reference=False):
        from mc import c28_modules as cm
        P.load()
        module, src = cm.stdlib_source(name)
        return cls("stdlib", name, src, module, 1000, reference=reference)

    def where(self):
        from mc import c28_modules as cm
        return cm.spec_id(self.ident) if self.corpus == "gen" else self.ident

    def is_pristine_ref(self):
        return ast.dump(self.tree, include_attributes=True) == self.pristine_dump


# ---------------------------------------------------------------- configurations
def cfg_name(cfg):
    k = cfg["kind"]
    if k == "first":
        if cfg.get("ops") == "extra":
            base = "plain-extra-ops"
        elif cfg.get("cap", -1) >= 0:
            base = "cap" if cfg.get("reorder", True) else "cap-noreorder"
        elif cfg.get("reorder"):
            base = "reorder"
        else:
            base = "plain"
    else:
        base = f"hom:{cfg['strategy']}:{cfg['order']}"
    return ("ctrl:" + base) if cfg.get("ctrl") else base


def make_ops(cfg):
    ops = cfg.get("ops")
    if ops is None:
        return list(P.prod_ops)
    if ops == "extra":
        return list(P.extra_ops)
    return [P.ops_by_name[n] for n in ops]


def make_mutator(cfg):
    ops = make_ops(cfg)
    if cfg["kind"] == "first":
        return P.mu.FirstOrderMutator(ops, maximum_mutants=cfg.get("cap", -1), sampling_seed=0,
                                      reorder=bool(cfg.get("reorder", False)))
    return P.mu.HighOrderMutator(ops, hom_strategy=P.strategies[cfg["strategy"]](cfg["order"]))


def rng_for(cfg):
    return OwnedRNG(sample=cfg.get("sample", "first"), shuffle=cfg.get("shuffle", "identity"))


class _CompileOnly:
    """For the stdlib corpus mutants are compiled but never executed (static only)."""

    def __init__(self, active):
        self.active = active

    def __enter__(self):
        if self.active:
            import types
            self.old = P.ct.create_module

            def compile_only(ast_node, module_name):
                compile(ast_node, module_name, "exec")
                return types.ModuleType(module_name)
            P.ct.create_module = compile_only

    def __exit__(self, *exc):
        if self.active:
            P.ct.create_module = self.old
        return False


def open_generator(subj, cfg):
    """The generator a client would iterate: (mutations, module-or-ast) pairs normalised to
    (mutations, mutant_ast_or_None)."""
    mutator = make_mutator(cfg)
    if cfg.get("ctrl"):
        ctrl = P.ct.MutationController(mutator, subj.tree, subj.module)
        return ctrl, ctrl.create_mutants()
    return mutator, mutator.mutate(subj.tree, subj.module)


def report_count(subj, cfg, obj):
    if cfg.get("ctrl"):
        return obj.mutant_count()
    return obj.mutation_count(subj.tree, subj.module)


# ---------------------------------------------------------------- the checker
class Checker:
    def __init__(self, col, subj):
        self.col, self.subj = col, subj

    # -- recording ---------------------------------------------------------
    def violation(self, cfg, step, sig, what, extra):
        fp = f"C28|{cfg_name(cfg)}|{step}|{sig}"
        data = {"corpus": self.subj.corpus, "module": self.subj.ident, "config": cfg}
        data.update(extra)
        rank = self.subj.size * 1000 + extra.get("k", extra.get("step", 0))
        self.col.violation(fp, f"{self.subj.where()} [{cfg_name(cfg)}] {what}", data, rank=rank)

    def harness(self, cond, msg):
        if not cond:
            from mc.ctx import HarnessError
            raise HarnessError(f"C28 self-check failed on {self.subj.where()}: {msg}")

    # -- pristine check ------------------------------------------------------
    def pristine(self, use_ref=None):
        """(is_pristine, leftover slots).  Fast alarm is confirmed by ast.dump."""
        subj = self.subj
        use_ref = subj.reference if use_ref is None else use_ref
        dirty = subj.snap.dirty()
        self.col.count("pristine_checks")
        if not dirty:
            if use_ref:
                self.col.count("reference_checks")
                self.harness(subj.is_pristine_ref(), "identity snapshot clean but ast.dump differs")
            return True, []
        slots = subj.snap.slots(dirty)
        if subj.is_pristine_ref():
            # nodes were replaced by equal ones: the syntax tree is unchanged (lenient reading)
            self.col.count("identity_only_changes")
            return True, slots
        return False, slots

    # -- one yielded mutant ----------------------------------------------------
    def at_yield(self, cfg, step, muts, mutant, prev_roots, prev_op="-"):
        """Check the mutant just yielded; returns (key, roots) for later checks."""
        subj, snap, col = self.subj, self.subj.snap, self.col
        col.count("evaluations")
        col.count("mutants_checked")
        ops = [m.operator.__name__ for m in muts]
        for m in muts:
            col.distinct("operators_fired", m.operator.__name__)
            col.distinct("visitors_fired", f"{m.operator.__name__}.{m.visitor_name}")
        opname = ops[0] if ops else "-"
        extra = {"step": step, "leg": "enumerate"}
        roots = {snap.index[id(m.node)] for m in muts if id(m.node) in snap.index}
        if mutant is None:
            # controller leg: the module object is opaque, the mutant is the shared tree
            mutant = subj.tree
        if mutant is not subj.tree:
            # a mutator handing out a separate tree: the original must be pristine right now
            ok, _ = self.pristine()
            if not ok:
                self.violation(cfg, opname, "original-mutated-after-yield",
                               f"step {step}: original changed while a separate mutant tree was yielded",
                               extra)
            d = ref_compare(subj.ref, mutant, {id(subj.rnodes[i]) for i in roots})
            if d:
                self.violation(cfg, opname, "diff-outside-reported-node", f"step {step}: {d}", extra)
            if ast.dump(mutant) == subj.pristine_plain:
                self.violation(cfg, opname, "mutant-equals-original", f"step {step}", extra)
            return ("tree", ast.dump(mutant)), roots
        slots = snap.slots()
        outside = [s for s in slots if not snap.within(snap.anchor_index(s), roots)]
        if subj.reference:
            col.count("reference_checks")
            d = ref_compare(subj.ref, subj.tree, {id(subj.rnodes[i]) for i in roots})
            self.harness(bool(d) == bool(outside),
                         f"fast/reference confinement disagree at step {step} of {cfg}: {d!r} vs "
                         f"{[(s.holder, s.field, s.pos) for s in outside]}")
        if outside:
            stale = bool(prev_roots) and all(snap.within(snap.anchor_index(s), prev_roots) for s in outside)
            sig = "original-mutated-after-yield" if stale else "diff-outside-reported-node"
            s = outside[0]
            node = snap.nodes[s.holder]
            self.violation(cfg, prev_op if stale else opname, sig,
                           f"step {step} ({'+'.join(ops)}; previous: {prev_op}): tree differs from the original "
                           f"outside the reported node(s): {type(node).__name__}.{s.field}"
                           f"{'' if s.pos is None else '[%d]' % s.pos} at line {getattr(node, 'lineno', '?')}",
                           extra)
            # put the stray slots back so that the same damage is not re-reported at every later step
            for s in outside:
                snap.restore_slot(s)
            slots = [s for s in slots if s not in outside]
        changed = [s for s in slots if not s.is_attr and _dump_any(s.new) != _dump_any(s.old)]
        if not changed:
            if subj.reference:
                self.harness(ast.dump(subj.tree) == subj.pristine_plain,
                             "fast path says mutant equals original, ast.dump disagrees")
            node = muts[0].node if muts else None
            self.violation(cfg, opname, "mutant-equals-original",
                           f"step {step}: {'+'.join(f'{m.operator.__name__}.{m.visitor_name}' for m in muts)} "
                           f"on {ast.dump(node) if node is not None else '?'} "
                           f"(line {getattr(node, 'lineno', '?')}) yields a tree equal to the original",
                           extra)
        elif subj.reference:
            self.harness(ast.dump(subj.tree) != subj.pristine_plain,
                         "fast path says mutant differs, ast.dump says equal")
        key = tuple(sorted((s.holder, s.field, -1 if s.pos is None else s.pos, _dump_any(s.new))
                           for s in slots))
        return key, roots

    # -- a complete enumeration ------------------------------------------------------
    def enumerate(self, cfg, full=None):
        """Run one configuration to exhaustion, checking every step.

        ``full`` = Counter of the plain enumeration's keys (for inclusion checks).
        Returns the list of keys.
        """
        subj, col = self.subj, self.col
        col.count("enumerations")
        keys, names = [], []
        self.last_names = names
        step, prev_roots, last_op = 0, set(), "-"
        with rng_for(cfg), _CompileOnly(cfg.get("ctrl") and subj.corpus == "stdlib"):
            obj, gen = open_generator(subj, cfg)
            try:
                while True:
                    try:
                        item = next(gen)
                    except StopIteration:
                        break
                    step += 1
                    if cfg.get("ctrl"):
                        module, muts = item
                        mutant = None
                        col.count("ctrl_modules_created" if module is not None else "ctrl_invalid_modules")
                    else:
                        muts, mutant = item
                    key, prev_roots = self.at_yield(cfg, step, muts, mutant, prev_roots, last_op)
                    keys.append(key)
                    last_op = muts[0].operator.__name__ if muts else "-"
                    names.append(last_op)
            except Unowned as exc:
                self.harness(False, f"un-owned random draw {exc} in {cfg}")
            except Exception as exc:  # noqa: BLE001 - the implementation crashed mid-enumeration
                self.violation(cfg, last_op, f"enumeration-raises:{type(exc).__name__}",
                               f"step {step + 1}: {exc!r}", {"step": step + 1, "leg": "enumerate"})
                gen = None
                ok, slots = self.pristine()
                if not ok:
                    self.violation(cfg, last_op, "original-mutated-after-yield",
                                   f"step {step + 1} raised and the original is left mutated at "
                                   f"{self._slot_text(slots)}", {"step": step + 1, "leg": "enumerate"})
                    subj.snap.restore()
                return keys
            self.last_names = names
            col.count("evaluations")
            ok, slots = self.pristine()
            if not ok:
                self.violation(cfg, last_op, "original-mutated-after-yield",
                               f"after exhaustion ({step} mutants) the original is still mutated at "
                               f"{self._slot_text(slots)}", {"step": step + 1, "leg": "enumerate"})
                subj.snap.restore()
            # reported count
            if cfg.get("count", True):
                col.count("count_checks")
                try:
                    n = report_count(subj, cfg, obj)
                except Exception as exc:  # noqa: BLE001
                    self.violation(cfg, "mutation_count", f"raises:{type(exc).__name__}",
                                   f"counting the mutants raised {exc!r}", {"step": 0, "leg": "enumerate"})
                    subj.snap.restore()
                    return keys
                ok, slots = self.pristine()
                if not ok:
                    self.violation(cfg, "mutation_count", "original-mutated-after-yield",
                                   f"counting left the original mutated at {self._slot_text(slots)}",
                                   {"step": 0, "leg": "enumerate"})
                    subj.snap.restore()
                expect = len(keys) if cfg.get("cap", -1) < 0 else (sum(full.values()) if full else None)
                if expect is not None and n != expect:
                    self.violation(cfg, "mutation_count", "count-mismatch",
                                   f"reported count {n}, the uncapped enumeration yields {expect}",
                                   {"step": 0, "leg": "enumerate"})
        cap = cfg.get("cap", -1)
        if cap >= 0:
            col.count("cap_checks")
            if len(keys) > cap:
                self.violation(cfg, "-", "cap-exceeded", f"cap {cap}, yielded {len(keys)}",
                               {"step": 0, "leg": "enumerate"})
            if full is not None and len(keys) < min(cap, sum(full.values())):
                col.count("cap_underfilled")
        if full is not None and (cfg["kind"] == "first" or cfg["order"] == 1):
            col.count("inclusion_checks")
            have = collections.Counter(keys)
            for i, key in enumerate(keys):
                if have[key] > full.get(key, 0):
                    self.violation(cfg, names[i], "not-in-full-enumeration",
                                   f"mutant {i + 1} ({names[i]}) occurs {have[key]}x, the full "
                                   f"enumeration has it {full.get(key, 0)}x", {"step": i + 1, "leg": "enumerate"})
                    break
            if cfg["kind"] == "first" and cap < 0 and sum(have.values()) < sum(full.values()):
                self.violation(cfg, "-", "reorder-loses-mutants",
                               f"{sum(have.values())} of {sum(full.values())} mutants", {"step": 0, "leg": "enumerate"})
        return keys

    @staticmethod
    def _slot_text(slots):
        return ", ".join(sorted({f"{s.field}{'[i]' if s.pos is not None else ''}" for s in slots}))

    # -- abandonment ---------------------------------------------------------------
    def abandon(self, cfg, k, mode):
        """Advance k mutants, abandon the generator, check the shared AST.  False if exhausted first."""
        subj, col = self.subj, self.col
        col.count("evaluations")
        col.count("abandonments")
        with rng_for(cfg), _CompileOnly(cfg.get("ctrl") and subj.corpus == "stdlib"):
            try:
                got, last_op = _advance_and_abandon(subj, cfg, k, mode)
            except Unowned as exc:
                self.harness(False, f"un-owned random draw {exc} in {cfg}")
            except Exception as exc:  # noqa: BLE001 - the implementation crashed
                self.violation(cfg, mode, f"enumeration-raises:{type(exc).__name__}",
                               f"advancing to mutant {k}: {exc!r}", {"k": k, "mode": mode, "leg": "abandon"})
                subj.snap.restore()
                return False
        if got < k:
            # ran to exhaustion: that case belongs to (and is reported by) the enumerate leg
            if subj.snap.dirty():
                col.count("dirty_after_exhaustion_in_abandon_leg")
                subj.snap.restore()
            return False
        ok, slots = self.pristine()
        if not ok:
            kinds = "+".join(sorted({s.kind for s in slots}))
            col.distinct("abandon_leftover_fields", self._slot_text(slots))
            self.violation(cfg, f"{mode}:{kinds}", "original-mutated-after-close@k",
                           f"after {k} mutant(s) ({last_op}) the generator was abandoned ({mode}); "
                           f"the shared AST stays mutated at {self._slot_text(slots)}",
                           {"k": k, "mode": mode, "leg": "abandon"})
            subj.snap.restore()
            ok2, _ = self.pristine()
            self.harness(ok2, "restore() failed")
        else:
            col.count("abandonments_clean")
        return True


def _advance_and_abandon(subj, cfg, k, mode):
    """Own frame: when it returns nothing references the generator any more."""
    obj, gen = open_generator(subj, cfg)
    got, last_op = 0, "-"
    if mode == "break":
        # the loop shape of MutationAnalysisAssertionGenerator._execute_test_case_on_mutants:
        # the k-th mutant has been pulled when the time budget check leaves the loop
        if k > 0:
            for idx, (_, muts) in enumerate(gen, start=1):
                got = idx
                last_op = muts[0].operator.__name__ if muts else "-"
                if idx >= k:
                    break
        del gen
        return got, last_op
    for _ in range(k):
        item = next(gen, None)
        if item is None:
            break
        got += 1
        muts = item[1] if cfg.get("ctrl") else item[0]
        last_op = muts[0].operator.__name__ if muts else "-"
    if mode == "close":
        gen.close()
    elif mode == "drop":
        del gen
    else:
        raise AssertionError(mode)
    return got, last_op


# ---------------------------------------------------------------- plans
def first_cfgs_for_caps(caps, answers):
    for c in caps:
        for a in answers:
            yield {"kind": "first", "cap": c, "reorder": True, "sample": a}


def hom_cfgs():
    for s in HOM_STRATEGIES:
        for order in (1, 2):
            for sh in (SHUFFLE_ANSWERS if s == "Random" else ("identity",)):
                yield {"kind": "hom", "strategy": s, "order": order, "shuffle": sh}


def _hom(strategy, order, shuffle="identity", **kw):
    return dict({"kind": "hom", "strategy": strategy, "order": order, "shuffle": shuffle}, **kw)


def run_generated(col, spec, tier, level):
    """All legs for one generated module.

    level: 'full' (everything), 'medium' (every enumeration; cap sweep with two answers;
    abandonment of the plain, controller and one HOM configuration), 'lite' (plain, reorder,
    order-2 HOM enumerations; same abandonment as medium).

    The plain, reorder, HOM and controller enumerations use the production operator list
    (standard + experimental, as ``generator._setup_mutant_generator``).  The cap sweep and the
    abandonment sweep use the sub-list of operators that yield at least one mutation for the
    module (operators without a mutation only traverse the tree; their strata are empty).
    """
    subj = Subject.generated(spec)
    ck = Checker(col, subj)
    plain = {"kind": "first"}
    keys = ck.enumerate(plain)
    total = len(keys)
    full = collections.Counter(keys)
    fired = set(ck.last_names)
    firing = [o.__name__ for o in P.prod_ops if o.__name__ in fired]
    col.count("modules")
    col.count("modules_" + level)
    col.distinct("nontrivial", ("gen", subj.where(), total > 0))
    col.sample({"corpus": "generated", "module": subj.where(), "mutants": total,
                "source": subj.source}, every=97)
    col.notes["max_mutants_generated_module"] = max(col.notes.get("max_mutants_generated_module", 0), total)

    def sub(cfg):
        return dict(cfg, ops=firing, count=False)

    ck.enumerate({"kind": "first", "ops": "extra"})
    ck.enumerate({"kind": "first", "reorder": True}, full)
    for cfg in hom_cfgs():
        if cfg["shuffle"] != "identity":
            if level == "full":
                ck.enumerate(sub(cfg), full)
            continue
        if level == "lite" and cfg["order"] == 1:
            continue
        cfg["count"] = cfg["order"] == 2 or cfg["strategy"] == "EachChoice"
        ck.enumerate(cfg, full)
    if level != "lite":
        ck.enumerate({"kind": "first", "cap": total // 2, "reorder": True, "sample": "first"}, full)
        caps = range(0, (min(total, 12) if tier == "quick" else total) + 1)
        answers = SAMPLE_ANSWERS if level == "full" else ("first", "last")
        for cfg in first_cfgs_for_caps(caps, answers):
            ck.enumerate(sub(cfg), full)
        for c in sorted({0, 1, total}):
            ck.enumerate(sub({"kind": "first", "cap": c, "reorder": False, "sample": "last"}), full)
        ck.enumerate({"kind": "first", "ctrl": True}, full)
        ck.enumerate({"kind": "first", "reorder": True, "ctrl": True}, full)
        ck.enumerate({"kind": "first", "reorder": True, "cap": total // 2, "sample": "stride", "ctrl": True}, full)
        ck.enumerate(_hom("FirstToLast", 2, ctrl=True), full)
    # abandonment: every prefix length
    aband = [(plain, ("close",)), ({"kind": "first", "ctrl": True}, ("break",)),
             (_hom("FirstToLast", 2), ("close",))]
    if level == "full":
        aband.append((plain, ("drop",)))
        aband.append(({"kind": "first", "reorder": True}, ("close",)))
        aband.append((_hom("Random", 2, "reverse"), ("close",)))
        if tier == "thorough":
            aband.append((_hom("EachChoice", 2), ("close",)))
            aband.append((_hom("BetweenOperators", 2), ("close",)))
            aband.append((_hom("FirstToLast", 1), ("drop",)))
            aband.append(({"kind": "first", "reorder": True, "cap": max(1, total // 2), "sample": "last",
                           "ctrl": True}, ("break",)))
            aband.append((_hom("EachChoice", 2, ctrl=True), ("break",)))
    for cfg, modes in aband:
        for mode in modes:
            for k in range(0, total + 2):
                if not ck.abandon(sub(cfg), k, mode):
                    break
    return total


ABANDON_CFGS = {
    "plain": {"kind": "first"},
    "reorder": {"kind": "first", "reorder": True},
    "ctrl": {"kind": "first", "ctrl": True},
    "hom": _hom("FirstToLast", 2),
    "homrand": _hom("Random", 2, "reverse"),
    "hombetween": _hom("BetweenOperators", 2),
    "homeach": _hom("EachChoice", 2),
}


def run_stdlib(col, name, tier, part):
    subj = Subject.stdlib(name, reference=False)
    ck = Checker(col, subj)
    plain = {"kind": "first"}
    if part == "enum":
        subj.reference = True           # literal ast.dump oracle at every step of the plain run
        keys = ck.enumerate(plain)
        subj.reference = False
        total = len(keys)
        full = collections.Counter(keys)
        col.count("modules")
        col.count("modules_stdlib")
        col.distinct("nontrivial", ("stdlib", name, total > 0))
        col.sample({"corpus": "stdlib", "module": name, "mutants": total,
                    "nodes": len(subj.snap.nodes)})
        col.notes["max_mutants_stdlib_module"] = max(col.notes.get("max_mutants_stdlib_module", 0), total)
        col.note("total:" + name, total)
        ck.enumerate({"kind": "first", "reorder": True, "count": False}, full)
        return
    # the other parts need the plain enumeration as a baseline (checked by the 'enum' part)
    keys = _plain_keys(ck, subj)
    if keys is None:
        return
    total = len(keys)
    full = collections.Counter(keys)
    if part.startswith("hom:"):
        _, strategy, order, shuffle, count = part.split(":")
        ck.enumerate(_hom(strategy, int(order), shuffle, count=count == "count"), full)
        return
    if part == "ctrl":
        ck.enumerate({"kind": "first", "ctrl": True}, full)
        return
    if part.startswith("caps:"):
        _, lo, hi, answers, *stride = part.split(":")
        caps = range(int(lo), min(int(hi), total + 1) + 1)
        if stride:
            caps = [c for c in caps if c % int(stride[0]) == 0]
        for cfg in first_cfgs_for_caps(caps, answers.split(",")):
            cfg["count"] = False
            ck.enumerate(cfg, full)
        return
    if part.startswith("capsends:"):
        answers = part.split(":")[1].split(",")
        for cfg in first_cfgs_for_caps(sorted({total // 2, max(0, total - 1)}), answers):
            cfg["count"] = False
            ck.enumerate(cfg, full)
        return
    if part == "abandon-1op":
        # the plain mutator runs its operators one after the other; a generator suspended in
        # operator j is in the state of a one-operator mutator suspended at the same mutant
        for op in P.prod_ops:
            cfg = {"kind": "first", "ops": [op.__name__]}
            k = 0
            while ck.abandon(cfg, k, "close"):
                k += 1
        return
    if part.startswith("abandon:"):
        _, cfgname, lo, hi, stride = part.split(":")
        cfg = ABANDON_CFGS[cfgname]
        mode = "break" if cfg.get("ctrl") else ("drop" if cfgname == "reorder" else "close")
        hi = total + 1 if hi == "end" else int(hi)
        stride = max(1, total // int(stride[1:])) if stride.startswith("/") else int(stride)
        for k in range(int(lo), hi + 1, stride):
            if not ck.abandon(cfg, k, mode):
                break
        return
    raise AssertionError(part)


def _plain_keys(ck, subj):
    """Plain enumeration without the per-step oracle (already applied by the 'enum' part).

    Returns None when the baseline itself misbehaves (raises, or leaves the tree mutated): that is
    the 'enum' part's finding, the dependent part is skipped and counted.
    """
    keys = []
    snap = subj.snap
    try:
        for _ in make_mutator({"kind": "first"}).mutate(subj.tree, subj.module):
            slots = snap.slots()
            keys.append(tuple(sorted((s.holder, s.field, -1 if s.pos is None else s.pos, _dump_any(s.new))
                                     for s in slots)))
    except Exception:  # noqa: BLE001
        keys = None
    if snap.dirty():
        snap.restore()
        keys = None
    if keys is None:
        ck.col.count("baseline_unusable")
    return keys


# ---------------------------------------------------------------- shards
def shard(col, what, tier, *args):
    import time
    P.load()
    t0 = time.time()
    if what == "gen":
        specs, level = args
        for spec in specs:
            run_generated(col, spec, tier, level)
        label = f"gen:{level}:{len(specs)} modules"
    elif what == "std":
        name, part = args
        run_stdlib(col, name, tier, part)
        label = f"std:{name}:{part}"
    else:
        raise AssertionError(what)
    col.notes["task_seconds"] = [f"{time.time() - t0:08.2f} {label}"]   # informational only


def gen_plan(tier):
    """[(spec, level)] for the tier."""
    from mc import c28_modules as cm
    names = cm.MENU_NAMES
    out = []

    def with_super(b):
        return sorted({*b, "super"}, key=names.index)

    if tier == "quick":
        for b in cm.bodies(1):
            for kind in cm.KINDS:
                out.append(([[kind, list(b)]], "full"))
        for b in cm.bodies(2):
            out.append(([["plain", list(b)]], "medium"))
        for n in names:
            if n != "super":
                out.append(([["method", with_super([n])]], "medium"))
        for n in names:
            out.append(([["deco", [n]], ["method", ["ret"]]], "medium"))
    else:
        for kind in cm.KINDS:
            for k in (1, 2):
                for b in cm.bodies(k):
                    out.append(([[kind, list(b)]], "full" if k == 1 or kind == "plain" else "medium"))
        for k1, k2 in cm.KIND_PAIRS_THOROUGH:
            for b1 in cm.bodies(1):
                for b2 in cm.bodies(1):
                    if k1 == k2 and b2 < b1:
                        continue
                    out.append(([[k1, list(b1)], [k2, list(b2)]], "lite"))
        for b in cm.bodies(3):
            out.append(([["plain", list(b)]], "lite"))
        for b in cm.bodies(2):
            if "super" not in b:
                out.append(([["method", with_super(b)]], "lite"))
    return out


def std_plan(tier, totals):
    """[(module, part)].  quick needs no totals (symbolic ranges); thorough splits by them."""
    from mc import c28_modules as cm
    tasks = []
    for name in cm.STDLIB:
        small = name in cm.STDLIB_SMALL
        tasks.append((name, "enum"))
        if tier == "quick":
            if name not in cm.STDLIB_QUICK:
                continue
            tasks.append((name, "abandon-1op"))
            tasks.append((name, "hom:FirstToLast:2:identity:count"))
            if small:
                tasks.append((name, "hom:Random:2:reverse:nocount"))
                tasks.append((name, "hom:EachChoice:1:identity:count"))
                tasks.append((name, "hom:BetweenOperators:2:identity:nocount"))
                tasks.append((name, "ctrl"))
                tasks.append((name, "caps:0:12:" + ",".join(SAMPLE_ANSWERS)))
                tasks.append((name, "capsends:" + ",".join(SAMPLE_ANSWERS)))
                tasks.append((name, "abandon:plain:0:end:1"))
            else:
                tasks.append((name, "caps:0:3:first"))
                tasks.append((name, "capsends:last"))
            for c in ("ctrl", "hom"):
                tasks.append((name, f"abandon:{c}:1:end:/5"))
        else:
            m = totals[name]
            cheap = name in cm.STDLIB_QUICK
            tasks.append((name, "abandon-1op"))
            for cfg in hom_cfgs():
                tasks.append((name, f"hom:{cfg['strategy']}:{cfg['order']}:{cfg['shuffle']}:"
                                    f"{'count' if cfg['shuffle'] == 'identity' else 'nocount'}"))
            tasks.append((name, "ctrl"))
            # every cap 0..total+1 on the cheaper modules, 0..12 and every 10th on the others
            step = 30
            for lo in range(0, m + 2, step):
                tasks.append((name, f"caps:{lo}:{lo + step - 1}:first" + ("" if cheap else ":10")))
            tasks.append((name, "caps:0:12:" + ("last,stride,mt-seed0" if cheap else ",".join(SAMPLE_ANSWERS))))
            tasks.append((name, "capsends:" + ",".join(SAMPLE_ANSWERS)))
            for lo in range(0, m + 2, 60):
                tasks.append((name, f"abandon:plain:{lo}:{min(m + 1, lo + 59)}:{1 if cheap else 5}"))
            for c in ("reorder", "ctrl", "hom", "homrand", "hombetween", "homeach"):
                tasks.append((name, f"abandon:{c}:1:end:/12"))
    return tasks


def count_total(col, name):
    """Mutant total of a stdlib module (needed to lay out the plan)."""
    from mc import c28_modules as cm
    P.load()
    module, src = cm.stdlib_source(name)
    tree = P.create_ast(src)
    col.note("total:" + name, P.mu.FirstOrderMutator(list(P.prod_ops)).mutation_count(tree, module))


# ---------------------------------------------------------------- entry points
def run(ctx):
    from mc import par
    tier = ctx.tier
    from mc import c28_modules as cm
    totals = {}
    if tier != "quick":
        pre = par.run_shards("props.c28_mutants:count_total", [(n,) for n in cm.STDLIB], ctx.workers)
        totals = {k.split(":", 1)[1]: v for p in pre for k, v in p.notes.items() if k.startswith("total:")}
    plan = gen_plan(tier)
    rot = ctx.seed % max(1, len(plan))
    plan = plan[rot:] + plan[:rot]
    nchunks = 96 if tier == "quick" else 480
    jobs = []
    for part in std_plan(tier, totals):
        jobs.append(("std", tier, *part))
    for lvl in ("full", "medium", "lite"):
        specs = [s for s, l in plan if l == lvl]
        for i in range(nchunks):
            chunk = specs[i::nchunks]
            if chunk:
                jobs.append(("gen", tier, chunk, lvl))
    par.run_shards("props.c28_mutants:shard", jobs, ctx.workers, ctx)
    c = ctx.col.counters
    sets = ctx.col.sets
    P.load()
    want = {o.__name__ for o in P.prod_ops + P.extra_ops}
    fired = sets.get("operators_fired", set())
    crashed = any("|enumeration-raises:" in fp for fp in ctx.col.violations)
    ctx.require(want <= fired or crashed, f"vacuous: operators never fired: {sorted(want - fired)}")
    totals = {k.split(":", 1)[1]: ctx.col.notes.pop(k) for k in sorted(ctx.col.notes) if k.startswith("total:")}
    ctx.require(sorted(totals) == sorted(cm.STDLIB), "not every stdlib module was enumerated")
    ctx.require(c.get("modules", 0) == len(plan) + len(totals), "not every planned module was run")
    for key in ("mutants_checked", "abandonments", "cap_checks", "inclusion_checks", "count_checks",
                "reference_checks", "ctrl_modules_created"):
        ctx.require(c.get(key, 0) > 0, f"vacuous: no {key}")
    ctx.require(len(sets.get("nontrivial", ())) >= 2, "vacuous: fewer than two modules with mutants")
    ctx.require(not c.get("baseline_unusable") or ctx.col.violations,
                "a baseline enumeration failed but the per-step leg reported nothing")
    slow = sorted(ctx.col.notes.pop("task_seconds", []), reverse=True)
    ctx.note("slowest_tasks", slow[:8])
    ctx.note("tasks", len(jobs))
    ctx.note("generated_modules", len(plan))
    ctx.note("stdlib_modules", sorted(totals))
    ctx.note("stdlib_mutant_totals", totals)
    ctx.note("sample_answers", list(SAMPLE_ANSWERS))
    ctx.note("shuffle_answers", list(SHUFFLE_ANSWERS))
    ctx.note("operators_fired", len(fired))
    ctx.note("visitors_fired", len(sets.get("visitors_fired", ())))
    ctx.exhaustive = True
    ctx.rule = ("every generated module of the tier (menu of 37 statements exercising all 30 operators; quick: "
                "plain functions with <=2 statements, decorated functions / overriding methods with 1, methods "
                "with super() + 1, decorated function + method returning; thorough: every one-function module with <=2 "
                "statements, every plain/plain and decorated/method pair with 1+1, plain functions with 3, methods "
                "with super() + 2) and 29 stdlib modules x mutator configurations (plain, reorder, every cap "
                "0..min(total,12) [thorough: 0..total] x 4 sampling answers, 4 HOM strategies x order 1/2 x 3 "
                "shuffle answers, via MutationController) x every generator step; abandonment at every prefix "
                "length k by close / drop / break-out-of-for; a case is non-trivial if the module has at least "
                "one mutant; distinct = module")
    ctx.assume("generators abandoned by dropping the last reference are finalised immediately (CPython "
               "reference counting), as in the for/break loop of assertiongenerator.py")
    ctx.assume("stdlib mutants are compiled but never executed; on the stdlib corpus the identity snapshot "
               "(confirmed by ast.dump before any alarm is reported) replaces ast.dump except in the plain "
               "enumeration, where both run at every step")
    ctx.assume("cap sweeps and abandonment sweeps on generated modules use the sub-list of operators that "
               "yield a mutation for the module (the others only traverse); plain, reorder, HOM and controller "
               "enumerations use the full production list")
    ctx.assume("quick tier, stdlib: the per-step oracle (plain + reorder) runs on all 29 modules, the other legs "
               "on the 16 cheaper ones; abandonment at every k is enumerated per operator (one-operator "
               "FirstOrderMutator) on those and directly on the 6 smallest; thorough runs every leg on all 29")
    ctx.assume("'mutant equals original' compares ast.dump without position attributes (a tree that differs "
               "only in line/column numbers is not a different program)")


def replay(ctx, data):
    P.load()
    if data["corpus"] == "gen":
        subj = Subject.generated(data["module"])
    else:
        subj = Subject.stdlib(data["module"], reference=True)
    ck = Checker(ctx.col, subj)
    cfg = data["config"]
    if data.get("leg") == "abandon":
        ck.abandon(cfg, data["k"], data["mode"])
    else:
        full = collections.Counter(_plain_keys(ck, subj) or [])
        ck.enumerate(cfg, full)
