"""C10 — fitness values, coverage values and covered verdicts agree.

Bounded-exhaustive enumeration (E3) over the abstract trace domain of
``mc.tracedomain``: for every registry, EVERY abstract execution trace (per
predicate hit count 0/1/>=2 with true/false distances from {0, 5e-17, 0.5, 1, 7, inf}
that respect the tracer's invariant, every consistent subset of executed code
objects, every subset of covered and of checked lines) is wrapped in a real
``ExecutionResult`` behind a fake executor and evaluated through real
``TestCaseChromosome`` / ``TestSuiteChromosome`` objects by every fitness and
coverage function class of ``ga/computations.py`` and every goal class of
``ga/coveragegoals.py``. Suites: every trace alone, every trace paired with every
trace of the reduced alphabet, every multiset of three reduced-alphabet traces
(thorough: for the registries with <= 1500 traces, every trace combined with every
pair of reduced-alphabet traces), merged by the real ``analyze_results``.

Oracle (from the property statement): fitness finite, >= 0, not NaN; coverage in
[0, 1]; ``compute_is_covered`` <=> ``isclose(fitness, 0)``; the ``ComputationCache``
answers (is_covered asked before / after the fitness was computed, cached fitness,
cached coverage) agree with the direct computations; a suite's branch-distance
fitness is 0 <=> its branch coverage is 1 (likewise line and statement-checked
fitness vs. coverage, from the title "fitness values, coverage values and covered
verdicts agree"); goal ``is_covered`` never raises and agrees with the fitness
wrapper built around the goal.
"""

from __future__ import annotations

import itertools
import math

ID = "C10"
LEVEL = "exploration"

CHUNK_SINGLES = 400   # traces per shard task


# ---------------------------------------------------------------- function inventory
class Inventory:
    """All fitness / coverage functions and goals for one registry."""

    def __init__(self, reg, executor):
        import pynguin.ga.computations as ff
        import pynguin.ga.coveragegoals as bg

        sp = reg.sp
        self.test_fitness = []     # (name, function, goal or None)
        self.suite_fitness = []
        self.test_coverage = []
        self.suite_coverage = []
        self.test_fitness.append(("BranchDistanceTestCaseFitnessFunction",
                                  ff.BranchDistanceTestCaseFitnessFunction(executor, 0), None))
        pool = bg.BranchGoalPool(sp)
        for f in bg.create_branch_coverage_fitness_functions(executor, pool):
            goal = f.goal
            if isinstance(goal, bg.BranchGoal):
                name = f"BranchCoverageTestFitness[BranchGoal:{str(goal.value).lower()}]"
            else:
                name = f"BranchCoverageTestFitness[{type(goal).__name__}]"
            self.test_fitness.append((name, f, goal))
        for f in bg.create_line_coverage_fitness_functions(executor):
            self.test_fitness.append(("LineCoverageTestFitness[LineCoverageGoal]", f, f._goal))
        for f in bg.create_checked_coverage_fitness_functions(executor):
            self.test_fitness.append(
                ("StatementCheckedCoverageTestFitness[CheckedCoverageGoal]", f, f._goal))
        self.suite_fitness.append(("BranchDistanceTestSuiteFitnessFunction",
                                   ff.BranchDistanceTestSuiteFitnessFunction(executor), None))
        # restricted variants (restrict() is part of the class; is_covered <=> fitness == 0 must
        # hold for them too, the comparison with branch coverage is only made for the plain one)
        if reg.pred_ids:
            r1 = ff.BranchDistanceTestSuiteFitnessFunction(executor)
            r1.restrict(set(), {reg.pred_ids[0]}, set())
            self.suite_fitness.append(
                ("BranchDistanceTestSuiteFitnessFunction[restricted]", r1, None))
            r2 = ff.BranchDistanceTestSuiteFitnessFunction(executor)
            r2.restrict(set(reg.branchless[:1]), set(), {reg.pred_ids[-1]})
            self.suite_fitness.append(
                ("BranchDistanceTestSuiteFitnessFunction[restricted]", r2, None))
            # both outcomes of one predicate (and of all predicates) excluded: what
            # WholeSuiteAlgorithm._update_archive does once the archive covers a predicate entirely
            both = [{pid} for pid in reg.pred_ids] + ([set(reg.pred_ids)] if len(reg.pred_ids) > 1 else [])
            for excl in both:
                rb = ff.BranchDistanceTestSuiteFitnessFunction(executor)
                rb.restrict(set(), set(excl), set(excl))
                self.suite_fitness.append(
                    ("BranchDistanceTestSuiteFitnessFunction[restricted]", rb, None))
        elif reg.branchless:
            r3 = ff.BranchDistanceTestSuiteFitnessFunction(executor)
            r3.restrict(set(reg.branchless[:1]), set(), set())
            self.suite_fitness.append(
                ("BranchDistanceTestSuiteFitnessFunction[restricted]", r3, None))
        self.suite_fitness.append(("LineTestSuiteFitnessFunction",
                                   ff.LineTestSuiteFitnessFunction(executor), None))
        self.suite_fitness.append(("StatementCheckedTestSuiteFitnessFunction",
                                   ff.StatementCheckedTestSuiteFitnessFunction(executor), None))
        for cls in (ff.TestCaseBranchCoverageFunction, ff.TestCaseLineCoverageFunction,
                    ff.TestCaseStatementCheckedCoverageFunction,
                    ff.TestCaseAssertionCheckedCoverageFunction):
            self.test_coverage.append((cls.__name__, cls(executor)))
        for cls in (ff.TestSuiteBranchCoverageFunction, ff.TestSuiteLineCoverageFunction,
                    ff.TestSuiteStatementCheckedCoverageFunction,
                    ff.TestSuiteAssertionCheckedCoverageFunction):
            self.suite_coverage.append((cls.__name__, cls(executor)))
        # which suite fitness goes with which suite coverage (fitness == 0 <=> coverage == 1)
        self.pairs = [("BranchDistanceTestSuiteFitnessFunction", "TestSuiteBranchCoverageFunction"),
                      ("LineTestSuiteFitnessFunction", "TestSuiteLineCoverageFunction"),
                      ("StatementCheckedTestSuiteFitnessFunction",
                       "TestSuiteStatementCheckedCoverageFunction")]


def concrete_function_classes():
    """Every concrete fitness / coverage function class and goal class pynguin defines there."""
    import abc
    import inspect

    import pynguin.ga.computations as ff
    import pynguin.ga.coveragegoals as bg

    fit, cov, goals = set(), set(), set()
    for mod in (ff, bg):
        for _n, cls in inspect.getmembers(mod, inspect.isclass):
            if (cls.__module__ != mod.__name__ or inspect.isabstract(cls)
                    or abc.ABC in cls.__bases__ or cls.__name__.startswith("Abstract")):
                continue
            if issubclass(cls, ff.FitnessFunction) and cls is not ff.FitnessFunction:
                fit.add(cls.__name__)
            if issubclass(cls, ff.CoverageFunction) and cls is not ff.CoverageFunction:
                cov.add(cls.__name__)
            if issubclass(cls, bg.AbstractCoverageGoal):
                goals.add(cls.__name__)
    return fit, cov, goals


# ---------------------------------------------------------------- the oracle
def _call(fn, *a):
    try:
        return True, fn(*a)
    except Exception as exc:  # noqa: BLE001
        return False, type(exc).__name__


def _range_sig(v):
    if isinstance(v, bool) or not isinstance(v, (int, float)):
        return "non-number"
    if math.isnan(v):
        return "nan"
    if math.isinf(v):
        return "inf"
    if v < 0:
        return "negative"
    return None


class Checker:
    def __init__(self, col, reg, lab, inv):
        self.col, self.reg, self.lab, self.inv = col, reg, lab, inv
        self.regclass = "preds>=1" if reg.pred_ids else "preds=0"

    def bad(self, fname, check, sig, what, specs, level):
        from mc import tracedomain as td

        rank = 1000 * len(specs) + sum(
            len(s[0]) + len(s[2]) + len(s[3]) + 3 * sum(1 for p in s[1] if p is not None)
            for s in specs) + 50 * len(self.reg.code_objects) + 20 * len(self.reg.pred_ids)
        fp = f"C10|{fname}|{check}|{self.regclass}|{sig}"
        old = self.col.violations.get(fp)
        if old is not None and old["rank"] <= rank:
            old["n"] += 1                      # same defect, not a smaller witness
            self.col.count("violating_cases")
            return
        self.col.violation(
            fp,
            f"registry {self.reg.name}, {level} of {len(specs)} trace(s): {fname}: {what}",
            {"registry": self.reg.name, "level": level, "function": fname,
             "specs": [td.spec_to_json(s) for s in specs]}, rank=rank)

    def fitness(self, fname, f, make, specs, level):
        """All fitness-side checks for function f on the individual produced by make()."""
        col = self.col
        col.count("evaluations")
        x = make()
        ok1, fit = _call(f.compute_fitness, x)
        ok2, cov = _call(f.compute_is_covered, x)
        if not ok1:
            self.bad(fname, "raises", f"compute_fitness:{fit}", f"compute_fitness raised {fit}",
                     specs, level)
        if not ok2:
            self.bad(fname, "raises", f"compute_is_covered:{cov}",
                     f"compute_is_covered raised {cov}", specs, level)
        if not (ok1 and ok2):
            return None
        sig = _range_sig(fit)
        if sig:
            self.bad(fname, "fitness-range", sig, f"fitness {fit!r}", specs, level)
            return None
        zero = math.isclose(fit, 0.0)
        col.distinct("outcomes", (fname, round(float(fit), 9), bool(cov)))
        if bool(cov) != zero:
            s = "fitness=0,is_covered=False" if zero else "fitness>0,is_covered=True"
            self.bad(fname, "covered-iff-zero", s,
                     f"compute_fitness = {fit!r} but compute_is_covered = {cov!r}", specs, level)
        return fit, cov

    def cache_paths(self, funcs, make, specs, level, direct):
        """ComputationCache: is_covered asked before and after the fitness, cached fitness."""
        xa, xb = make(), make()
        for _n, f, _g in funcs:
            xa.add_fitness_function(f)
            xb.add_fitness_function(f)
        before = {}
        for i, (fname, f, _g) in enumerate(funcs):
            before[i] = _call(xa.get_is_covered, f)
        for i, (fname, f, _g) in enumerate(funcs):
            if direct.get(i) is None:
                continue
            fit, cov = direct[i]
            self.col.count("evaluations")
            ok_b, cov_before = before[i]
            ok_f, fit_a = _call(xa.get_fitness_for, f)
            ok_a, cov_after = _call(xa.get_is_covered, f)
            ok_f2, fit_b = _call(xb.get_fitness_for, f)
            ok_c2, cov_b = _call(xb.get_is_covered, f)
            for ok, val, meth in ((ok_b, cov_before, "get_is_covered"), (ok_f, fit_a, "get_fitness_for"),
                                  (ok_a, cov_after, "get_is_covered"), (ok_f2, fit_b, "get_fitness_for"),
                                  (ok_c2, cov_b, "get_is_covered")):
                if not ok:
                    self.bad(fname, "raises", f"{meth}:{val}", f"{meth} raised {val}", specs, level)
            if not (ok_b and ok_f and ok_a and ok_f2 and ok_c2):
                continue
            if fit_a != fit or fit_b != fit:
                self.bad(fname, "cache-fitness", "differs",
                         f"cached fitness {fit_a!r}/{fit_b!r}, direct {fit!r}", specs, level)
            if not (bool(cov_before) == bool(cov_after) == bool(cov_b)):
                s = (f"direct is_covered={bool(cov_before)},derived={bool(cov_after)}")
                self.bad(fname, "cache-covered", s,
                         f"get_is_covered before the fitness was computed = {cov_before!r}, "
                         f"after = {cov_after!r}, fitness-first = {cov_b!r} (fitness {fit!r})",
                         specs, level)
            elif bool(cov_before) != bool(cov):
                self.bad(fname, "cache-covered", "cache-differs-from-direct",
                         f"cache says {cov_before!r}, compute_is_covered says {cov!r}", specs, level)

    def coverage(self, funcs, make, specs, level, cache=True):
        col = self.col
        x = make()
        out = {}
        if cache:
            xc = make()
            for cname, c in funcs:
                xc.add_coverage_function(c)
        for cname, c in funcs:
            col.count("evaluations")
            ok, val = _call(c.compute_coverage, x)
            if not ok:
                self.bad(cname, "raises", f"compute_coverage:{val}", f"compute_coverage raised {val}",
                         specs, level)
                continue
            sig = _range_sig(val)
            if sig is None and val > 1:
                sig = ">1"
            if sig:
                self.bad(cname, "coverage-range", sig, f"coverage {val!r}", specs, level)
                continue
            col.distinct("outcomes", (cname, round(float(val), 9)))
            out[cname] = val
            if not cache:
                continue
            ok2, cval = _call(xc.get_coverage_for, c)
            if not ok2:
                self.bad(cname, "raises", f"get_coverage_for:{cval}",
                         f"get_coverage_for raised {cval}", specs, level)
            elif cval != val:
                self.bad(cname, "cache-coverage", "differs", f"cached {cval!r}, direct {val!r}",
                         specs, level)
        return out

    # -------------------------------------------------------------- one individual
    def test_case(self, spec):
        inv, lab = self.inv, self.lab
        specs = [spec]

        def make():
            return lab.chromosome(spec)

        direct = {}
        for i, (fname, f, goal) in enumerate(inv.test_fitness):
            direct[i] = self.fitness(fname, f, make, specs, "test case")
            if goal is not None:
                # the goal object itself: never raises, agrees with the wrapper
                x = make()
                result = lab.executor.execute(x.test_case)
                ok, g = _call(goal.is_covered, result)
                gname = f"{type(goal).__name__}"
                self.col.count("evaluations")
                if not ok:
                    self.bad(gname, "raises", f"is_covered:{g}", f"goal.is_covered raised {g}",
                             specs, "test case")
                elif direct[i] is not None and bool(g) != bool(direct[i][1]):
                    self.bad(gname, "goal-vs-wrapper", "differs",
                             f"goal.is_covered = {g!r}, fitness wrapper says {direct[i][1]!r}",
                             specs, "test case")
        self.cache_paths(inv.test_fitness, make, specs, "test case", direct)
        self.coverage(inv.test_coverage, make, specs, "test case")

    def suite(self, specs, chromosomes=None, cache=True):
        inv, lab = self.inv, self.lab

        def make():
            if chromosomes is None:
                return lab.suite_of_specs(specs)
            return lab.suite(chromosomes)

        direct = {}
        for i, (fname, f, _g) in enumerate(inv.suite_fitness):
            direct[i] = self.fitness(fname, f, make, specs, "suite")
        if cache:
            self.cache_paths(inv.suite_fitness, make, specs, "suite", direct)
        covs = self.coverage(inv.suite_coverage, make, specs, "suite", cache)
        by_name = {}
        for i, (fname, _f, _g) in enumerate(inv.suite_fitness):
            by_name.setdefault(fname, direct[i])
        for fname, cname in inv.pairs:
            if by_name.get(fname) is None or cname not in covs:
                continue
            self.col.count("evaluations")
            fit, cov = by_name[fname][0], covs[cname]
            zero, full = math.isclose(fit, 0.0), math.isclose(cov, 1.0)
            if zero != full:
                s = "fitness=0,coverage<1" if zero else "fitness>0,coverage=1"
                self.bad(f"{fname}~{cname}", "fitness-vs-coverage", s,
                         f"suite fitness {fit!r} but coverage {cov!r}", specs, "suite")


def _note_case(col, reg, lab, specs):
    """Distinct / non-trivial bookkeeping: a case is (registry, merged projection)."""
    from mc import tracedomain as td
    from pynguin.ga.fitness_metrics import analyze_results

    merged = analyze_results([td.make_result(reg, s) for s in specs])
    proj = td.projection(merged)
    key = (reg.name, proj)
    col.distinct("cases", key)
    if any(proj):
        col.distinct("nontrivial", key)


# ---------------------------------------------------------------- shards
SMALL = 1500          # thorough: registries with <= SMALL traces get (trace, a, b) triples


def shard(col, reg_name, mode, lo, hi, tier):
    from mc import tracedomain as td

    reg = td.build_registry(reg_name)
    lab = td.Lab(reg)
    inv = Inventory(reg, lab.executor)
    chk = Checker(col, reg, lab, inv)
    alphabet = td.reduced_alphabet(reg)
    alpha_chroms = [lab.chromosome(s) for s in alphabet]
    items = list(zip(alphabet, alpha_chroms))
    deep = tier == "thorough" and td.count_specs(reg) <= SMALL
    if mode == "singles":
        for n, spec in enumerate(itertools.islice(td.all_specs(reg), lo, hi)):
            col.count("traces")
            chk.test_case(spec)
            chk.suite([spec])
            _note_case(col, reg, lab, [spec])
            col.sample({"registry": reg_name, "suite": [td.spec_to_json(spec)]}, every=997)
            # every trace paired with every reduced-alphabet trace (the cache paths depend only
            # on the values checked here; they are exercised on singles and alphabet triples)
            c = lab.chromosome(spec)
            for a, ac in items:
                col.count("suites_of_2")
                chk.suite([spec, a], [c, ac], cache=False)
            if deep:
                for (a, ac), (b, bc) in itertools.combinations_with_replacement(items, 2):
                    col.count("suites_of_3")
                    chk.suite([spec, a, b], [c, ac, bc], cache=False)
            if n % 64 == 0:
                lab.executor.forget()
                for s, ch in items:
                    lab.executor.attach(ch.test_case, s)
    elif mode == "triples":
        for k, combo in enumerate(itertools.combinations_with_replacement(items, 3)):
            if not (lo <= k < hi):
                continue
            col.count("suites_of_3")
            specs = [c[0] for c in combo]
            chk.suite(specs, [c[1] for c in combo])
            _note_case(col, reg, lab, specs)
            col.sample({"registry": reg_name, "suite": [td.spec_to_json(s) for s in specs]},
                       every=4999)
            if k % 256 == 0:
                lab.executor.forget()
                for s, ch in items:
                    lab.executor.attach(ch.test_case, s)
    col.note(f"registry_{reg_name}", reg.describe())


# ---------------------------------------------------------------- conformance leg: real traces
class _RealReg:
    """What Inventory / Checker need from a registry, over a real corpus module."""

    def __init__(self, name, props):
        self.name = name
        self.sp = props
        self.pred_ids = sorted(props.existing_predicates)
        self.branchless = sorted(props.branch_less_code_objects)
        self.code_objects = sorted(props.existing_code_objects)


def _make_replay_executor(props, module_provider):
    from pynguin.testcase.execution import AbstractTestCaseExecutor

    class ReplayExecutor(AbstractTestCaseExecutor):
        """Answers with the stored REAL execution result of the (deterministic) test case."""

        def __init__(self):
            self._by_id = {}
            self.executions = 0

        def attach(self, test_case, result):
            self._by_id[id(test_case)] = (test_case, result)

        def forget(self):
            self._by_id.clear()

        @property
        def module_provider(self):
            return module_provider

        def add_observer(self, observer):
            raise NotImplementedError

        def clear_observers(self):
            pass

        def temporarily_add_observer(self, observer):
            import contextlib
            return contextlib.nullcontext()

        def add_remote_observer(self, remote_observer):
            raise NotImplementedError

        def clear_remote_observers(self):
            pass

        def temporarily_add_remote_observer(self, remote_observer):
            import contextlib
            return contextlib.nullcontext()

        @property
        def subject_properties(self):
            return props

        def execute(self, test_case):
            owner, result = self._by_id[id(test_case)]
            assert owner is test_case
            self.executions += 1
            return result

    return ReplayExecutor()


class _RealLab:
    def __init__(self, executor, tests, results):
        import pynguin.ga.testcasechromosome as tcc
        import pynguin.ga.testsuitechromosome as tsc

        self.executor, self.tests, self.results = executor, tests, results
        self._tcc, self._tsc = tcc, tsc

    def chromosome(self, i):
        t = self.tests[i].clone()
        self.executor.attach(t, self.results[i])
        return self._tcc.TestCaseChromosome(test_case=t)

    def suite(self, chromosomes):
        suite = self._tsc.TestSuiteChromosome()
        for c in chromosomes:
            suite.add_test_case_chromosome(c)
        return suite

    def suite_of_specs(self, idxs):
        return self.suite([self.chromosome(i) for i in idxs])


class RealChecker(Checker):
    def bad(self, fname, check, sig, what, specs, level):
        lab = self.lab
        rank = 1000 * len(specs) + sum(lab.tests[i].size() for i in specs)
        fp = f"C10|{fname}|{check}|{self.regclass}|{sig}"
        self.col.violation(fp, f"corpus module {self.reg.name}, {level} of real test case(s) "
                           + " / ".join(lab.tests[i].to_code().strip().replace("\n", "; ") for i in specs)
                           + f": {fname}: {what}",
                           {"level": "real", "module": self.reg.name, "function": fname,
                            "tests": [lab.tests[i].to_code() for i in specs]}, rank=rank)


def conformance_problems(props, trace):
    """Does a REAL trace lie inside the abstract trace domain of mc.tracedomain?"""
    out = []
    ex, td_, fd = set(trace.executed_predicates), set(trace.true_distances), set(trace.false_distances)
    if not (ex == td_ == fd):
        out.append("predicate-without-both-distances")
    for pid in ex & td_ & fd:
        t, f = trace.true_distances[pid], trace.false_distances[pid]
        if not (t >= 0 and f >= 0):   # also false for NaN
            out.append("negative-or-nan-distance")
        elif min(t, f) != 0.0:
            out.append("no-zero-distance")
        elif trace.executed_predicates[pid] == 1 and t == 0.0 and f == 0.0:
            out.append("both-zero-after-one-evaluation")
        if pid not in props.existing_predicates:
            out.append("unregistered-predicate")
        elif props.existing_predicates[pid].code_object_id not in trace.executed_code_objects:
            out.append("predicate-of-unexecuted-code-object")
    if not set(trace.executed_code_objects) <= set(props.existing_code_objects):
        out.append("unregistered-code-object")
    if not set(trace.covered_line_ids) <= set(props.existing_lines):
        out.append("unregistered-line")
    if not set(trace.checked_lines) <= set(props.existing_lines):
        out.append("unregistered-checked-line")
    return out


def shard_real(col, module, limit):
    """The same oracle on REAL execution results (population of a corpus module), and the check
    that every real trace lies inside the abstract domain the exhaustive leg enumerates."""
    import logging
    import shutil
    import tempfile

    from mc import pipeline

    logging.disable(logging.CRITICAL)
    scratch = tempfile.mkdtemp(prefix="c10_", dir="/dev/shm")
    try:
        pipe = pipeline.Pipe(module, scratch, coverage=("BRANCH", "LINE", "CHECKED"))
        props = pipe.sut.props
        tests, _ = pipe.population(bound=1, limit=limit)
        results = [pipe.executor.execute(t) for t in tests]
        for t, r in zip(tests, results):
            col.count("real_traces")
            col.count("traces_validated_against_domain")
            probs = conformance_problems(props, r.execution_trace)
            for p in probs:
                col.distinct("domain_escapes", (module, p))
                col.note("domain_escape_example", f"{module}: {p}: {t.to_code()!r}")
        reg = _RealReg(module, props)
        executor = _make_replay_executor(props, pipe.executor.module_provider)
        lab = _RealLab(executor, tests, results)
        chk = RealChecker(col, reg, lab, Inventory(reg, executor))
        # trace-distinct representatives for pairs
        reps, seen = [], set()
        from mc import tracedomain as td
        for i, r in enumerate(results):
            key = td.projection(r.execution_trace)
            if key not in seen:
                seen.add(key)
                reps.append(i)
        for i in range(len(tests)):
            chk.test_case(i)
            chk.suite([i])
            col.distinct("real_cases", (module, td.projection(results[i].execution_trace)))
        for i, j in itertools.combinations(reps, 2):
            col.count("real_suites_of_2")
            chk.suite([i, j], cache=False)
        for trio in itertools.islice(itertools.combinations(reps, 3), 400):
            col.count("real_suites_of_3")
            chk.suite(list(trio), cache=False)
        col.note(f"real_{module}", {"tests": len(tests), "trace_distinct": len(reps),
                                    "predicates": len(reg.pred_ids), "branchless": len(reg.branchless)})
        pipe.close()
    finally:
        shutil.rmtree(scratch, ignore_errors=True)


# ---------------------------------------------------------------- entry points
def _inventory_guard(ctx):
    from mc import tracedomain as td

    fit, cov, goals = concrete_function_classes()
    reg = td.build_registry("seq")
    lab = td.Lab(reg)
    inv = Inventory(reg, lab.executor)
    used_fit = {type(f).__name__ for _n, f, _g in inv.test_fitness + inv.suite_fitness}
    used_cov = {type(c).__name__ for _n, c in inv.test_coverage + inv.suite_coverage}
    used_goals = {type(g).__name__ for _n, _f, g in inv.test_fitness if g is not None}
    ctx.require(fit <= used_fit, f"fitness classes not exercised: {sorted(fit - used_fit)}")
    ctx.require(cov <= used_cov, f"coverage classes not exercised: {sorted(cov - used_cov)}")
    ctx.require(goals <= used_goals, f"goal classes not exercised: {sorted(goals - used_goals)}")
    ctx.note("fitness_classes", sorted(fit))
    ctx.note("coverage_classes", sorted(cov))
    ctx.note("goal_classes", sorted(goals))


def run(ctx):
    import random

    from mc import par
    from mc import tracedomain as td

    _inventory_guard(ctx)
    tasks = []
    total = 0
    for name in td.registry_names(ctx.tier):
        reg = td.build_registry(name)
        n = td.count_specs(reg)
        total += n
        chunk = 40 if (ctx.thorough and n <= SMALL) else CHUNK_SINGLES
        for lo in range(0, n, chunk):
            tasks.append((name, "singles", lo, min(n, lo + chunk), ctx.tier))
        a = len(td.reduced_alphabet(reg))
        ntr = a * (a + 1) * (a + 2) // 6
        for lo in range(0, ntr, 3000):
            tasks.append((name, "triples", lo, min(ntr, lo + 3000), ctx.tier))
    random.Random(ctx.seed).shuffle(tasks)
    par.run_shards("props.c10_fitness_agree:shard", tasks, ctx.workers, ctx)
    # conformance leg: the oracle on real execution results + real traces lie in the abstract domain
    real_modules = ["numeric", "shapes", "raising"] if ctx.quick else \
        ["numeric", "shapes", "raising", "containers", "strings", "lambdas"]
    par.run_shards("props.c10_fitness_agree:shard_real",
                   [(m, 60 if ctx.quick else 150) for m in real_modules], ctx.workers, ctx)
    escapes = sorted(ctx.col.sets.get("domain_escapes", ()))
    ctx.require(not escapes, f"real traces escape the abstract trace domain: {escapes} "
                f"({ctx.col.notes.get('domain_escape_example')})")
    ctx.require(ctx.col.counters.get("real_traces", 0) >= 40, "vacuous: too few real traces")
    ctx.note("real_modules", real_modules)
    ctx.require(ctx.col.counters.get("traces", 0) == total,
                f"enumerated {ctx.col.counters.get('traces', 0)} traces, expected {total}")
    ctx.require(len(ctx.col.sets.get("outcomes", ())) > 40, "vacuous: too few distinct outcomes")
    ctx.require(len(ctx.col.sets.get("nontrivial", ())) >= 2, "vacuous: no non-trivial case")
    ctx.note("registries", td.registry_names(ctx.tier))
    ctx.note("distances", ["absent", 0.0, 5e-17, 0.5, 1.0, 7.0, "inf"])
    ctx.note("hit_counts", [0, 1, 2])
    ctx.exhaustive = True
    ctx.rule = ("a case is (registry, multiset of <= 3 abstract traces); distinct by the "
                "coverage/fitness-relevant projection of the merged trace; non-trivial if that "
                "projection is non-empty")
    ctx.assume("traces respect the tracer's invariant: a predicate has both distances iff it was "
               "executed, exactly one distance is 0 after one evaluation, the code object of an "
               "executed predicate is executed; ids are registered ids")
    ctx.assume("predicate states are combined freely: traces in which a control-dependent "
               "predicate ran although its controlling predicate did not are included "
               "(over-approximation of what the tracer can produce; none of them raised an alarm)")
    ctx.assume("hit count 2 represents every count >= 2; distances are drawn from "
               "{0, 5e-17, 0.5, 1, 7, inf} (NaN and negative distances are C04's subject)")
    ctx.assume("assertion-checked coverage is exercised with an empty executed_assertions list "
               "only (slicing real instruction traces is C09's subject)")


def replay(ctx, data):
    from mc import tracedomain as td

    if data.get("level") == "real":
        from mc.ctx import Collector
        col = Collector()
        shard_real(col, data["module"], 150)
        ctx.merge(col)
        return
    reg = td.build_registry(data["registry"])
    lab = td.Lab(reg)
    chk = Checker(ctx.col, reg, lab, Inventory(reg, lab.executor))
    specs = [td.spec_from_json(s) for s in data["specs"]]
    if data["level"] == "test case":
        chk.test_case(specs[0])
    else:
        chk.suite(specs)
