"""C32 — non-terminating tests time out without polluting later executions.

E4: the real TestCaseExecutor runs sequences [looping test, terminating test(s)]
under the cooperative scheduler of ``mc.sched``: real threads, one baton,
scheduling points at every tracer callback, after ``check()``, at ``stop()``,
statement boundaries and the isolation context managers; ``Thread.join(timeout)``
is an environment choice (the timeout may fire after any number <= H of steps of
the other threads). All schedules with <= d deviations from the default
("running thread continues; the timeout fires when the looping thread has used
its horizon") are enumerated; each violating schedule is replayed and must
reproduce identically before it is reported.

Oracle per complete schedule: no deadlock/hang; the looping test's result has
timeout=True; every later terminating test's result (timeout flag, exception
types by position, covered lines, branch outcomes) has nothing that its solo run
does not have ("adds nothing"); a lost or truncated later result is reported
under a separate ``later-result-lost`` family; stdout/stderr and the tracer are
sane at the end.

A free-running leg (real clock, small real timeouts) runs the same sequences
without the scheduler: same oracle plus the wall-clock bound.
"""

from __future__ import annotations

import sys
import time

from mc import explore, par, pyn, sched

ID = "C32"
LEVEL = "model_checking"

SUT = '''
import time


def spin(n):
    x = 0
    while x >= 0:
        x += 1
    return x


def spin_catch(n):
    x = 0
    caught = 0
    while x >= 0:
        try:
            x += 1
            if x > 100000000:
                x = 0
        except BaseException:
            caught += 1
            if caught > 2:
                raise


def sleepy(n):
    while True:
        time.sleep(0.01)


def ok(a):
    if a > 1:
        return "big"
    return "small"


def ok_loop(a):
    s = 0
    for i in range(a):
        if i % 2:
            s += i
    return s


def boom(a):
    if a:
        raise ValueError("boom")
    return 0
'''

SEQUENCES = [
    ["spin(1)", "ok(2)"],
    ["spin(1)", "ok_loop(3)", "ok(0)"],
    ["spin_catch(1)", "ok(2)"],
    ["sleepy(1)", "ok_loop(2)"],
    ["spin(1)", "boom(1)"],
    ["spin(1)", "spin(2)", "ok(2)"],
    ["ok(2)", "spin(1)", "ok(0)"],
]
LOOPING = ("spin", "spin_catch", "sleepy")


def observe(sut, result):
    tr = result.execution_trace
    lines = sorted(sut.props.lineids_to_linenos(tr.covered_line_ids))
    branches = sorted((pid, "T") for pid, d in tr.true_distances.items() if d == 0.0) + \
        sorted((pid, "F") for pid, d in tr.false_distances.items() if d == 0.0)
    return {"timeout": bool(result.timeout),
            "exceptions": sorted((pos, type(e).__name__) for pos, e in result.exceptions.items()),
            "lines": lines, "branches": [list(b) for b in branches],
            "code_objects": sorted(tr.executed_code_objects)}


def make_tc(sut, call):
    return pyn.test_case(f"var_0 = {sut.name}_.{call}")


def _late_started_thread_during(s, i):
    """Did the thread of an earlier (abandoned) test enter the tracer only after test i's thread had been started?"""
    starts = [k for k, (_who, lab, _nxt) in enumerate(s.log) if lab == "thread.start"]
    if i >= len(starts):
        return False
    begin = starts[i]
    end = starts[i + 1] if i + 1 < len(starts) else len(s.log)
    for t in range(1, i + 1):                      # threads of the earlier tests (thread k+1 runs test k)
        # the take-over happens in ExecutionTracer.__enter__, i.e. between the thread's 'out.enter' and its
        # first 'before-stmt': did that happen while test i was running?
        first = next((k for k, (who, lab, _nxt) in enumerate(s.log) if who == t and lab == "before-stmt"), None)
        if first is not None and begin < first < end:
            return True
    return False


def judge(col, seq, solo, obs, s, data, rank, prop="C32"):
    """Compare one complete schedule's observations with the oracle."""
    name = "+".join(c.split("(")[0] for c in seq)
    viol = []
    if s is not None and s.deadlock:
        viol.append((f"C32|{name}|hang|deadlock-or-horizon", "no enabled thread / hang"))
    for i, call in enumerate(seq):
        fn = call.split("(")[0]
        o = obs[i]
        if o is None:
            viol.append((f"C32|{name}|{fn}@{i}|no-result", "execute() did not return"))
            continue
        if fn in LOOPING:
            if not o["timeout"]:
                viol.append((f"C32|{name}|{fn}@{i}|looping-test-not-timeout", str(o)))
            continue
        ref = solo[call]
        if s is not None and s.env_timeouts[i] and o["timeout"]:
            # the environment let this test's own join time out: a timeout result is the
            # correct answer for it (it still must not contain anything extra)
            ref = dict(ref, timeout=True)
            if not (o["lines"] or o["branches"] or o["exceptions"] or o["code_objects"]):
                continue
        extra_lines = sorted(set(o["lines"]) - set(ref["lines"]))
        extra_br = [b for b in o["branches"] if b not in ref["branches"]]
        extra_exc = [e for e in o["exceptions"] if e not in ref["exceptions"]]
        extra_co = sorted(set(o["code_objects"]) - set(ref["code_objects"]))
        if extra_lines or extra_br or extra_exc or extra_co:
            viol.append((f"C32|{name}|{fn}@{i}|later-result-has-extra:"
                         f"{'lines' if extra_lines else ''}{'branches' if extra_br else ''}"
                         f"{'exceptions' if extra_exc else ''}{'codeobjects' if extra_co else ''}",
                         f"extra lines {extra_lines} branches {extra_br} exceptions {extra_exc} "
                         f"code objects {extra_co}"))
        elif o != ref:
            what = "timeout" if o["timeout"] and not ref["timeout"] else "missing-coverage"
            if s is not None and _late_started_thread_during(s, i):
                # root cause visible in the schedule: the thread of an EARLIER test, abandoned by a timeout
                # before it had taken a single step, took its first step while this test was running
                # (ExecutionTracer.__enter__ lets whichever thread enters last own the tracer)
                what += "/late-started-abandoned-thread"
            viol.append((f"C32|{name}|{fn}@{i}|later-result-lost:{what}", f"got {o} expected {ref}"))
    if sys.stdout is not sys.__stdout__ or sys.stderr is not sys.__stderr__:
        viol.append((f"C32|{name}|end|stdout-not-restored", ""))
        sys.stdout, sys.stderr = sys.__stdout__, sys.__stderr__
    # C32's statement is about the timeout being reported and about nothing being ADDED to later
    # results. Later results that are lost/truncated and process streams left redirected are
    # violations of C30 (isolation / independence from earlier tests); the C30 harness reuses this
    # machinery with prop="C30" and reports exactly those families.
    c30_family = ("later-result-lost", "stdout-not-restored")
    out = []
    for fp, what in viol:
        is30 = any(f in fp for f in c30_family)
        if (prop == "C30") != is30:
            continue
        fp = fp.replace("C32|", prop + "|zombie|", 1) if prop == "C30" else fp
        col.violation(fp, what, data, rank=rank)
        out.append((fp, what))
    return out


def run_schedule(sut, executor, seq, ch, horizon):
    """One complete execution of the sequence under the scheduler, driven by chooser ch."""
    obs = []
    with sched.scheduled(ch, horizon) as s:
        s.env_timeouts = []
        for call in seq:
            before = s.timeouts_fired
            try:
                r = executor.execute(make_tc(sut, call))
                obs.append(observe(sut, r))
            except sched.Deadlock:
                obs.append(None)
                s.env_timeouts.append(s.timeouts_fired - before)
                break
            s.env_timeouts.append(s.timeouts_fired - before)
        while len(obs) < len(seq):
            obs.append(None)
            s.env_timeouts.append(0)
    if s.error is not None:
        raise s.error
    return obs, s


def install_sleep(sut):
    def coop_sleep(_secs):
        s = sched.ACTIVE
        if s is not None:
            s.point("sleep")

    sut.module.time = type(sys)("time_shim")
    sut.module.time.sleep = coop_sleep


def shard(col, seq_idx, bound, horizon, max_execs, prop="C32"):
    import shutil
    import tempfile
    import textwrap

    seq = SEQUENCES[seq_idx]
    scratch = tempfile.mkdtemp(prefix="c32_", dir="/dev/shm")
    try:
        pyn.reset_config()
        with pyn.Sut(textwrap.dedent(SUT), scratch, name="c32_sut", coverage=("BRANCH",)) as sut:
            executor = sut.executor()
            # solo reference results (no scheduler, real threads, terminating tests only)
            solo = {}
            for call in seq:
                if call.split("(")[0] not in LOOPING:
                    solo[call] = observe(sut, executor.execute(make_tc(sut, call)))

            install_sleep(sut)
            outcomes = set()
            with sched.installed():
                def run(ch):
                    # a fresh executor per explored schedule: whatever an executor instance carries from
                    # one execution to the next must come from THIS schedule, not from an earlier one
                    return run_schedule(sut, sut.executor(), seq, ch, horizon)

                def on_exec(ch, res):
                    obs, s = res
                    col.count("traces_validated_against_impl")
                    col.count("transitions", len(s.log))
                    col.count("schedules")
                    if s.preemptions:
                        col.count("schedules_with_preemption")
                    if any(t.total_steps and not t.done for t in s.order[1:]):
                        col.count("schedules_with_leaked_thread")
                    # zombie ran after a later test started?
                    starts = [i for i, (who, lab, nxt) in enumerate(s.log) if lab == "thread.start"]
                    if len(starts) > 1 and any(who == 1 for (who, lab, nxt) in s.log[starts[1]:]):
                        col.count("schedules_zombie_overlaps_next_test")
                    key = repr(obs)
                    col.distinct("states", (seq_idx, key))
                    outcomes.add(key)
                    data = {"sequence": seq_idx, "choices": ch.choices, "horizon": horizon, "prop": prop}
                    viol = judge(col, seq, solo, obs, s, data, rank=ch.deviations * 1000 + len(ch.points), prop=prop)
                    if viol:
                        # replay-twice gate: the same schedule must give the same observation
                        obs2, _ = run(explore.Chooser(ch.choices, [(k, n) for (k, n, _) in ch.points]))
                        if repr(obs2) != key:
                            from mc.ctx import HarnessError
                            raise HarnessError(f"schedule replay diverged for sequence {seq}: "
                                               f"{key} vs {obs2!r}")
                    col.sample({"sequence": seq, "deviations": ch.deviations,
                                "schedule_len": len(s.log), "timeouts_fired": s.timeouts_fired,
                                "preemptions": s.preemptions,
                                "observed": [(o and {"timeout": o["timeout"], "lines": o["lines"]})
                                             for o in obs]}, every=97)

                n, capped = explore.explore_deviations(run, bound, on_exec, max_execs=max_execs)
                if capped:
                    col.count("capped_sequences")
            col.distinct("outcomes_per_sequence", (seq_idx, len(outcomes)))
            col.note(f"seq{seq_idx}_distinct_outcomes", len(outcomes))
    finally:
        shutil.rmtree(scratch, ignore_errors=True)


def shard_free(col, seq_idx, prop="C32"):
    """Free-running leg: real clock, real threads, small timeouts."""
    import shutil
    import tempfile
    import textwrap

    seq = SEQUENCES[seq_idx]
    scratch = tempfile.mkdtemp(prefix="c32f_", dir="/dev/shm")
    try:
        pyn.reset_config()
        with pyn.Sut(textwrap.dedent(SUT), scratch, name="c32_sut", coverage=("BRANCH",)) as sut:
            ref_exec = sut.executor()
            solo = {c: observe(sut, ref_exec.execute(make_tc(sut, c)))
                    for c in seq if c.split("(")[0] not in LOOPING}
            executor = sut.executor(maximum_test_execution_timeout=0.25,
                                    test_execution_time_per_statement=0.25)
            obs = []
            worst = 0.0
            for call in seq:
                t0 = time.monotonic()
                r = executor.execute(make_tc(sut, call))
                dt = time.monotonic() - t0
                worst = max(worst, dt)
                obs.append(observe(sut, r))
            col.count("free_running_executions", len(seq))
            col.count("transitions", len(seq))
            data = {"sequence": seq_idx, "free_running": True}
            judge(col, seq, solo, obs, None, data, rank=0, prop=prop)
            # configured bound 0.25 s + second join (0.25 s) + generous grace for a loaded machine
            if worst > 0.25 + 0.25 + 5.0:
                name = "+".join(c.split("(")[0] for c in seq)
                col.violation(f"C32|{name}|free-running|timeout-exceeds-bound-plus-grace",
                              f"slowest execute() took {worst:.2f}s", data)
            col.note("free_running_worst_execute_s", round(worst, 3))
            time.sleep(0.3)  # let abandoned threads die before the module goes away
    finally:
        shutil.rmtree(scratch, ignore_errors=True)


def run(ctx):
    bound = 2 if ctx.quick else 3
    horizon = 9 if ctx.quick else 11
    max_execs = 6000 if ctx.quick else 120000
    seqs = list(range(len(SEQUENCES)))
    # two horizons: the forced timeout then lands once before and once after the zombie's check()
    par.run_shards("props.c32_timeout:shard",
                   [(i, bound, h, max_execs) for i in seqs for h in (horizon, horizon + 1)],
                   ctx.workers, ctx)
    par.run_shards("props.c32_timeout:shard_free", [(i,) for i in (seqs if ctx.thorough else seqs[:4])],
                   min(4, ctx.workers), ctx)
    c = ctx.col.counters
    ctx.require(c.get("schedules", 0) > 100, "vacuous: too few schedules")
    ctx.require(c.get("schedules_with_preemption", 0) > 0, "vacuous: no schedule with a preemption")
    ctx.require(c.get("schedules_zombie_overlaps_next_test", 0) > 0,
                "vacuous: the abandoned thread never ran while a later test was executing")
    ctx.exhaustive = c.get("capped_sequences", 0) == 0
    ctx.note("deviation_bound", bound)
    ctx.note("horizon_steps_per_join", [horizon, horizon + 1])
    ctx.note("cap_per_sequence", max_execs)
    ctx.note("sequences", SEQUENCES)
    ctx.rule = (f"all schedules with <= {bound} deviations (preemptions at scheduling points + early "
                f"join-timeouts), horizon {horizon} steps per blocking join, for {len(SEQUENCES)} test "
                "sequences; states = distinct observation vectors per sequence; transitions = scheduling "
                "decisions taken")
    ctx.assume("threads switch only at the wrapped scheduling points (tracer callbacks, after check(), "
               "stop(), statement boundaries, isolation context managers); finer-grained data races are "
               "left to the free-running leg")
    ctx.assume("the free-running leg uses real timeouts of 0.25 s and allows 5 s grace on a loaded machine")


def replay(ctx, data):
    from mc.ctx import Collector
    col = Collector()
    if data.get("free_running"):
        shard_free(col, data["sequence"])
    else:
        # re-explore the one schedule
        import shutil
        import tempfile
        import textwrap
        seq = SEQUENCES[data["sequence"]]
        scratch = tempfile.mkdtemp(prefix="c32r_", dir="/dev/shm")
        try:
            pyn.reset_config()
            with pyn.Sut(textwrap.dedent(SUT), scratch, name="c32_sut", coverage=("BRANCH",)) as sut:
                executor = sut.executor()
                solo = {c: observe(sut, executor.execute(make_tc(sut, c)))
                        for c in seq if c.split("(")[0] not in LOOPING}
                install_sleep(sut)
                with sched.installed():
                    ch = explore.Chooser(data["choices"])
                    obs, s_ = run_schedule(sut, executor, seq, ch, data["horizon"])
                    judge(col, seq, solo, obs, s_, data, rank=0, prop=data.get("prop", "C32"))
                    print("schedule:", s_.log, "env timeouts per test:", s_.env_timeouts)
                    print("observed:", obs)
        finally:
            shutil.rmtree(scratch, ignore_errors=True)
    ctx.merge(col)
