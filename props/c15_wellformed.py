"""C15 — variation operators keep every test case well-formed.

E2 (stateless, deviation-bounded) exploration of the real TestFactory /
TestCaseMutation / crossover on real test clusters built from the corpus
modules. Every random draw pynguin makes goes through the ChoiceRNG seam; all
executions of every operation script with <= d non-default answers are run.
After EVERY operation the independent oracle ``mc.wellformed.check`` is applied:
valid Python, def-before-use, unique bound names, registry == recomputed
registry, fresh names really fresh, clone equal and independent, and (for
``mutate``'s insertion and for crossover) size <= configured chromosome_length
whenever the input respected it.
"""

from __future__ import annotations

import itertools

from mc import par, tcenum, wellformed
from mc.explore import Chooser, explore_deviations

ID = "C15"
LEVEL = "model_checking"

OPS = ["insert", "insert_at", "mutate", "mut_insert", "mut_delete", "mut_change", "delete", "mutate_value", "mutate_call", "change_call",
       "change_field", "change_type", "chop", "remove_unused"]
MODULES_QUICK = ["containers", "shapes", "numeric"]
MODULES_THOROUGH = ["containers", "shapes", "numeric", "strings", "raising"]
LENGTH_BOUND_OPS = ("mutate", "mut_insert")


def _classify(op, sig):
    return f"C15|{op}|{sig}"


def shard(col, module, chrom_len, base_n, seqs, max_execs):
    """Explore scripts base + seq for every (seq, bound) in seqs."""
    import pynguin.configuration as config

    scratch = _scratch()
    try:
        world = tcenum.World(module, scratch,
                             config_over={"search_algorithm__chromosome_length": chrom_len})
        world.index_full_upto = 12      # every callable of the module is a menu item of the accessible choice
        for seq, bound in seqs:
            script = [("insert",)] * base_n + [(o,) for o in seq]
            state = {}

            def on_step(i, op, chrom, state=state):
                t = chrom.test_case
                before = state.get("size", 0)
                state["size"] = t.size()
                col.count("transitions")
                k = tcenum.canon(t)
                col.distinct("states", k)
                if i >= base_n and k != state.get("canon"):
                    col.distinct("ops_with_effect", op[0])
                state["canon"] = k
                max_len = None
                if op[0] in LENGTH_BOUND_OPS and before <= chrom_len:
                    max_len = config.configuration.search_algorithm.chromosome_length
                probs = wellformed.check(t, max_len=max_len) + wellformed.check_clone(t)
                if probs:
                    state.setdefault("probs", []).append((i, op[0], probs))

            def run(ch, script=script, state=state):
                state.clear()
                try:
                    world.run_script(script, ch, on_step=on_step)
                except Exception as exc:  # noqa: BLE001
                    import traceback
                    tb = traceback.extract_tb(exc.__traceback__)
                    where = next((f"{f.name}" for f in reversed(tb) if "/pynguin/" in f.filename), "?")
                    step = len([1 for _ in range(0)])
                    state.setdefault("probs", []).append(
                        (-1, "?", [(f"raises:{type(exc).__name__}@{where}", repr(exc)[:200])]))
                return list(state.get("probs", []))

            def on_exec(ch, probs, script=script, state=state):
                col.count("traces_validated_against_impl")
                col.sample({"module": module, "chromosome_length": chrom_len,
                            "script": [o[0] for o in script], "choices": ch.choices,
                            "final_test_case": state.get("canon", ("",))[0]}, every=211)
                for (i, opname, plist) in probs:
                    if opname == "?":
                        # attribute a crash to the step that was running
                        opname = "script"
                    for sig, detail in plist:
                        col.violation(_classify(opname, sig),
                                      f"after {opname} (step {i}) in module {module}: {sig} {detail}",
                                      {"module": module, "chromosome_length": chrom_len,
                                       "script": script, "choices": ch.choices},
                                      rank=ch.deviations * 100 + len(ch.points))

            n, capped = explore_deviations(run, bound, on_exec, max_execs=max_execs)
            if capped:
                col.count("capped_scripts")
            col.count("scripts")
        world.close()
    finally:
        _rm(scratch)


def shard_crossover(col, module, chrom_len, pop_bound):
    """Every splice of every ordered pair of enumerated test cases at every (pos1, pos2)."""
    import pynguin.configuration as config
    import pynguin.ga.operators.crossover as co
    from mc import rng

    scratch = _scratch()
    try:
        world = tcenum.World(module, scratch,
                             config_over={"search_algorithm__chromosome_length": chrom_len})
        world.index_full_upto = 12
        pop, _ = tcenum.enumerate_testcases(world, [("insert",)] * 2, pop_bound)
        tests = [t for (t, _) in pop.values() if 1 <= t.size() <= chrom_len]
        tests = tests[:20]
        if chrom_len > 10:
            # second parents with long dependency chains (a statement reading a variable that reads a
            # variable ...): the tail-renaming / dropping logic of append_test_case_from only shows
            # its transitive behaviour on chains of depth >= 3
            pop3, _ = tcenum.enumerate_testcases(world, [("insert",)] * 3, pop_bound + 1, max_execs=6000)
            deep = sorted((t for (t, _) in pop3.values() if t.size() <= 7),
                          key=lambda t: (-_chain_depth(t), t.size(), t.to_code()))
            seen_codes = {t.to_code() for t in tests}
            for t in deep[:10]:
                if t.to_code() not in seen_codes:
                    tests.append(t)
                    seen_codes.add(t.to_code())
            col.note(f"{module}_max_chain_depth", max((_chain_depth(t) for t in tests), default=0))
        for a, b in itertools.product(range(len(tests)), repeat=2):
            ta, tb = tests[a], tests[b]
            for p1 in range(ta.size() + 1):
                for p2 in range(tb.size() + 1):
                    def run(ch, ta=ta, tb=tb, p1=p1, p2=p2):
                        ca, cb = world.chromosome(ta.clone()), world.chromosome(tb.clone())
                        with rng.installed(rng.ChoiceRNG(ch)):
                            try:
                                co.splice_test_case_chromosomes(ca, cb, p1, p2)
                            except Exception as exc:  # noqa: BLE001
                                return [(f"raises:{type(exc).__name__}", repr(exc)[:200])], None
                        t = ca.test_case
                        probs = wellformed.check(
                            t, max_len=config.configuration.search_algorithm.chromosome_length)
                        if tb.to_module().code != tests[b].to_module().code:
                            probs.append(("crossover-mutates-other-parent", ""))
                        return probs, t

                    def on_exec(ch, res, a=a, b=b, p1=p1, p2=p2):
                        probs, t = res
                        col.count("transitions")
                        col.count("crossovers")
                        col.count("traces_validated_against_impl")
                        if t is not None:
                            k = tcenum.canon(t)
                            col.distinct("states", k)
                            if k != tcenum.canon(tests[a]):
                                col.distinct("ops_with_effect", "crossover")
                        for sig, detail in probs:
                            col.violation(_classify("crossover", sig),
                                          f"splice {module} p1={p1} p2={p2}: {sig} {detail}\n"
                                          f"parent:\n{tests[a].to_code()}other:\n{tests[b].to_code()}",
                                          {"module": module, "chromosome_length": chrom_len,
                                           "crossover": [tests[a].to_code(), tests[b].to_code(), p1, p2],
                                           "choices": ch.choices},
                                          rank=tests[a].size() + tests[b].size())

                    explore_deviations(run, 1, on_exec)
        world.close()
    finally:
        _rm(scratch)


# Hand-written NON-INITIAL states (the factory needs several non-default answers to build them, which
# would use up the deviation budget of the operations that follow): collections next to in-scope variables.
ROOTS = [
    [("var_0 = 5", int), ("var_1 = []", list)],
    [("var_0 = 5", int), ("var_1 = [var_0]", list)],
    [("var_0 = 5", int), ("var_1 = 'a'", str), ("var_2 = (var_0,)", tuple)],
    [("var_0 = 'a'", str), ("var_1 = {}", dict)],
    [("var_0 = 5", int), ("var_1 = {var_0}", set), ("var_2 = [var_1]", list)],
    [("var_0 = 5", int), ("var_1 = 6", int), ("var_2 = [var_1]", list)],
]


def _build_root(root_index, warm):
    import pynguin.testcase.testcase as tc
    from mc import pyn
    root = tc.TestCase()
    for code, typ in ROOTS[root_index]:
        name = root.next_var_name()
        bv = code.split(" =", 1)[0]
        assert name in (None, bv), (name, bv)
        root.add_statement(pyn.stmt(code, bound_variable=bv, bound_type=typ))
    if root._var_counter < root.size():  # noqa: SLF001
        root._var_counter = root.size()  # noqa: SLF001
    pre = wellformed.check(root)
    assert not pre, f"root {root_index} is not well-formed: {pre}"
    if warm:
        # what any earlier dependency scan / crossover / clone of a scanned test case leaves behind
        for st in root.statements():
            st.used_variables()
    return root


def shard_roots(col, module, root_index, warm, max_len, bounds):
    """Every positional operation sequence on a hand-written root, cold and with warmed statement caches."""
    from mc import pyn

    scratch = _scratch()
    try:
        world = tcenum.World(module, scratch, config_over={"search_algorithm__chromosome_length": 40})
        world.index_full_upto = 12
        root = _build_root(root_index, warm)
        n = root.size()
        alphabet = [("mutate_value_at", p) for p in range(n)] + [("delete_at", p) for p in range(n)] + \
                   [("remove_unused",), ("mut_change",), ("mut_delete",)]
        for length in range(1, max_len + 1):
            for seq in itertools.product(alphabet, repeat=length):
                script = list(seq)
                state = {}

                def on_step(i, op, chrom, state=state):
                    t = chrom.test_case
                    col.count("transitions")
                    k = tcenum.canon(t)
                    col.distinct("states", k)
                    if k != state.get("canon"):
                        col.distinct("root_ops_with_effect", op[0])
                    state["canon"] = k
                    probs = wellformed.check(t) + wellformed.check_clone(t)
                    if probs:
                        state.setdefault("probs", []).append((i, op[0], probs))

                def run(ch, script=script, state=state):
                    state.clear()
                    state["canon"] = tcenum.canon(root)
                    try:
                        world.run_script(script, ch, start=root, on_step=on_step)
                    except Exception as exc:  # noqa: BLE001
                        import traceback
                        tb = traceback.extract_tb(exc.__traceback__)
                        where = next((f"{f.name}" for f in reversed(tb) if "/pynguin/" in f.filename), "?")
                        state.setdefault("probs", []).append(
                            (-1, "script", [(f"raises:{type(exc).__name__}@{where}", repr(exc)[:200])]))
                    return list(state.get("probs", []))

                def on_exec(ch, probs, script=script):
                    col.count("traces_validated_against_impl")
                    col.count("root_executions")
                    for (i, opname, plist) in probs:
                        for sig, detail in plist:
                            col.violation(_classify(opname.replace("_at", ""), sig),
                                          f"after {opname} (step {i}) on root {root_index} "
                                          f"({'warm' if warm else 'cold'} caches):\n{root.to_code()}{sig} {detail}",
                                          {"module": module, "root": root_index, "warm": warm,
                                           "script": [list(o) for o in script], "choices": ch.choices},
                                          rank=ch.deviations * 100 + len(ch.points))

                _, capped = explore_deviations(run, bounds[length], on_exec, max_execs=20000)
                if capped:
                    col.count("capped_scripts")
                col.count("scripts")
        world.close()
    finally:
        _rm(scratch)


def _chain_depth(test_case):
    """Length of the longest def-use chain of var_N names in the test case."""
    depth = {}
    best = 0
    for st in test_case.statements():
        d = 1 + max((depth.get(v, 0) for v in st.used_variables()), default=0)
        if st.bound_variable:
            depth[st.bound_variable] = d
        best = max(best, d)
    return best


def _scratch():
    import os
    import tempfile
    return tempfile.mkdtemp(prefix="c15_", dir="/dev/shm" if os.path.isdir("/dev/shm") else None)


def _rm(d):
    import shutil
    shutil.rmtree(d, ignore_errors=True)


def run(ctx):
    quick = ctx.quick
    modules = MODULES_QUICK if quick else MODULES_THOROUGH
    base_n = 2
    max_execs = 4000 if quick else 40000
    # deviation bound per script length: short scripts are explored deeper
    bounds = {1: 2, 2: 1} if quick else {1: 3, 2: 2, 3: 1}
    jobs = []
    seqs = [(list(s), bounds[n]) for n in sorted(bounds) for s in itertools.product(OPS, repeat=n)]
    for module in modules:
        for chrom_len in (3, 40):
            groups: dict = {}
            for s, b in seqs:
                if chrom_len == 3 and not ({"mutate", "mut_insert"} & set(s)):
                    continue  # the small length bound only matters for growing operations
                groups.setdefault((s[0], len(s)), []).append((s, b))
            for group in groups.values():
                for i in range(0, len(group), 24):
                    jobs.append((module, chrom_len, 1 if chrom_len == 3 else base_n, group[i:i + 24], max_execs))
    par.run_shards("props.c15_wellformed:shard", jobs, ctx.workers, ctx)
    xjobs = [(m, cl, 1 if quick else 2) for m in modules for cl in (3, 40)]
    par.run_shards("props.c15_wellformed:shard_crossover", xjobs, ctx.workers, ctx)
    rbounds = {1: 2, 2: 1, 3: 1} if quick else {1: 3, 2: 2, 3: 1}
    rjobs = [("containers", r, w, 3, rbounds) for r in range(len(ROOTS)) for w in (False, True)]
    par.run_shards("props.c15_wellformed:shard_roots", rjobs, ctx.workers, ctx)
    ctx.require(len(ctx.col.sets.get("root_ops_with_effect", ())) >= 4,
                "vacuous: the positional operations on the hand-written roots had no effect")
    ctx.note("roots", [[c for c, _ in r] for r in ROOTS])
    capped = ctx.col.counters.get("capped_scripts", 0)
    ctx.exhaustive = capped == 0
    ctx.note("capped_scripts", capped)
    ctx.note("cap_per_script", max_execs)
    ctx.note("deviation_bound_by_script_length", {str(k): v for k, v in bounds.items()})
    ctx.note("operation_alphabet", OPS + ["crossover"])
    ctx.note("modules", modules)
    from mc import rng
    ctx.note("rng_menus", rng.MENUS)
    ctx.require(len(ctx.col.sets.get("ops_with_effect", ())) >= len(OPS) - 1,
                f"vacuous: only {len(ctx.col.sets.get('ops_with_effect', ()))} operations had an effect")
    ctx.require(len(ctx.col.sets.get("states", ())) > 500, "vacuous: too few distinct test cases")
    ctx.rule = (f"scripts = 2 factory insertions followed by every operation sequence of length <= {max(bounds)} over "
                "the {len(OPS)}-operation alphabet, on each corpus module with chromosome_length in {3, 40}; "
                f"every execution with <= d non-default RNG answers, d by script length {bounds} "
                f"(cap {max_execs} executions per script); "
                "plus every splice of every ordered pair of enumerated test cases at every position pair; "
                "plus every sequence of <= 3 positional operations (mutate_value / delete at each position, "
                "remove_unused, change, delete) on each hand-written root, cold and with warmed statement caches; "
                "states = distinct (code, bound types, accessibles) test cases")
    ctx.assume("RNG answers range over the finite menus of mc/rng.py")


def replay(ctx, data):
    import pynguin.configuration as config
    scratch = ctx.scratch()
    world = tcenum.World(data["module"], scratch,
                         config_over={"search_algorithm__chromosome_length": data.get("chromosome_length", 40)})
    world.index_full_upto = 12
    if "root" in data:
        root = _build_root(data["root"], data["warm"])

        def on_root_step(i, op, chrom):
            for sig, detail in wellformed.check(chrom.test_case) + wellformed.check_clone(chrom.test_case):
                ctx.violation(_classify(op[0].replace("_at", ""), sig),
                              f"replay step {i}: {detail}\n{chrom.test_case.to_code()}", data)
        try:
            world.run_script([tuple(o) for o in data["script"]], Chooser(data["choices"]), start=root,
                             on_step=on_root_step)
        except Exception as exc:  # noqa: BLE001
            ctx.violation(_classify("script", f"raises:{type(exc).__name__}"), repr(exc), data)
        world.close()
        return
    if "script" in data:
        script = [tuple(o) for o in data["script"]]
        sizes = [0]

        def on_step(i, op, chrom):
            max_len = None
            if op[0] in LENGTH_BOUND_OPS and sizes[-1] <= data["chromosome_length"]:
                max_len = data["chromosome_length"]
            sizes.append(chrom.test_case.size())
            for sig, detail in wellformed.check(chrom.test_case, max_len=max_len):
                ctx.violation(_classify(op[0], sig), f"replay step {i}: {detail}\n{chrom.test_case.to_code()}",
                              data)
        try:
            world.run_script(script, Chooser(data["choices"]), on_step=on_step)
        except Exception as exc:  # noqa: BLE001
            ctx.violation(_classify("script", f"raises:{type(exc).__name__}"), repr(exc), data)
    else:
        print("crossover replay: re-run the check (population is re-enumerated)")
    world.close()
