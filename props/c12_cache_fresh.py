"""C12 — cached fitness and coverage values are never stale.

Explicit-state BFS (E1) over operation histories on REAL ``TestCaseChromosome``
/ ``TestSuiteChromosome`` / ``ComputationCache`` objects.  A state is the
history that reaches it; ``build(history)`` replays it on fresh real objects.

* The executor is a deterministic stub whose ``ExecutionResult`` is a pure
  function of the rendered code of the test case (covered lines, one predicate
  distance, an "exception position" and a 20-bit code fingerprint are derived
  from a blake2b hash of the code; an empty test has an empty trace).
* 2 fitness + 2 coverage functions per level (real subclasses of
  ``TestCaseFitnessFunction`` / ``TestSuiteFitnessFunction`` /
  ``TestCaseCoverageFunction`` / ``TestSuiteCoverageFunction``) count their
  invocations and compute a pure function of the execution results obtained
  through pynguin's own ``_run_test_case_chromosome`` /
  ``_run_test_suite_chromosome``.  One coverage function is the code
  fingerprint, so *any* code change that is not followed by a re-execution is
  visible in a value.
* Mutation is the real ``TestCaseMutation`` / ``TestSuiteMutation`` on a real
  ``TestFactory`` + test cluster (corpus module loaded through the import hook)
  with every RNG draw owned by the explorer (``mc.rng.ChoiceRNG``); in every
  state all executions of ``mutate()`` with <= d non-default answers are run and
  every distinct outcome becomes a transition.  (The enumeration is done once
  per "what mutate() reads" key - test signatures, flags, last results - on
  probe chromosomes; one representative per distinct outcome is then executed
  on the really rebuilt state, where it must reproduce the outcome, else the
  run is a harness error.)
* Oracle: after every operation that reaches a new canonical state, every
  query (``get_fitness``, ``get_fitness_for``, ``get_is_covered``,
  ``get_coverage``, ``get_coverage_for``; for suites also the members' own
  queries) is asked in a forward and in a reverse order - first for the
  registered functions, then after registering the remaining ones - and each
  answer is compared with the value recomputed from scratch by a separate
  function instance on a *fresh* chromosome built from the current code.  Every
  query event of the alphabet is compared in the same way on every transition.
  Exceptions out of any operation are violations ("querying never fails for a
  registered function").  In addition every cache entry of an un-flagged
  chromosome that differs from the recomputed value (white-box inspection) is
  turned into one *directed* black-box query for exactly that entry, so a
  latent stale entry is reported at the operation that created it.  States in
  which a violation was seen are not expanded, so the operation named in a
  fingerprint is the one that introduced the staleness.
"""

from __future__ import annotations

import collections
import hashlib
import math
import os
import shutil
import statistics
import tempfile

from mc.ctx import HarnessError

ID = "C12"
LEVEL = "model_checking"

N_LINES = 8
FP_BITS = 20
MODULES_QUICK = ["shapes", "numeric"]
MODULES_THOROUGH = ["shapes", "numeric", "containers"]
MAX_SUITE = 3


# --------------------------------------------------------------------------- stub executor
def _h(code: str) -> int:
    return int.from_bytes(hashlib.blake2b(code.encode("utf-8", "replace"), digest_size=8).digest(), "big")


def stub_result(code: str):
    """ExecutionResult as a pure function of the code of a test case."""
    from pynguin.testcase.execution_result import ExecutionResult
    from pynguin.utils.orderedset import OrderedSet

    res = ExecutionResult()
    res.stub_code = code
    n = sum(1 for ln in code.splitlines() if ln.strip())
    if n == 0:
        return res          # an empty test executes nothing
    h = _h(code)
    tr = res.execution_trace
    tr.executed_code_objects = OrderedSet([0])
    tr.covered_line_ids = OrderedSet(i for i in range(N_LINES) if (h >> i) & 1)
    tr.executed_predicates = {0: 1 + ((h >> 8) % (1 << FP_BITS))}
    d = (0.0, 0.5, 1.0, 2.0)[(h >> 32) % 4]
    tr.true_distances = {0: d}
    tr.false_distances = {0: 0.0 if d else 1.0}
    if (h >> 40) % 4 == 0:
        res.report_new_thrown_exception((h >> 44) % n, ValueError("stub"))
    res.num_executed_statements = n
    return res


def v_fit(idx: int, results) -> float:
    if idx == 0:    # branch-distance like: minimal true distance of predicate 0
        ds = [r.execution_trace.true_distances[0] for r in results
              if 0 in r.execution_trace.true_distances]
        return float(min(ds)) if ds else 4.0
    cov = set()
    for r in results:
        cov.update(r.execution_trace.covered_line_ids)
    return float(sum(1 for ln in (0, 1) if ln not in cov))


def v_cov(idx: int, results) -> float:
    if idx == 0:
        cov = set()
        for r in results:
            cov.update(r.execution_trace.covered_line_ids)
        return len(cov) / N_LINES
    s = sum(r.execution_trace.executed_predicates.get(0, 0) for r in results)
    return (s % (1 << FP_BITS)) / (1 << FP_BITS)


_CLASSES = None


def classes():
    """The stub executor and the four counting function classes (built lazily: need pynguin)."""
    global _CLASSES
    if _CLASSES is not None:
        return _CLASSES
    import contextlib

    import pynguin.ga.computations as ff
    from pynguin.testcase.execution import AbstractTestCaseExecutor

    class StubExecutor(AbstractTestCaseExecutor):
        def __init__(self, counter):
            self.counter = counter

        module_provider = property(lambda self: None)
        subject_properties = property(lambda self: None)

        def add_observer(self, observer): pass
        def clear_observers(self): pass
        def temporarily_add_observer(self, observer): return contextlib.nullcontext()
        def add_remote_observer(self, remote_observer): pass
        def clear_remote_observers(self): pass
        def temporarily_add_remote_observer(self, remote_observer): return contextlib.nullcontext()

        def execute(self, test_case):
            self.counter["exec"] += 1
            return stub_result(code_of(test_case))

    class TCFit(ff.TestCaseFitnessFunction):
        def __init__(self, executor, idx, counter):
            super().__init__(executor, 0)
            self.idx, self.counter, self.label = idx, counter, f"tf{idx}"

        def compute_fitness(self, individual):
            self.counter["compute"] += 1
            return v_fit(self.idx, [self._run_test_case_chromosome(individual)])

        def compute_is_covered(self, individual):
            self.counter["compute"] += 1
            return v_fit(self.idx, [self._run_test_case_chromosome(individual)]) == 0.0

        def is_maximisation_function(self):
            return False

    class TSFit(ff.TestSuiteFitnessFunction):
        def __init__(self, executor, idx, counter):
            super().__init__(executor)
            self.idx, self.counter, self.label = idx, counter, f"sf{idx}"

        def compute_fitness(self, individual):
            self.counter["compute"] += 1
            return v_fit(self.idx, self._run_test_suite_chromosome(individual))

        def compute_is_covered(self, individual):
            self.counter["compute"] += 1
            return v_fit(self.idx, self._run_test_suite_chromosome(individual)) == 0.0

        def is_maximisation_function(self):
            return False

    class TCCov(ff.TestCaseCoverageFunction):
        def __init__(self, executor, idx, counter):
            super().__init__(executor)
            self.idx, self.counter, self.label = idx, counter, f"tc{idx}"

        def compute_coverage(self, individual):
            self.counter["compute"] += 1
            return v_cov(self.idx, [self._run_test_case_chromosome(individual)])

    class TSCov(ff.TestSuiteCoverageFunction):
        def __init__(self, executor, idx, counter):
            super().__init__(executor)
            self.idx, self.counter, self.label = idx, counter, f"sc{idx}"

        def compute_coverage(self, individual):
            self.counter["compute"] += 1
            return v_cov(self.idx, self._run_test_suite_chromosome(individual))

    _CLASSES = (StubExecutor, TCFit, TSFit, TCCov, TSCov)
    return _CLASSES


# --------------------------------------------------------------------------- materials
def materials(world):
    """Base test cases built by the real factory (deterministic enumeration order)."""
    import pynguin.testcase.testcase as tc
    from mc import tcenum

    pop, _ = tcenum.enumerate_testcases(world, [("insert",)] * 2, 1)
    tests = [t for (t, _) in pop.values()]
    f = world.factory
    withcall = [t for t in tests if f.has_call_on_sut(t)]
    mixed = [t for t in withcall if any(s.accessible is None for s in t.statements())]
    call = (mixed or withcall)[0]
    prim = call.clone()
    for i in reversed(range(prim.size())):
        if i < prim.size() and prim.get_statement(i).accessible is not None:
            f.delete_statement_gracefully(prim, i)
    other = next(t for t in withcall if code_of(t) != code_of(call))
    if prim.size() == 0 or f.has_call_on_sut(prim):
        raise RuntimeError("no primitive-only base test for this module")
    return {"empty": tc.TestCase(), "call": call, "prim": prim, "other": other}


QUERIES = ("fit", "fitfor", "iscov", "cov", "covfor", "mfit", "mcov")


_NODE_CODE: dict = {}
_CODE_CALLS = [0]


def code_of(test_case) -> str:
    """Rendered code of a test case ("" for an empty one); codegen memoised per (immutable) cst node."""
    import libcst as cst
    parts = []
    for s in test_case.statements():
        ent = _NODE_CODE.get(id(s.node))
        if ent is None or ent[0] is not s.node:
            ent = (s.node, cst.Module(body=[s.node]).code)
            _NODE_CODE[id(s.node)] = ent
        parts.append(ent[1])
    code = "".join(parts)
    _CODE_CALLS[0] += 1
    if _CODE_CALLS[0] % 257 == 1 and parts and code != test_case.to_module().code:
        from mc.ctx import HarnessError
        raise HarnessError("memoised code differs from to_module().code")
    return code


_ACC_REPR: dict = {}


def tc_sig(test_case):
    """Everything of a test case that later operations can read: code, fresh-name counter, per-statement
    bound type and accessible (the latter two decide which mutation applies and has_call_on_sut)."""
    per = []
    for s in test_case.statements():
        acc = s.accessible
        if acc is None:
            r = None
        else:
            ent = _ACC_REPR.get(id(acc))
            if ent is None or ent[0] is not acc:
                ent = _ACC_REPR[id(acc)] = (acc, repr(acc))
            r = ent[1]
        per.append((getattr(s.bound_type, "__name__", str(s.bound_type)), r))
    return (code_of(test_case), test_case._var_counter, tuple(per))  # noqa: SLF001


# --------------------------------------------------------------------------- universe
class Universe:
    """The real objects of one history: subject x, its clone y (once made), a fixed other parent."""

    def __init__(self, world, leg, root, mats):
        import pynguin.configuration as config
        import pynguin.ga.testcasechromosomefactory as tccf
        import pynguin.ga.testcasefactory as tcf
        import pynguin.ga.testsuitechromosome as tsc
        from pynguin.utils.orderedset import OrderedSet

        StubExecutor, TCFit, TSFit, TCCov, TSCov = classes()
        self.world, self.leg, self.root, self.mats = world, leg, root, mats
        config.configuration.search_algorithm.chromosome_length = root["clen"]
        config.configuration.test_creation.max_size = MAX_SUITE
        self.cnt = collections.Counter()
        self.ocnt = collections.Counter()
        ex, oex = StubExecutor(self.cnt), StubExecutor(self.ocnt)
        self.TF = [TCFit(ex, i, self.cnt) for i in (0, 1)]
        self.TC = [TCCov(ex, i, self.cnt) for i in (0, 1)]
        self.SF = [TSFit(ex, i, self.cnt) for i in (0, 1)]
        self.SC = [TSCov(ex, i, self.cnt) for i in (0, 1)]
        # the oracle's own instances (never registered anywhere)
        self.oTF = [TCFit(oex, i, self.ocnt) for i in (0, 1)]
        self.oTC = [TCCov(oex, i, self.ocnt) for i in (0, 1)]
        self.oSF = [TSFit(oex, i, self.ocnt) for i in (0, 1)]
        self.oSC = [TSCov(oex, i, self.ocnt) for i in (0, 1)]
        self.obj = {}
        if leg == "tc":
            self.F, self.C, self.oF, self.oC = self.TF, self.TC, self.oTF, self.oTC
            self.obj["x"] = world.chromosome(mats[root["init"]].clone())
            self.other = world.chromosome(mats["other"].clone())
        else:
            self.F, self.C, self.oF, self.oC = self.SF, self.SC, self.oSF, self.oSC
            self.pool = [mats["call"], mats["other"], mats["prim"]]
            cfac = tccf.TestCaseChromosomeFactory(
                world.factory, tcf.RandomLengthTestCaseFactory(world.factory, world.cluster),
                OrderedSet([self.TF[0]]))
            s = tsc.TestSuiteChromosome(cfac)
            for k in root["init"]:
                s.add_test_case_chromosome(self.member(k))
            self.obj["x"] = s
            self.other = tsc.TestSuiteChromosome(cfac)
            self.other.add_test_case_chromosome(self.member(1))
            self.other.add_test_case_chromosome(self.member(2))
        self.last_info = None
        self.exp_memo = {}

    def member(self, k):
        c = self.world.chromosome(self.pool[k].clone())
        c.add_fitness_function(self.TF[0])
        c.add_coverage_function(self.TC[0])
        return c

    def roles(self):
        return [r for r in ("x", "y") if r in self.obj]

    # ------------------------------------------------------------------ oracle
    def fresh(self, o):
        import pynguin.ga.testcasechromosome as tcc
        import pynguin.ga.testsuitechromosome as tsc
        if isinstance(o, tcc.TestCaseChromosome):
            return tcc.TestCaseChromosome(o.test_case.clone())
        s = tsc.TestSuiteChromosome()
        for m in o.test_case_chromosomes:
            s.add_test_case_chromosome(tcc.TestCaseChromosome(m.test_case.clone()))
        return s

    def expected(self, o, q, idx=None, member=None):
        """Value recomputed from scratch on a fresh chromosome built from the current code.

        (Memoised on (query, registered functions, current codes): the recomputation is a pure function.)
        """
        if member is not None:
            key = (q, code_of(o.test_case_chromosomes[member].test_case))
        else:
            key = (q, idx, tuple(self.codes(o)),
                   tuple(self.regF(o)) if q == "fit" else tuple(self.regC(o)) if q == "cov" else None)
        if key not in self.exp_memo:
            self.exp_memo[key] = self._expected(o, q, idx, member)
        return self.exp_memo[key]

    def _expected(self, o, q, idx=None, member=None):
        if q in ("mfit", "mcov", "miscov"):
            m = self.fresh(o.test_case_chromosomes[member])
            if q == "mfit":
                return self.oTF[0].compute_fitness(m)
            if q == "miscov":
                return self.oTF[0].compute_fitness(m) == 0.0
            return self.oTC[0].compute_coverage(m)
        if q == "fitfor":
            return self.oF[idx].compute_fitness(self.fresh(o))
        if q == "iscov":
            return math.isclose(self.oF[idx].compute_fitness(self.fresh(o)), 0.0)
        if q == "covfor":
            return self.oC[idx].compute_coverage(self.fresh(o))
        if q == "fit":
            return sum(self.oF[f.idx].compute_fitness(self.fresh(o))
                       for f in dict.fromkeys(o.get_fitness_functions()))
        if q == "cov":
            return statistics.mean(self.oC[c.idx].compute_coverage(self.fresh(o))
                                   for c in dict.fromkeys(o.get_coverage_functions()))
        raise ValueError(q)

    def ask(self, o, q, idx=None, member=None):
        if q == "fit":
            return o.get_fitness()
        if q == "fitfor":
            return o.get_fitness_for(self.F[idx])
        if q == "iscov":
            return o.get_is_covered(self.F[idx])
        if q == "cov":
            return o.get_coverage()
        if q == "covfor":
            return o.get_coverage_for(self.C[idx])
        m = o.test_case_chromosomes[member]
        if q == "mfit":
            return m.get_fitness_for(self.TF[0])
        if q == "miscov":
            return m.get_is_covered(self.TF[0])
        if q == "mcov":
            return m.get_coverage_for(self.TC[0])
        raise ValueError(q)

    # ------------------------------------------------------------------ events
    def regF(self, o):
        return [f.idx for f in o.get_fitness_functions()]

    def regC(self, o):
        return [c.idx for c in o.get_coverage_functions()]

    def enabled(self):
        evs = []
        for r in self.roles():
            o = self.obj[r]
            rf, rc = self.regF(o), self.regC(o)
            for i in (0, 1):
                if i not in rf:
                    evs.append(["addf", r, i])
            for i in (0, 1):
                if i not in rc:
                    evs.append(["addc", r, i])
            if rf:
                evs.append(["fit", r])
            for i in rf:
                evs.append(["fitfor", r, i])
                evs.append(["iscov", r, i])
            if rc:
                evs.append(["cov", r])
            for i in rc:
                evs.append(["covfor", r, i])
            if rf:
                evs.append(["setfit", r])
            if rc:
                evs.append(["setcov", r])
            evs.append(["inval", r])
            sib = "y" if r == "x" else "x"
            if self.leg == "tc":
                if o.get_last_execution_result() is not None:
                    evs.append(["rmres", r])
                evs.append(["edit", r])
                evs.append(["assign", r])
                n, m = o.size(), self.other.size()
                for p1, p2 in ((0, 0), (1, 1)):
                    if p1 <= n and p2 <= m:
                        evs.append(["xover", r, p1, p2])
                if sib in self.obj:
                    evs.append(["xoversib", r])
            else:
                n = o.size()
                if n < MAX_SUITE:
                    for k in (0, 2):
                        evs.append(["add", r, k])
                for i in range(n):
                    m = o.test_case_chromosomes[i]
                    evs.append(["del", r, i])
                    if i == 0:
                        evs.append(["medit", r, i])
                    if self.TF[0] in m.get_fitness_functions():
                        evs.append(["mfit", r, i])
                    if self.TC[0] in m.get_coverage_functions():
                        evs.append(["mcov", r, i])
                if n:
                    evs.append(["set", r, n - 1, 2])
                    evs.append(["sedit", r])
                for p1, p2 in ((1, 1), (n, 0)):
                    if p1 <= n:
                        evs.append(["xover", r, p1, p2])
                if sib in self.obj:
                    evs.append(["xoversib", r])
        if "y" not in self.obj:
            evs.append(["clone"])
        # drop duplicates (e.g. xover (1,1) == (n,1) when n == 1), keep order
        out, seen = [], set()
        for e in evs:
            k = tuple(e)
            if k not in seen:
                seen.add(k)
                out.append(e)
        return out

    def apply(self, ev, chooser=None):
        """Apply one event under the RNG seam. Returns the value of a query, else None."""
        from mc import rng
        from mc.explore import Chooser
        if chooser is None:
            chooser = Chooser(ev[2]) if ev[0] == "mutate" and ev[2] is not None else Chooser()
        with rng.installed(rng.ChoiceRNG(chooser, self.world.thresholds)):
            return self._apply(ev)

    def codes(self, o):
        if self.leg == "tc":
            return [code_of(o.test_case)]
        return [code_of(m.test_case) for m in o.test_case_chromosomes]

    def _apply(self, ev):
        kind = ev[0]
        self.last_info = None
        if kind == "clone":
            self.obj["y"] = self.obj["x"].clone()
            return None
        o = self.obj[ev[1]]
        f = self.world.factory
        if kind == "addf":
            o.add_fitness_function(self.F[ev[2]])
        elif kind == "addc":
            o.add_coverage_function(self.C[ev[2]])
        elif kind in ("fit", "cov"):
            return self.ask(o, kind)
        elif kind in ("fitfor", "iscov", "covfor"):
            return self.ask(o, kind, ev[2])
        elif kind in ("mfit", "mcov"):
            return self.ask(o, kind, member=ev[2])
        elif kind == "setfit":
            o.set_fitness_values({self.F[i]: self.expected(o, "fitfor", i) for i in self.regF(o)})
        elif kind == "setcov":
            o.set_coverage_values({self.C[i]: self.expected(o, "covfor", i) for i in self.regC(o)})
        elif kind == "inval":
            o.invalidate_cache()
        elif kind == "rmres":
            o.remove_last_execution_result()
        elif kind == "mutate":
            tests = [o] if self.leg == "tc" else list(o.test_case_chromosomes)
            before = [code_of(t.test_case) for t in tests]
            before_all = self.codes(o)
            nocall = any(not f.has_call_on_sut(t.test_case) for t in tests)
            o.mutate()
            self.last_info = {
                "code_changed": self.codes(o) != before_all,
                "left_unflagged": any(code_of(t.test_case) != b and not t.changed
                                      for t, b in zip(tests, before)),
                "flag": bool(o.changed), "nocall": nocall, "leg": self.leg}
        elif kind == "xover":
            o.cross_over(self.other, ev[2], ev[3])
        elif kind == "xoversib":
            sib = self.obj["y" if ev[1] == "x" else "x"]
            o.cross_over(sib, min(1, o.size()), min(1, sib.size()))
        elif kind == "edit":       # direct edit of the wrapped test case + the documented flag
            f.insert_random_statement(o.test_case, o.test_case.size())
            o.changed = True
        elif kind == "assign":     # test_case setter + flag
            o.test_case = self.mats["other"].clone()
            o.changed = True
        elif kind == "add":
            o.add_test_case_chromosome(self.member(ev[2]))
        elif kind == "del":
            o.delete_test_case_chromosome(o.get_test_case_chromosome(ev[2]))
        elif kind == "set":
            o.set_test_case_chromosome(ev[2], self.member(ev[3]))
        elif kind == "sedit":      # generator.py pattern: replace the list, then flag
            o.test_case_chromosomes = [t.clone() for t in o.test_case_chromosomes[1:]]
            o.changed = True
        elif kind == "medit":      # edit a member, flag the member and the suite
            m = o.get_test_case_chromosome(ev[2])
            f.insert_random_statement(m.test_case, m.test_case.size())
            m.changed = True
            o.changed = True
        else:
            raise ValueError(ev)
        return None

    # ------------------------------------------------------------------ canonical state
    def _cache(self, o):
        cc = o.computation_cache
        return (tuple(fn.label for fn in cc._fitness_functions),          # noqa: SLF001
                tuple(fn.label for fn in cc._coverage_functions),         # noqa: SLF001
                tuple(sorted((fn.label, v) for fn, v in cc._fitness_cache.items())),      # noqa: SLF001
                tuple(sorted((fn.label, v) for fn, v in cc._is_covered_cache.items())),   # noqa: SLF001
                tuple(sorted((fn.label, v) for fn, v in cc._coverage_cache.items())))     # noqa: SLF001

    def _canon_tc(self, c):
        lr = c.get_last_execution_result()
        return (tc_sig(c.test_case), bool(c.changed),
                None if lr is None else getattr(lr, "stub_code", "?"), self._cache(c))

    def canon(self):
        out = []
        ids = {}

        def alias(obj):
            return ids.setdefault(id(obj), len(ids))

        for r in self.roles():
            o = self.obj[r]
            if self.leg == "tc":
                cc = o.computation_cache
                out.append((r, self._canon_tc(o), alias(o.test_case), alias(cc._fitness_cache),   # noqa: SLF001
                            alias(cc._is_covered_cache), alias(cc._coverage_cache),                # noqa: SLF001
                            alias(cc._fitness_functions), alias(cc._coverage_functions)))          # noqa: SLF001
            else:
                cc = o.computation_cache
                out.append((r, bool(o.changed), self._cache(o), alias(cc._fitness_cache),          # noqa: SLF001
                            alias(cc._coverage_cache), alias(cc._fitness_functions),               # noqa: SLF001
                            tuple((alias(m), alias(m.test_case), alias(m.computation_cache._fitness_cache),  # noqa: SLF001
                                   self._canon_tc(m))
                                  for m in o.test_case_chromosomes)))
        return (self.leg, self.root["clen"], tuple(out))

    def mkey(self, o):
        """Everything mutate() reads / writes: code, flag and last-result provenance of every test."""
        def one(c):
            lr = c.get_last_execution_result()
            return (tc_sig(c.test_case), bool(c.changed), None if lr is None else getattr(lr, "stub_code", "?"))

        if self.leg == "tc":
            return one(o)
        return (bool(o.changed), tuple(one(m) for m in o.test_case_chromosomes))

    def probe(self, o):
        import pynguin.ga.testsuitechromosome as tsc

        def one(c):
            p = self.world.chromosome(c.test_case.clone())
            p.changed = c.changed
            lr = c.get_last_execution_result()
            if lr is not None:
                p.set_last_execution_result(lr)
            return p

        if self.leg == "tc":
            return one(o)
        s = tsc.TestSuiteChromosome(o.test_case_chromosome_factory)
        s.test_case_chromosomes = [one(m) for m in o.test_case_chromosomes]
        s.changed = o.changed
        return s

    def suspects(self):
        """White-box: cached entries of an un-flagged chromosome that differ from the recomputed value.

        Only used to *direct* an extra black-box query at exactly that entry (see Explorer.transition).
        """
        out = []

        def scan(owner, role, member):
            cc = owner.computation_cache
            if owner.changed:
                return
            for fn, v in cc._fitness_cache.items():          # noqa: SLF001
                q = ("mfit" if member is not None else "fitfor")
                if fn in owner.get_fitness_functions() and not same(v, self.expected(self.obj[role], q, fn.idx, member)):
                    out.append((role, q, None if member is not None else fn.idx, member))
            for fn, v in cc._is_covered_cache.items():       # noqa: SLF001
                q = ("miscov" if member is not None else "iscov")
                if fn in owner.get_fitness_functions() and not same(v, self.expected(self.obj[role], q, fn.idx, member)):
                    out.append((role, q, None if member is not None else fn.idx, member))
            for fn, v in cc._coverage_cache.items():         # noqa: SLF001
                q = ("mcov" if member is not None else "covfor")
                if fn in owner.get_coverage_functions() and not same(v, self.expected(self.obj[role], q, fn.idx, member)):
                    out.append((role, q, None if member is not None else fn.idx, member))

        for r in self.roles():
            o = self.obj[r]
            scan(o, r, None)
            if self.leg == "ts":
                for mi, m in enumerate(o.test_case_chromosomes):
                    scan(m, r, mi)
        return out

    def summary(self):
        """JSON-able description of the state (for samples / messages)."""
        out = {}
        for r in self.roles():
            o = self.obj[r]
            reg, regc, fc, ic, cv = self._cache(o)
            d = {"changed": bool(o.changed), "fitness_functions": list(reg), "coverage_functions": list(regc),
                 "fitness_cache": dict(fc), "is_covered_cache": dict(ic), "coverage_cache": dict(cv)}
            if self.leg == "tc":
                d["code"] = code_of(o.test_case)
                d["has_last_result"] = o.get_last_execution_result() is not None
            else:
                d["tests"] = [{"code": code_of(m.test_case), "changed": bool(m.changed),
                               "has_last_result": m.get_last_execution_result() is not None}
                              for m in o.test_case_chromosomes]
            out[r] = d
        return out


# --------------------------------------------------------------------------- explorer
def same(a, b) -> bool:
    if isinstance(a, bool) or isinstance(b, bool):
        return a is b or a == b and type(a) is type(b)
    try:
        return math.isclose(a, b, rel_tol=1e-12, abs_tol=1e-12)
    except TypeError:
        return False


def describe(ev, info) -> str:
    if ev is None:
        return "init"
    if ev[0] == "mutate":
        info = info or {}
        a = ("changed-test-left-unflagged" if info.get("left_unflagged")
             else "code-changed" if info.get("code_changed") else "code-same")
        b = ("," + ("suite-flagged" if info.get("flag") else "suite-unflagged")) if info.get("leg") == "ts" else ""
        c = ",some-test-without-sut-call" if info.get("nocall") else ",sut-calls"
        return f"mutate[{a}{b}{c}]"
    return ev[0]


class Explorer:
    def __init__(self, col, world, leg, module, root, mats, depth, dev, cap):
        self.col, self.world, self.leg, self.module, self.root = col, world, leg, module, root
        self.mats, self.depth, self.dev, self.cap = mats, depth, dev, cap
        self.seen = set()
        self.mut_memo = {}
        self.exp_memo = {}

    def build(self, hist):
        u = Universe(self.world, self.leg, self.root, self.mats)
        u.exp_memo = self.exp_memo
        for ev in self.root["prefix"]:
            u.apply(ev)
        for ev in hist:
            u.apply(ev)
        return u

    # -- reporting
    def data(self, hist, probe=None):
        return {"leg": self.leg, "module": self.module, "root": self.root, "history": hist, "probe": probe}

    def report(self, hist, info, rel, sig, what, probe=None):
        culprit = describe(hist[-1] if hist else None, info)
        fp = f"C12|{self.leg}|{culprit}|@{rel}|{sig}"
        rank = sum(1 + (sum(1 for c in e[2] if c) if e[0] == "mutate" else 0) for e in hist) \
            + len(self.root["prefix"])
        self.col.violation(fp, what, self.data(hist, probe), rank=rank)

    def rel(self, hist, role, member=False):
        if member:
            return "member"
        if not hist:
            return "same"
        ev = hist[-1]
        tgt = ev[1] if len(ev) > 1 else "x"
        return "same" if tgt == role else "other"

    # -- one compared query on live objects
    def check_query(self, u, hist, info, role, q, idx=None, member=None, probe=None):
        """Ask, compare. Returns True if a violation was recorded."""
        col = self.col
        o = u.obj[role]
        exp = u.expected(o, q, idx, member)
        before = (u.cnt["compute"], u.cnt["exec"])
        try:
            got = u.ask(o, q, idx, member)
        except Exception as exc:  # noqa: BLE001
            self.report(hist, info, self.rel(hist, role, member is not None), f"raises:{type(exc).__name__}",
                        f"{q}({'' if idx is None else idx}{'' if member is None else 'member ' + str(member)}) on {role} "
                        f"raised {exc!r}; expected {exp!r}\nstate: {u.summary()}", probe)
            return True
        col.count("queries_compared")
        col.count("cache_hits" if (u.cnt["compute"], u.cnt["exec"]) == before else "cache_misses")
        col.distinct("outcomes", (q, got))
        if not same(got, exp):
            self.report(hist, info, self.rel(hist, role, member is not None), "wrong-value",
                        f"{q}({'' if idx is None else idx}{'' if member is None else 'member ' + str(member)}) on {role} "
                        f"returned {got!r}; recomputed from scratch: {exp!r}\nstate: {u.summary()}", probe)
            return True
        return False

    def sweep(self, u, hist, info, reverse):
        """All queries on every role: registered functions first, then after registering the rest."""
        probe = "reverse" if reverse else "forward"
        roles = u.roles()[::-1] if reverse else u.roles()
        for role in roles:
            o = u.obj[role]
            plan = []
            rf, rc = u.regF(o), u.regC(o)
            for i in rf:
                plan.append(("fitfor", i, None))
            for i in rf:
                plan.append(("iscov", i, None))
            if rf:
                plan.append(("fit", None, None))
            for i in rc:
                plan.append(("covfor", i, None))
            if rc:
                plan.append(("cov", None, None))
            if self.leg == "ts":
                for mi in range(o.size()):
                    plan.append(("mfit", None, mi))
                    plan.append(("miscov", None, mi))
                    plan.append(("mcov", None, mi))
            if reverse:
                plan.reverse()
            for q, i, mi in plan:
                if q in ("mfit", "miscov") and u.TF[0] not in o.test_case_chromosomes[mi].get_fitness_functions():
                    continue
                if q == "mcov" and u.TC[0] not in o.test_case_chromosomes[mi].get_coverage_functions():
                    continue
                if self.check_query(u, hist, info, role, q, i, mi, probe):
                    return True
        # extension: register what is not registered yet, ask again
        for role in roles:
            o = u.obj[role]
            ext = [("f", i) for i in (0, 1) if i not in u.regF(o)] + [("c", i) for i in (0, 1) if i not in u.regC(o)]
            if reverse:
                ext.reverse()
            for kind, i in ext:
                if kind == "f":
                    o.add_fitness_function(u.F[i])
                    qs = [("iscov", i), ("fitfor", i), ("fit", None)] if reverse else \
                         [("fitfor", i), ("iscov", i), ("fit", None)]
                else:
                    o.add_coverage_function(u.C[i])
                    qs = [("cov", None), ("covfor", i)] if reverse else [("covfor", i), ("cov", None)]
                for q, qi in qs:
                    if self.check_query(u, hist, info, role, q, qi, None, probe + "+ext"):
                        return True
        return False

    # -- one transition
    def transition(self, hist, ev, k_prev, frontier, count=True, expect=None):
        col = self.col
        u = self.build(hist)
        h2 = hist + [ev]
        if count:
            col.count("transitions")
            col.count("traces_validated_against_impl")
        if ev[0] in QUERIES:
            role = ev[1]
            bad = self.check_query(u, h2, None, role, ev[0],
                                   ev[2] if ev[0] in ("fitfor", "iscov", "covfor") else None,
                                   ev[2] if ev[0] in ("mfit", "mcov") else None)
            if bad:
                return
            info = None
        else:
            try:
                u.apply(ev)
            except Exception as exc:  # noqa: BLE001
                import traceback
                tb = traceback.extract_tb(exc.__traceback__)
                where = next((fr.name for fr in reversed(tb) if "/pynguin/" in fr.filename), "?")
                if expect is not None and expect != ("raises", type(exc).__name__):
                    raise HarnessError(f"probe enumeration diverged on {h2}: {expect} vs {exc!r}") from exc
                self.report(h2, None, "same", f"raises:{type(exc).__name__}@{where}",
                            f"{ev} raised {exc!r}")
                return
            info = u.last_info
            if expect is not None and u.mkey(u.obj[ev[1]]) != expect:
                raise HarnessError(f"probe enumeration diverged on {h2}")
        k = u.canon()
        if k != k_prev:
            col.distinct("ops_with_effect", f"{self.leg}:{ev[0]}")
        if k in self.seen:
            return
        self.seen.add(k)
        col.distinct("states", (self.module, k))
        col.sample({"leg": self.leg, "module": self.module, "root": self.root, "history": h2,
                    "state": u.summary()}, every=97)
        suspects = u.suspects()
        bad = self.sweep(u, h2, info, reverse=False)
        u2 = self.build(h2)
        bad = self.sweep(u2, h2, info, reverse=True) or bad
        for role, q, idx, member in suspects:      # one directed query per suspicious cache entry
            col.count("directed_queries")
            bad = self.check_query(self.build(h2), h2, info, role, q, idx, member, "directed") or bad
        if bad:
            col.count("states_not_expanded_after_violation")
        elif len(h2) < self.depth:
            frontier.append(h2)

    def enumerate_mutations(self, u, role):
        """All executions of mutate() with <= dev deviations on probes of ``role``'s object.

        A probe is a chromosome built with the constructors from clones of the test cases, the flags
        and the last results (everything mutate() reads). Returns [(choices, outcome)] with one
        minimal-deviation representative per distinct outcome; every representative is afterwards
        executed on the really rebuilt state, where the outcome must be the same.
        """
        from mc import rng
        from mc.explore import explore_deviations
        col = self.col
        o = u.obj[role]
        outcomes = {}

        def run(ch):
            probe = u.probe(o)
            before = u.codes(probe)
            try:
                with rng.installed(rng.ChoiceRNG(ch, self.world.thresholds)):
                    probe.mutate()
            except Exception as exc:  # noqa: BLE001
                return ("raises", type(exc).__name__), False
            return u.mkey(probe), u.codes(probe) != before

        def on_exec(ch, res):
            k, code_changed = res
            col.count("mutate_executions")
            if code_changed:
                col.count("mutations_changing_code")
            r = (ch.deviations, len(ch.points))
            if k not in outcomes or r < outcomes[k][0]:
                outcomes[k] = (r, ch.choices)

        _, capped = explore_deviations(run, self.dev, on_exec, max_execs=self.cap)
        if capped:
            col.count("capped_mutation_enumerations")
        col.count("mutate_enumerations")
        return [(v[1], k) for k, v in outcomes.items()]

    def mutations(self, hist, role, k_prev, frontier):
        # mutate() reads the tests, their last results, the flags and the configuration, never the
        # caches: the <= d-deviation enumeration is done once per such key.
        u = self.build(hist)
        key = u.mkey(u.obj[role])
        reps = self.mut_memo.get(key)
        if reps is None:
            reps = self.mut_memo[key] = self.enumerate_mutations(u, role)
        for choices, outcome in reps:
            self.transition(hist, ["mutate", role, choices], k_prev, frontier, expect=outcome)

    def run(self):
        col = self.col
        u0 = self.build([])
        k0 = u0.canon()
        self.seen.add(k0)
        col.distinct("states", (self.module, k0))
        frontier = collections.deque()
        bad = self.sweep(u0, [], None, reverse=False)
        bad = self.sweep(self.build([]), [], None, reverse=True) or bad
        if not bad:
            frontier.append([])
        else:
            col.count("root_states_failed")
        maxd = 0
        while frontier:
            hist = frontier.popleft()
            maxd = max(maxd, len(hist))
            if len(hist) >= self.depth:
                continue
            u = self.build(hist)
            k_here = u.canon()
            for ev in u.enabled():
                self.transition(hist, ev, k_here, frontier)
            for role in u.roles():
                self.mutations(hist, role, k_here, frontier)
        col.note("max_depth", maxd + 0)


# --------------------------------------------------------------------------- roots / shards
def roots(leg, quick):
    regs = {
        "none": [],
        "one": [["addf", "x", 0], ["addc", "x", 0]],
        "all": [["addf", "x", 0], ["addf", "x", 1], ["addc", "x", 0], ["addc", "x", 1]],
    }
    warm = regs["all"] + [["fit", "x"], ["cov", "x"]]
    part = regs["all"] + [["iscov", "x", 1], ["covfor", "x", 0]]
    out = []
    if leg == "tc":
        for init in ("call", "prim", "empty"):
            for name, prefix in (("none", regs["none"]), ("one", regs["one"]), ("all", regs["all"]),
                                 ("warm", warm), ("part", part)):
                out.append({"init": init, "clen": 48, "reg": name, "prefix": prefix})
        out.append({"init": "call", "clen": 3, "reg": "warm", "prefix": warm})
        out.append({"init": "call", "clen": 3, "reg": "one", "prefix": regs["one"]})
    else:
        for init in ([], [0], [0, 2], [2]):
            for name, prefix in (("none", regs["none"]), ("all", regs["all"]), ("warm", warm), ("part", part)):
                mw = []
                if name in ("warm", "part") and init:
                    mw = [["mfit", "x", 0]]   # a member that was evaluated on its own before
                out.append({"init": init, "clen": 48, "reg": name, "prefix": prefix + mw})
        # non-initial start: two LIVE suites after a crossover between them (y = clone of the evaluated x,
        # x takes y's tail through the public cross_over), x evaluated again.  Whatever x and y share
        # after that is then one mutate(y) away from a stale answer of x.
        for init in ([0, 2], [2]):
            out.append({"init": init, "clen": 48, "reg": "xsib",
                        "prefix": warm + [["clone"], ["xoversib", "x"], ["fit", "x"], ["cov", "x"]]})
    return out


def _scratch():
    return tempfile.mkdtemp(prefix="c12_", dir="/dev/shm" if os.path.isdir("/dev/shm") else None)


def shard(col, module, tasks, dev, cap):
    """Explore every (leg, root, depth) of ``tasks`` on one World of ``module``."""
    import time

    from mc import tcenum
    scratch = _scratch()
    try:
        world = tcenum.World(module, scratch)
        mats = materials(world)
        for leg, root, depth in tasks:
            ex = Explorer(col, world, leg, module, root, mats, depth, dev, cap)
            if ex.build([]).canon() != ex.build([]).canon():
                raise HarnessError("determinism gate: two builds of the root state differ")
            t0 = time.process_time()
            ex.run()
            col.note("shard_cpu_seconds", [f"{leg}/{module}/{root['init']}/{root['reg']}/clen{root['clen']}/d{depth}: "
                                           f"{time.process_time() - t0:.0f}"])
        world.close()
    finally:
        shutil.rmtree(scratch, ignore_errors=True)


TC_OPS = ("addf", "addc", "fit", "fitfor", "iscov", "cov", "covfor", "setfit", "setcov", "inval", "rmres",
          "edit", "assign", "xover", "xoversib", "clone", "mutate")
TS_OPS = ("addf", "addc", "fit", "fitfor", "iscov", "cov", "covfor", "setfit", "setcov", "inval", "add", "del",
          "set", "sedit", "medit", "mfit", "mcov", "xover", "xoversib", "clone", "mutate")


def plan(quick):
    """[(leg, module, root, depth)]: which roots are explored how deep in this tier."""
    jobs = []
    if quick:
        for root in roots("tc", quick):
            jobs.append(("tc", "shapes", root, 3))
            if root["reg"] == "warm" and root["init"] != "empty":
                jobs.append(("tc", "numeric", root, 3))
        for root in roots("ts", quick):
            jobs.append(("ts", "shapes", root, 2))
            if root["reg"] == "warm" and root["init"] in ([0], [0, 2]):
                jobs.append(("ts", "numeric", root, 2))
    else:
        for root in roots("tc", quick):
            deep = root["reg"] in ("warm", "part", "none") and root["init"] != "empty"
            jobs.append(("tc", "shapes", root, 4 if deep else 3))
            if root["reg"] == "warm":
                jobs.append(("tc", "numeric", root, 3))
                jobs.append(("tc", "containers", root, 3))
        for root in roots("ts", quick):
            deep = root["reg"] in ("warm", "part") and root["init"]
            jobs.append(("ts", "shapes", root, 3 if deep else 2))
            if root["reg"] == "warm" and root["init"] in ([0], [0, 2]):
                jobs.append(("ts", "numeric", root, 2))
    return jobs


def run(ctx):
    from mc import par, rng
    quick = ctx.quick
    dev = 2
    cap = 3000
    tasks = plan(quick)
    modules = sorted({t[1] for t in tasks})
    depth = {leg: max(t[3] for t in tasks if t[0] == leg) for leg in ("tc", "ts")}

    def weight(t):
        leg, _, root, d = t
        w = {"warm": 3, "part": 3, "all": 3, "one": 2, "none": 2, "xsib": 4}[root["reg"]]
        return w * (1.0 if leg == "tc" else 0.6) * (15 if d > (3 if leg == "tc" else 2) else 1)

    # deal the tasks of each module into buckets of about equal estimated weight: one World per bucket
    jobs = []
    total = sum(weight(t) for t in tasks)
    for module in modules:
        mine = sorted((t for t in tasks if t[1] == module), key=lambda t: -weight(t))
        nb = max(1, min(len(mine), round(ctx.workers * sum(weight(t) for t in mine) / total))) if quick else len(mine)
        buckets = [[0.0, []] for _ in range(nb)]
        for t in mine:
            bkt = min(buckets, key=lambda x: x[0])
            bkt[0] += weight(t)
            bkt[1].append((t[0], t[2], t[3]))
        jobs.extend((bkt[0], (module, bkt[1], dev, cap)) for bkt in buckets)
    # heaviest buckets first; the seed only permutes the order among equally heavy ones
    order = sorted(range(len(jobs)), key=lambda i: (-jobs[i][0], (i * 7919 + ctx.seed * 104729) % 1000003))
    par.run_shards("props.c12_cache_fresh:shard", [jobs[i][1] for i in order], ctx.workers, ctx)
    cpu = sorted(ctx.col.notes.get("shard_cpu_seconds", []), key=lambda t: -float(t.rsplit(": ", 1)[1]))
    ctx.note("shard_cpu_seconds", cpu[:8])
    print("C12 slowest shards (cpu s):", cpu[:6], flush=True)
    c = ctx.col.counters
    capped = c.get("capped_mutation_enumerations", 0)
    ctx.exhaustive = capped == 0
    ctx.note("depth", depth)
    ctx.note("mutation_deviation_bound", dev)
    ctx.note("modules", modules)
    ctx.note("roots", len(tasks))
    ctx.note("rng_menus", rng.MENUS)
    ctx.note("capped_mutation_enumerations", capped)
    # Vacuity guards protect a "held" verdict. States with a violation are not expanded, so a tree on
    # which already the root states violate the property legitimately explores little: then (and only
    # then) the violations are the result and the guards are skipped.
    ctx.note("root_states_failed", c.get("root_states_failed", 0))
    if not c.get("root_states_failed", 0):
        ctx.require(c.get("cache_hits", 0) > 100 and c.get("cache_misses", 0) > 100,
                    f"vacuous: cache hits {c.get('cache_hits', 0)}, misses {c.get('cache_misses', 0)}")
        ctx.require(c.get("mutations_changing_code", 0) > 100,
                    f"vacuous: only {c.get('mutations_changing_code', 0)} mutations changed code")
        ctx.require(len(ctx.col.sets.get("outcomes", ())) > 20, "vacuous: too few distinct query answers")
        ops = ctx.col.sets.get("ops_with_effect", set())
        missing = [f"{leg}:{op}" for leg, names in (("tc", TC_OPS), ("ts", TS_OPS)) for op in names
                   if f"{leg}:{op}" not in ops]
        ctx.require(not missing, f"vacuous: operations never changed the state: {missing}")
    ctx.rule = (f"BFS to depth {depth['tc']} (test case leg) / {depth['ts']} (suite leg) over the operation alphabet (mutate with <= {dev} non-default RNG answers, "
                "crossover, clone, add fitness/coverage function, get_fitness, get_fitness_for, get_is_covered, "
                "get_coverage, get_coverage_for, set_fitness_values, set_coverage_values, invalidate_cache, "
                "remove_last_execution_result, direct edit + changed=True, suite add/delete/set/mutate, member "
                "queries) on subject + clone, from every root (initial test(s) x registration/warm-cache prefix); "
                "state = (code, changed flags, cache contents, provenance of last result, registered functions, "
                "object aliasing); every new state gets a forward and a reverse sweep of all queries against "
                "values recomputed from scratch")
    ctx.assume("the stub executor is a pure function of the rendered test code (no flaky executions)")
    ctx.assume("RNG answers range over the finite menus of mc/rng.py")
    ctx.assume("edits of a test case that is held by a chromosome are followed by changed=True on the "
               "chromosome (and on the suite that holds it), as all call sites in pynguin do")


def replay(ctx, data):
    from mc import tcenum
    scratch = ctx.scratch()
    world = tcenum.World(data["module"], scratch)
    mats = materials(world)
    ex = Explorer(ctx.col, world, data["leg"], data["module"], data["root"], mats, 0, 0, 1)
    hist = data["history"]
    if not hist:
        ex.sweep(ex.build([]), [], None, reverse=False)
        ex.sweep(ex.build([]), [], None, reverse=True)
    else:
        u = ex.build(hist[:-1])
        ex.transition(hist[:-1], hist[-1], u.canon(), collections.deque(), count=False)
    world.close()
