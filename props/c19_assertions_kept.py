"""C19 — generated regression assertions are kept in the exported file.

E2 population (every test case the real factory builds with <= d RNG deviations
on each corpus module) -> suites of 1-2 test cases -> the REAL back half of the
pipeline, stage by stage: ``_generate_assertions`` (SIMPLE / MUTATION_ANALYSIS),
``_minimize`` (every strategy x direction), ``_export_chromosome``.
States = pipeline stages of a suite, transitions = stage steps; the oracle runs
on every transition:

* minimise: for every test case that survives (chromosome identity), every
  (statement, assertion) pair present before is present after, for the same
  statement (modulo the ``var = e`` -> ``e`` rewrite, which is only legitimate
  if no assertion reads ``var``);
* export: every (statement, assertion) pair on the suite appears in the written
  ``test_N`` function directly after its statement.
"""

from __future__ import annotations

import itertools
import re

from mc import par, pipeline

ID = "C19"
LEVEL = "model_checking"

MODULES_QUICK = ["numeric", "containers", "shapes", "stateful"]
MODULES_THOROUGH = ["numeric", "containers", "shapes", "strings", "raising", "stateful"]
SEQUENCE_MODULES = {"stateful"}
STRATEGIES = [("NONE", "BACKWARD"), ("CASE", "BACKWARD"), ("CASE", "FORWARD"), ("SUITE", "BACKWARD"),
              ("COMBINED", "BACKWARD")]


def norm(line):
    return re.sub(r"\s+", " ", line.strip())


def strip_binding(code):
    m = re.match(r"^\s*var_\d+\s*=\s*(.*)$", code, flags=re.S)
    return m.group(1) if m else code


def per_test(suite):
    """{id(chromosome): [(stmt code, bound var, [assertion code...]), ...]} for asserted statements."""
    import libcst as cst
    from pynguin.assertion.assertion_to_ast import assertion_to_cst

    out = {}
    for chrom in suite.test_case_chromosomes:
        rows = []
        for st in chrom.test_case.statements():
            if not st.assertions:
                continue
            rendered = []
            for a in st.assertions:
                if type(a).__name__ == "ExceptionAssertion":
                    # rendered by the exporter as `with pytest.raises(X):` around the statement, or (for an
                    # undeclared exception) as the xfail(strict=True) mark of the whole test function
                    rendered.append(f"<exception:{a.exception_type_name}>")
                    continue
                try:
                    rendered.append(norm(cst.Module(body=[assertion_to_cst(a)]).code))
                except Exception as exc:  # noqa: BLE001
                    rendered.append(f"<unrenderable:{type(a).__name__}:{type(exc).__name__}>")
            rows.append((norm(cst.Module(body=[st.node]).code), st.bound_variable, rendered))
        out[id(chrom)] = rows
    return out


def functions_of(text):
    """{index: [normalised body lines]} of the exported file."""
    funcs, cur, marks = {}, None, []
    for line in text.splitlines():
        if line.startswith("@"):
            marks.append(line)
        m = re.match(r"^def test_(\d+)\(", line)
        if m:
            cur = int(m.group(1))
            funcs[cur] = []
            if any("xfail" in d for d in marks):
                funcs[cur].append("<xfail>")
            marks = []
        elif cur is not None and (line.startswith("    ") or not line.strip()):
            if line.strip():
                funcs[cur].append(norm(line))
        elif line.strip() and not line.startswith((" ", "@")):
            cur = None
    return funcs


def kind_of(assert_code):
    if assert_code.startswith("<exception:"):
        return "exception"
    for k in ("isinstance", "pytest.approx", "len(", "__name__", " is ", "=="):
        if k in assert_code:
            return {"isinstance": "isinstance", "pytest.approx": "float", "len(": "length",
                    "__name__": "typename", " is ": "is", "==": "equals"}[k]
    return "other"


def shard(col, module, mode, pop_bound, limit, pairs, part=0, nparts=1):
    import logging
    import shutil
    import tempfile

    logging.disable(logging.CRITICAL)
    scratch = tempfile.mkdtemp(prefix="c19_", dir="/dev/shm")
    try:
        pipe = pipeline.Pipe(module, scratch)
        if module in SEQUENCE_MODULES:
            # stateful API: call sequences on ONE object (a value that changes and later returns to a previous
            # value: A -> B -> A), singletons only
            tests = [t for t in pipe.population_sequences(4 if pop_bound > 1 else 3)
                     if t.size() >= 3 and t.to_code().count("Switch()") == 1]
            groups = [[t] for t in tests]
        else:
            tests, _ = pipe.population(bound=pop_bound, limit=limit)
            groups = [[t] for t in tests] + [list(p) for p in itertools.islice(
                itertools.combinations(tests[:: max(1, len(tests) // 8)], 2), pairs)]
        # Assertion minimisation (mutation analysis, checked coverage) may legitimately keep any subset
        # of the generated assertions; the subsets that matter for this property are enumerated:
        # everything, only assertions whose source is a bare variable, only dotted (field) sources.
        variants = ("all", "bare-only", "dotted-only") if mode == "SIMPLE" else ("all",)
        # tripled tests: three renamed copies of one small test in a row (the copies are coverage-redundant
        # to each other), explored with the assertions of the FIRST copy dropped: unasserted removable
        # statements in front of asserted redundant ones
        tripled = {}
        if mode == "SIMPLE":
            for t in [t for t in tests if t.size() <= 3][:8]:
                t3 = t.clone()
                t3.append_test_case(t.clone())
                t3.append_test_case(t.clone())
                if t3.size() == 3 * t.size():
                    tripled[len(groups)] = t.size()
                    groups.append([t3])
        strategies = STRATEGIES if len(tests) > 20 or pop_bound > 1 else \
            [x for x in STRATEGIES if x[0] != "SUITE"]     # quick tier: SUITE = CASE + whole-test removal
        for gi, group in enumerate(groups):
            if gi % nparts != part:
                continue
            vs = ("unassert-head",) if gi in tripled else variants
            for (strategy, direction), variant in itertools.product(strategies, vs):
                suite = pipe.suite(group)
                data = {"module": module, "mode": mode, "strategy": strategy, "direction": direction,
                        "tests": [t.to_code() for t in group], "pop_bound": pop_bound, "variant": variant}
                try:
                    pipe.generate_assertions(suite, mode)
                except Exception as exc:  # noqa: BLE001
                    col.violation(f"C19|{mode}|generate|raises:{type(exc).__name__}", repr(exc)[:300], data)
                    continue
                if variant != "all":
                    changed = False
                    for chrom in suite.test_case_chromosomes:
                        for si, st in enumerate(chrom.test_case.statements()):
                            if variant == "unassert-head":
                                keep = [] if si < tripled[gi] else list(st.assertions)
                            else:
                                keep = [a for a in st.assertions
                                        if ("." in str(getattr(a, "source", ""))) == (variant == "dotted-only")]
                            if len(keep) != len(st.assertions):
                                st.assertions[:] = keep
                                changed = True
                    if not changed:
                        continue
                    col.count(f"variant_{variant}")
                # the chromosomes are kept alive across the stage: a visitor that replaces one frees the old object
                # and a new chromosome allocated at its address would be taken for it (rows are keyed by id)
                alive = list(suite.test_case_chromosomes)  # noqa: F841
                before = per_test(suite)
                n_assert = sum(len(r[2]) for rows in before.values() for r in rows)
                col.count("transitions")
                col.distinct("states", ("generated", module, mode, gi, variant, n_assert))
                if n_assert:
                    col.count("suites_with_assertions")
                # ---- stage: minimise
                try:
                    pipe.minimize(suite, strategy, direction)
                except Exception:  # noqa: BLE001
                    # generator._run logs "Minimization failed" and carries on with the suite as it is;
                    # a failing minimisation is C22's business, the oracles must survive either way
                    col.count("minimize_raised")
                col.count("transitions")
                after = per_test(suite)
                col.distinct("states", ("minimized", module, mode, gi, variant, strategy, direction,
                                        sum(len(r[2]) for rows in after.values() for r in rows)))
                for cid, rows in before.items():
                    if cid not in after:
                        continue  # whole test case removed by suite minimisation / empty-test removal
                    have = after[cid]
                    for code, bv, asserts in rows:
                        match = [h for h in have if h[0] == code or h[0] == strip_binding(code)]
                        kept = set(a for h in match for a in h[2])
                        for a in asserts:
                            if a not in kept:
                                rewritten = any(h[0] != code for h in match) or not match
                                col.violation(
                                    f"C19|{mode}|minimize:{strategy}|{kind_of(a)}|"
                                    f"{'dropped-with-binding-rewrite' if rewritten and match else 'dropped'}",
                                    f"{module}: statement `{code}` lost `{a}` in _minimize({strategy},{direction})",
                                    data, rank=len(group) * 100 + len(code))
                # ---- stage: export
                try:
                    _, text = pipe.export(suite, name=f"g{gi}_{strategy}_{direction}_{variant}")
                except Exception as exc:  # noqa: BLE001
                    col.violation(f"C19|{mode}|export|raises:{type(exc).__name__}", repr(exc)[:300], data)
                    continue
                col.count("transitions")
                col.count("traces_validated_against_impl")
                funcs = functions_of(text)
                for ti, chrom in enumerate(suite.test_case_chromosomes):
                    body = funcs.get(ti, [])
                    for code, bv, asserts in after.get(id(chrom), []):
                        where = [i for i, l in enumerate(body) if l in (code, strip_binding(code))
                                 or l.endswith(code) or l.endswith(strip_binding(code))]
                        for a in asserts:
                            if a.startswith("<exception:"):
                                ok = "<xfail>" in body or any(
                                    i > 0 and body[i - 1].startswith("with pytest.raises(") for i in where)
                            else:
                                ok = any(a in body[i + 1:i + 1 + len(asserts) + 2] for i in where)
                            if not ok:
                                present = a in body
                                col.violation(
                                    f"C19|{mode}|export|{kind_of(a)}|"
                                    f"{'misplaced' if present else 'missing-in-file'}",
                                    f"{module}: `{a}` of statement `{code}` not found after it in test_{ti}:\n"
                                    + "\n".join(body), data, rank=len(group) * 100 + len(code))
                col.sample({"module": module, "mode": mode, "strategy": strategy,
                            "assertions_generated": n_assert,
                            "exported": text.split("def test_0", 1)[-1][:300]}, every=41)
        pipe.close()
    finally:
        shutil.rmtree(scratch, ignore_errors=True)


def run(ctx):
    modules = MODULES_QUICK if ctx.quick else MODULES_THOROUGH
    jobs = []
    for m in modules:
        nparts = 4 if ctx.quick else 6        # the suites of one module are dealt over several workers
        for part in range(nparts):
            jobs.append((m, "SIMPLE", 1 if ctx.quick else 2, 14 if ctx.quick else 60, 4 if ctx.quick else 12,
                         part, nparts))
        if not ctx.quick or m == "numeric":
            jobs.append((m, "MUTATION_ANALYSIS", 1, 3 if ctx.quick else 14, 0 if ctx.quick else 4))
    par.run_shards("props.c19_assertions_kept:shard", jobs, ctx.workers, ctx)
    ctx.require(ctx.col.counters.get("suites_with_assertions", 0) > 20, "vacuous: hardly any assertions generated")
    ctx.exhaustive = True
    ctx.note("modules", modules)
    ctx.note("strategies", STRATEGIES)
    ctx.rule = ("population = all test cases from 2 factory insertions with <= d RNG deviations (size-limited), "
                "suites = singletons + pairs; stages generate/minimise/export of the real pipeline under every "
                "minimisation strategy/direction and both assertion modes; states = (stage, suite, #assertions)")
    ctx.assume("whole test cases removed by suite minimisation / empty-test removal may take their assertions "
               "with them (lenient reading); only surviving test cases are compared")


def replay(ctx, data):
    from mc.ctx import Collector
    col = Collector()
    shard(col, data["module"], data["mode"], data.get("pop_bound", 1), 60, 4)
    ctx.merge(col)
