"""C14 — ranking and selection operators honour their contracts.

Bounded-exhaustive enumeration (E3) of the real operators against brute-force
oracles written from the definitions, with every random tie-break enumerated
(E2, complete choice tree, no deviation bound):

(a) ``RankBasedPreferenceSorting.compute_ranking_assignment`` on populations of
    real ``Chromosome`` subclasses with *identity* equality (fitness ties never
    alias individuals) and real ``FitnessFunction`` subclasses, values served
    through the real ``ComputationCache``.  An individual is a type
    ``(fitness vector in {0,1,2}^g, length in {1,2})``.  Grid (``grid()``): every
    *ordered* population of sizes 1..4 (quick) / 1..5 (thorough) for g in {0,1,2}
    goals and of sizes 1..3 / 1..4 for g = 3; the largest g = 3 size is covered
    by every *multiset* in one zig-zag presentation (quick: n = 4 over all 54
    types; thorough: n = 5 over the 27 types of length 1) because 54^4 / 54^5
    ordered populations times all tie-break sequences exceed the tier budget.
    Every population is ranked under
    ``search_algorithm.population in {1, 2, 50}`` and under *every* answer
    sequence of ``randomness.next_bool`` (both answers at every tie).
    Oracle: front 0 holds, for every goal, an individual of minimal fitness;
    fronts are pairwise disjoint, made of population members; every later front
    that is produced while fewer than ``population`` individuals are ranked is
    exactly the Pareto non-dominated set of the not-yet-ranked; at least
    ``min(population, n)`` individuals are ranked.  ``fast_epsilon_dominance_
    assignment`` is applied to every front produced (as the MOSA algorithms do)
    and directly to every multiset up to a size: all distances in [0, 1).
(b) ``DominanceComparator`` / ``PreferenceSortingComparator`` on all ordered
    pairs of types, against the Pareto definition; antisymmetry.
(c) ``RankSelection.get_index`` for every n in 1..64 x 9 biases x 4099 draws
    (uniform grid k/4097 plus nextafter(0,1) and nextafter(1,0) = 1-2**-53, the
    largest float ``random()`` returns); the draw is scripted through
    ``randomness.next_float``.  The documented bias range is taken from the
    ``generator_selection_bias`` docstring in configuration.py ("Expects values
    in [1.0, 2.0]. 1.0 is random selection ... A value above 2.0 leads to
    cutting off the lower ranked") and the property text ("[1.0, 2.0] and above").

Lenient readings (the property text leaves latitude; DESIGN section 7):
* ranking may stop once ``population`` individuals are ranked; whatever it puts
  into a front produced after that point (MOSA's "dump the rest into one last
  front") is only required to be disjoint from the earlier fronts;
* "best individual for a goal" = minimal fitness for that goal; the length
  tie-break the code documents is not demanded;
* "never prefers a worse rank": the number of grid draws mapped to index i may
  fall short of that of any worse index j > i by at most 1 (the quantisation
  error of a uniform grid); the sharper threshold-bisection measure is only
  applied where the index is monotone in the draw on the grid, with 1e-9 slack.
Two checks are contract-level rather than literal property text and are marked
``contract`` in their fingerprint: front 0 contains *only* per-goal bests, and
the ``rank`` attribute of a ranked individual equals its front index.
"""

from __future__ import annotations

import collections
import itertools
import math

from mc.ctx import HarnessError
from mc.explore import Chooser, explore_deviations

ID = "C14"
LEVEL = "exploration"
TARGET = "props.c14_ranking_selection:shard"

VALUES = (0, 1, 2)
LENGTHS = (1, 2)
POPCFGS = (1, 2, 50)
MAXPOS = 6
NS = range(1, 65)
GRID = 4097
BIASES = [("1.0", 1.0), ("1+2^-52", 1.0 + 2.0 ** -52), ("1.01", 1.01), ("1.2", 1.2),
          ("1.68", 1.68), ("1.7", 1.7), ("2.0", 2.0), ("2.5", 2.5), ("3.0", 3.0)]
# nextafter(1, 0) and 1 - 2**-53 are the same float: the largest value random() can return
SPECIAL_DRAWS = [("min-float", math.nextafter(0.0, 1.0)), ("max-float", math.nextafter(1.0, 0.0))]
assert SPECIAL_DRAWS[1][1] == 1.0 - 2.0 ** -53
ALL = 10 ** 9


def types_for(g):
    return [(vec, ln) for vec in itertools.product(VALUES, repeat=g) for ln in LENGTHS]


def dominates(a, b):
    """Pareto dominance (minimisation) from the definition."""
    return all(x <= y for x, y in zip(a, b)) and any(x < y for x, y in zip(a, b))


def grid(tier):
    """[(g, n, mode)].

    'ordered': every sequence of n types (fitness vector, length).
    'multiset': every multiset of n types, presented in zig-zag order (smallest, largest,
    2nd smallest, 2nd largest, ... of the lexicographically sorted multiset) so that both
    "a later individual is dominated by an earlier one" and "a later individual dominates
    earlier ones" occur within one presentation.
    'multiset-len1': the same over the types of length 1 only.
    """
    out = []
    if tier == "quick":
        for g in (0, 1, 2):
            out += [(g, n, "ordered") for n in (1, 2, 3, 4)]
        out += [(3, n, "ordered") for n in (1, 2, 3)]
        out += [(3, 4, "multiset")]
    else:
        for g in (0, 1, 2):
            out += [(g, n, "ordered") for n in (1, 2, 3, 4, 5)]
        out += [(3, n, "ordered") for n in (1, 2, 3, 4)]
        out += [(3, 5, "multiset-len1")]
    return out


def mode_types(g, mode):
    """Type indices a mode draws from."""
    ts = types_for(g)
    if mode == "multiset-len1":
        return [i for i, (_, ln) in enumerate(ts) if ln == 1]
    return list(range(len(ts)))


def grid_size(g, n, mode):
    t = len(mode_types(g, mode))
    if mode == "ordered":
        return t ** n
    return math.comb(t + n - 1, n)


def zigzag(seq):
    out, lo, hi = [], 0, len(seq) - 1
    while lo <= hi:
        out.append(seq[lo])
        if hi != lo:
            out.append(seq[hi])
        lo, hi = lo + 1, hi - 1
    return tuple(out)


class _Forbidden:
    def __getattr__(self, name):
        raise HarnessError(f"un-owned random draw: RNG.{name}")


# ------------------------------------------------------------------ the world
class World:
    """Real pynguin operators over stub individuals; owns every random draw."""

    def __init__(self):
        import pynguin.configuration as config
        import pynguin.ga.chromosome as chrom
        import pynguin.ga.computations as ff
        from pynguin.ga.operators import comparator, ranking, selection
        from pynguin.utils import randomness
        from pynguin.utils.orderedset import OrderedSet

        self.config, self.comparator, self.ranking, self.selection = config, comparator, ranking, selection
        self.randomness, self.OrderedSet = randomness, OrderedSet

        class Goal(ff.FitnessFunction):
            def __init__(self, index):
                self.index = index

            def compute_fitness(self, individual):
                return float(individual.vec[self.index])

            def compute_is_covered(self, individual):
                return individual.vec[self.index] == 0

            def is_maximisation_function(self):
                return False

            def __eq__(self, other):
                return self is other

            def __hash__(self):
                return 7919 + self.index

            def __repr__(self):
                return f"goal{self.index}"

        class Ind(chrom.Chromosome):
            """A chromosome with identity equality; fitness through the real cache."""

            def __init__(self, vec, ln, goals, pos, tindex):
                super().__init__()
                self.vec, self.ln, self.pos, self.tindex = vec, ln, pos, tindex
                for goal in goals:
                    self.add_fitness_function(goal)

            def size(self):
                return self.ln

            def length(self):
                return self.ln

            def cross_over(self, other, position1, position2):
                raise HarnessError("cross_over reached")

            def mutate(self):
                raise HarnessError("mutate reached")

            def clone(self):
                raise HarnessError("clone reached")

            def accept(self, visitor):
                raise HarnessError("accept reached")

            def __eq__(self, other):
                return self is other

            def __hash__(self):
                return self.tindex * MAXPOS + self.pos

            def __repr__(self):
                return f"<{self.vec}/{self.ln}@{self.pos}>"

        self.Goal, self.Ind = Goal, Ind
        self.goal_objs = [Goal(j) for j in range(4)]
        self.types = {g: types_for(g) for g in range(4)}
        self.dom = {g: [[dominates(a[0], b[0]) for b in ts] for a in ts] for g, ts in self.types.items()}
        self.pool: dict = {}
        self.chooser: Chooser | None = None
        self.draw = None
        randomness.RNG = _Forbidden()
        randomness.next_bool = self._next_bool
        randomness.next_float = self._next_float
        self.ranking_fn = ranking.RankBasedPreferenceSorting()
        self.sigs: set = set()
        self.cnt = collections.defaultdict(int)

    def flush(self, col):
        """Hot-path counters are kept locally and handed to the collector once."""
        for k, v in sorted(self.cnt.items()):
            col.count(k, v)
        col.count("evaluations", self.cnt["ranking_executions"] + self.cnt["crowding_calls"])
        self.cnt.clear()
        for s in sorted(self.sigs):
            col.distinct("nontrivial", s)
        self.sigs = set()

    # -- owned randomness
    def _next_bool(self):
        if self.chooser is None:
            raise HarnessError("un-owned next_bool")
        return bool(self.chooser.choose("next_bool", 2))

    def _next_float(self, lower_bound=0, upper_bound=1):
        if self.draw is not None:
            return lower_bound + (upper_bound - lower_bound) * self.draw
        if self.chooser is None:
            raise HarnessError("un-owned next_float")
        r = (0.51, 0.25)[self.chooser.choose("next_float", 2)]
        return lower_bound + (upper_bound - lower_bound) * r

    def ind(self, g, t, pos):
        key = (g, t, pos)
        x = self.pool.get(key)
        if x is None:
            vec, ln = self.types[g][t]
            x = self.pool[key] = self.Ind(vec, ln, self.goal_objs[:g], pos, t)
        return x

    # ------------------------------------------------------------ (a) ranking
    def populations(self, g, n, mode, firsts):
        universe = mode_types(g, mode)
        for t0 in firsts:
            if mode == "ordered":
                for rest in itertools.product(universe, repeat=n - 1):
                    yield (t0, *rest)
            else:
                later = [t for t in universe if t >= t0]
                for rest in itertools.combinations_with_replacement(later, n - 1):
                    yield zigzag((t0, *rest))

    def leg_ranking(self, col, g, n, mode, firsts, sample_every):
        for pop in self.populations(g, n, mode, firsts):
            col.count("populations")
            self.ranking_case(col, g, pop, POPCFGS, None, sample_every)
        self.flush(col)
        col.note("max_tie_break_points", self.max_points)

    max_points = 0

    def ranking_case(self, col, g, pop, popcfgs, only_coins, sample_every=0):
        n = len(pop)
        types = self.types[g]
        inds = [self.ind(g, t, p) for p, t in enumerate(pop)]
        fit = [types[t][0] for t in pop]
        goals = self.OrderedSet(self.goal_objs[:g])
        mins = [min(f[j] for f in fit) for j in range(g)]
        ties = any(sum(1 for f in fit if f[j] == mins[j]) > 1 for j in range(g))
        dom = self.dom[g]
        cnt = self.cnt
        crowd = self.ranking.fast_epsilon_dominance_assignment
        data0 = {"leg": "ranking", "g": g, "pop": [[list(types[t][0]), types[t][1]] for t in pop]}

        for popcfg in popcfgs:
            self.config.configuration.search_algorithm.population = popcfg
            cls = "ties" if ties else "noties"

            def run(ch):
                self.chooser = ch
                for x in inds:
                    x.rank = -1
                    x.distance = -1
                try:
                    return self.ranking_fn.compute_ranking_assignment(list(inds), goals)
                except HarnessError:
                    raise
                except Exception as exc:  # noqa: BLE001
                    return exc
                finally:
                    self.chooser = None

            def bad(sig, what, ch, kind="ranking"):
                col.violation(f"C14|{kind}|{sig}|{cls if kind == 'ranking' else 'ranked-front'}",
                              f"{what}; population {[types[t] for t in pop]} (fitness vector, length), "
                              f"{g} goals, population config {popcfg}, next_bool answers {ch.choices}",
                              dict(data0, popcfg=popcfg, coins=ch.choices), rank=n * 100 + g * 10 + len(ch.points))

            def on_exec(ch, out):
                cnt["ranking_executions"] += 1
                npts = len(ch.points)
                if npts:
                    cnt["executions_with_tie_breaks"] += 1
                    if npts > self.max_points:
                        self.max_points = npts
                if isinstance(out, Exception):
                    bad(f"raises:{type(out).__name__}", f"compute_ranking_assignment raised {out!r}", ch)
                    return
                fronts = out.fronts
                if fronts is None:
                    bad("no-fronts", "no fronts for a non-empty population", ch)
                    return
                # membership, disjointness
                idx, seen, ok = [], set(), True
                for k, front in enumerate(fronts):
                    row = []
                    for x in front:
                        p = getattr(x, "pos", None)
                        if p is None or p >= n or inds[p] is not x:
                            bad("front-has-foreign-individual", f"front {k} holds a non-member", ch)
                            ok = False
                            continue
                        if p in seen:
                            bad("fronts-not-disjoint", f"individual #{p} is in two fronts (or twice in one): "
                                f"{[[y.pos for y in f] for f in fronts]}", ch)
                            ok = False
                            continue
                        seen.add(p)
                        row.append(p)
                    idx.append(row)
                if not ok:
                    return
                if not idx:
                    bad("no-fronts", "empty list of fronts", ch)
                    return
                shown = f"fronts {idx}"
                # front 0
                f0 = idx[0]
                for j in range(g):
                    if not any(fit[p][j] == mins[j] for p in f0):
                        bad("front0-missing-best", f"front 0 has no individual with minimal fitness "
                            f"{mins[j]} for goal {j}: {shown}", ch)
                for p in f0:
                    if not any(fit[p][j] == mins[j] for j in range(g)):
                        bad("contract:front0-extra-member", f"front 0 member #{p} is best for no goal: {shown}", ch)
                # later fronts
                ranked = len(f0)
                remaining = [p for p in range(n) if p not in f0]
                dumped = False
                for k in range(1, len(idx)):
                    fk = idx[k]
                    if ranked < popcfg:
                        nd = [p for p in remaining if not any(dom[pop[q]][pop[p]] for q in remaining)]
                        sk = set(fk)
                        if any(p not in nd for p in fk):
                            bad("front-has-dominated", f"front {k} holds an individual dominated by a "
                                f"not-yet-ranked one (non-dominated set is {nd}): {shown}", ch)
                        if any(p not in sk for p in nd):
                            bad("front-missing-nondominated", f"front {k} lacks a non-dominated individual "
                                f"(non-dominated set is {nd}): {shown}", ch)
                    else:
                        dumped = True
                    ranked += len(fk)
                    remaining = [p for p in remaining if p not in fk]
                if ranked < min(popcfg, n):
                    bad("too-few-ranked", f"{ranked} ranked, {min(popcfg, n)} needed: {shown}", ch)
                for k, fk in enumerate(idx):
                    for p in fk:
                        if inds[p].rank != k:
                            bad("contract:rank-attribute-mismatch", f"individual #{p} in front {k} has rank "
                                f"{inds[p].rank}: {shown}", ch)
                # crowding distance on every produced front, as the MOSA algorithms do
                d0 = ()
                for k, front in enumerate(fronts):
                    if not front:
                        continue
                    cnt["crowding_calls"] += 1
                    try:
                        crowd(front, goals)
                    except HarnessError:
                        raise
                    except Exception as exc:  # noqa: BLE001
                        bad(f"raises:{type(exc).__name__}", f"fast_epsilon_dominance_assignment raised "
                            f"{exc!r} on front {k}: {shown}", ch, kind="crowding")
                        continue
                    ds = [x.distance for x in front]
                    for x, d in zip(front, ds):
                        if not (isinstance(d, (int, float)) and 0 <= d < 1):
                            bad("distance-out-of-range", f"distance {d!r} of #{x.pos} in front {k}: {shown}", ch,
                                kind="crowding")
                    if k == 0:
                        d0 = tuple(sorted(ds))
                    if any(ds):
                        cnt["fronts_with_positive_distance"] += 1
                # book-keeping
                if len(idx) >= 3:
                    cnt["executions_with_3+_fronts"] += 1
                if dumped:
                    cnt["executions_with_dump_front"] += 1
                if remaining:
                    cnt["executions_stopping_early"] += 1
                if n >= 2:
                    self.sigs.add((g, n, popcfg, tuple(len(f) for f in idx), npts, d0))
                if sample_every:
                    col.sample(dict(data0, popcfg=popcfg, coins=ch.choices, fronts=idx,
                                    front0_distances=list(d0)), every=sample_every)

            if only_coins is None:
                explore_deviations(run, ALL, on_exec)
            else:
                ch = Chooser(only_coins)
                on_exec(ch, run(ch))

    # ---------------------------------------------------- (a') crowding, direct
    def leg_crowding(self, col, g, nmax):
        types = self.types[g]
        goals = self.OrderedSet(self.goal_objs[:g])
        outcomes = set()
        for n in range(1, nmax + 1):
            for pop in itertools.combinations_with_replacement(range(len(types)), n):
                front = [self.ind(g, t, p) for p, t in enumerate(pop)]
                for x in front:
                    x.distance = -1
                col.count("evaluations")
                col.count("crowding_calls")
                data = {"leg": "crowding", "g": g, "pop": [[list(types[t][0]), types[t][1]] for t in pop]}
                try:
                    self.ranking.fast_epsilon_dominance_assignment(front, goals)
                except HarnessError:
                    raise
                except Exception as exc:  # noqa: BLE001
                    col.violation(f"C14|crowding|raises:{type(exc).__name__}|direct",
                                  f"fast_epsilon_dominance_assignment raised {exc!r} on {[types[t] for t in pop]}",
                                  data, rank=n * 100 + g * 10)
                    continue
                ds = [x.distance for x in front]
                outcomes.add(tuple(sorted(ds)))
                for d in ds:
                    if not (isinstance(d, (int, float)) and 0 <= d < 1):
                        col.violation(f"C14|crowding|distance-out-of-range|direct",
                                      f"distance {d!r} for front {[types[t] for t in pop]}", data,
                                      rank=n * 100 + g * 10)
        for o in sorted(outcomes):
            col.distinct("crowding_outcomes", ("d", g, o))
            if any(o):
                col.distinct("nontrivial", ("crowding", g, o))

    # ------------------------------------------------------- (b) comparators
    def leg_comparators(self, col):
        DC, PC = self.comparator.DominanceComparator, self.comparator.PreferenceSortingComparator
        outcomes = set()
        for g in range(4):
            types = self.types[g]
            goals = self.OrderedSet(self.goal_objs[:g])
            builds = [("goals", lambda: DC(goals=goals)), ("default", lambda: DC())]
            if g == 1:
                builds.append(("goal", lambda: DC(goal=self.goal_objs[0])))
            for (ta, a), (tb, b) in itertools.product(enumerate(types), repeat=2):
                xa, xb = self.ind(g, ta, 0), self.ind(g, tb, 1)
                exp = -1 if dominates(a[0], b[0]) else 1 if dominates(b[0], a[0]) else 0
                col.distinct("comparator_expected", f"exp{exp}")
                data = {"leg": "comparators", "g": g, "a": [list(a[0]), a[1]], "b": [list(b[0]), b[1]]}
                for how, build in builds:
                    col.count("evaluations", 2)
                    col.count("dominance_comparisons", 2)
                    try:
                        got, back = build().compare(xa, xb), build().compare(xb, xa)
                    except HarnessError:
                        raise
                    except Exception as exc:  # noqa: BLE001
                        col.violation(f"C14|dominance_comparator|raises:{type(exc).__name__}|{how}",
                                      f"DominanceComparator({how}).compare({a},{b}) raised {exc!r}", data, rank=g)
                        continue
                    outcomes.add(("dom", got))
                    if got != exp:
                        col.violation(f"C14|dominance_comparator|disagrees-with-pareto-definition|{how}",
                                      f"DominanceComparator({how}).compare({a},{b}) = {got}, definition {exp}",
                                      data, rank=g)
                    if back != -got:
                        col.violation(f"C14|dominance_comparator|not-antisymmetric|{how}",
                                      f"compare({a},{b}) = {got} but compare({b},{a}) = {back}", data, rank=g)
                for j in range(g):
                    col.count("evaluations", 2)
                    col.count("preference_comparisons", 2)
                    pc = PC(self.goal_objs[j])
                    got, back = pc.compare(xa, xb), pc.compare(xb, xa)
                    outcomes.add(("pref", got))
                    va, vb = a[0][j], b[0][j]
                    if va != vb:
                        allowed = (-1,) if va < vb else (1,)
                    else:  # lenient: the documented 0 and the length tie-break are both accepted
                        allowed = (0, -1 if a[1] < b[1] else 1 if a[1] > b[1] else 0)
                    if got not in allowed:
                        col.violation("C14|preference_comparator|disagrees-with-fitness-order|"
                                      f"{'fitness-differs' if va != vb else 'fitness-equal'}",
                                      f"PreferenceSortingComparator(goal {j}).compare({a},{b}) = {got}", data, rank=g)
                    if back != -got:
                        col.violation("C14|preference_comparator|not-antisymmetric|-",
                                      f"compare({a},{b}) = {got}, compare({b},{a}) = {back}", data, rank=g)
        for o in sorted(outcomes):
            col.distinct("comparator_outcomes", o)

    # ---------------------------------------------------- (c) rank selection
    def selection_case(self, col, label, bias, n, judge_measure=True, sample=False):
        sel = self.selection.RankSelection(bias)
        population = [None] * n
        data = {"leg": "selection", "bias_label": label, "n": n}
        blabel = f"bias={label}"

        def index(r):
            self.draw = r
            try:
                return sel.get_index(population)
            finally:
                self.draw = None

        def probe(r, rcls, counts):
            col.count("evaluations")
            col.count("get_index_calls")
            try:
                i = index(r)
            except HarnessError:
                raise
            except Exception as exc:  # noqa: BLE001
                col.violation(f"C14|rank_selection|{blabel}|raises:{type(exc).__name__}",
                              f"RankSelection({bias!r}).get_index(population of {n}) raised {exc!r} at draw {r!r}",
                              dict(data, draw=r), rank=n)
                return None
            if not (isinstance(i, int) and 0 <= i < n):
                col.violation(f"C14|rank_selection|{blabel}|index-out-of-range|draw={rcls}",
                              f"RankSelection({bias!r}).get_index(population of {n}) = {i!r} at draw {r!r}",
                              dict(data, draw=r), rank=n)
                return i
            if counts is not None:
                counts[i] += 1
            return i

        counts = [0] * n
        seq = []
        for k in range(GRID):
            seq.append(probe(k / GRID, "grid", counts))
        for rcls, r in SPECIAL_DRAWS:
            probe(r, rcls, None)
        self.sel_outcomes.add((label, n, tuple(counts)))
        if sample:
            col.sample({"leg": "selection", "bias": label, "n": n, "grid_histogram": counts})
        if not judge_measure or any(i is None for i in seq):
            return
        # grid measure: a better rank is never drawn less often than a worse one (slack 1 = quantisation)
        worst_later = 0
        for i in range(n - 1, -1, -1):
            if counts[i] + 1 < worst_later:
                j = max(range(i + 1, n), key=lambda q: counts[q])
                col.violation(f"C14|rank_selection|{blabel}|prefers-worse-rank|grid-measure",
                              f"RankSelection({bias!r}), n={n}: index {i} drawn by {counts[i]} of {GRID} grid "
                              f"draws, worse index {j} by {counts[j]}", dict(data, i=i, j=j), rank=n)
                break
            worst_later = max(worst_later, counts[i])
        # exact measure by bisection of the thresholds, only where the index is monotone on the grid
        pts = [k / GRID for k in range(GRID)] + [SPECIAL_DRAWS[1][1]]
        try:
            seq = seq + [index(pts[-1])]
        except HarnessError:
            raise
        except Exception:  # noqa: BLE001  (already reported by probe)
            return
        if any(a > b for a, b in zip(seq, seq[1:])) or not all(0 <= i < n for i in seq):
            col.count("selection_cases_without_exact_measure")
            return
        thr = [0.0] * (n + 1)   # thr[i] = smallest draw mapped to an index >= i
        thr[n] = 1.0
        for k in range(GRID):
            if seq[k + 1] > seq[k]:
                lo, hi = pts[k], pts[k + 1]
                for i in range(seq[k] + 1, seq[k + 1] + 1):
                    a, b = lo, hi
                    while True:
                        m = (a + b) / 2
                        if m <= a or m >= b:
                            break
                        col.count("evaluations")
                        col.count("get_index_calls")
                        if index(m) >= i:
                            b = m
                        else:
                            a = m
                    thr[i] = b
        top = seq[-1]
        for i in range(top + 1, n):
            thr[i] = 1.0   # never drawn on the grid (documented cut-off for bias > 2)
        measure = [thr[i + 1] - thr[i] for i in range(n)]
        col.count("selection_cases_with_exact_measure")
        for i in range(n - 1):
            if measure[i] + 1e-9 < measure[i + 1]:
                col.violation(f"C14|rank_selection|{blabel}|prefers-worse-rank|exact-measure",
                              f"RankSelection({bias!r}), n={n}: draws mapped to index {i} have measure "
                              f"{measure[i]!r}, to the worse index {i + 1} {measure[i + 1]!r}",
                              dict(data, i=i, j=i + 1), rank=n)
                break

    sel_outcomes: set = set()

    def leg_selection(self, col, label, bias):
        self.sel_outcomes = set()
        for n in NS:
            self.selection_case(col, label, bias, n)
        for o in sorted(self.sel_outcomes):
            col.distinct("selection_outcomes", o)
            if o[1] >= 2:
                col.distinct("nontrivial", ("sel",) + o)


# ---------------------------------------------------------------- sharding
_WORLD = None


def world():
    global _WORLD
    if _WORLD is None:
        _WORLD = World()
    return _WORLD


def shard(col, kind, *args):
    w = world()
    w.sigs = set()
    w.max_points = 0
    getattr(w, "leg_" + kind)(col, *args)


def plan(tier, seed):
    jobs = []
    for g, n, mode in grid(tier):
        universe = mode_types(g, mode)
        t = len(universe)
        size = grid_size(g, n, mode)
        # one shard per first type when the cell is big, else one shard per cell
        groups = [[t0] for t0 in universe] if size > 20000 else [universe]
        for firsts in groups:
            if mode == "ordered":
                est = len(firsts) * t ** (n - 1)
            else:
                est = sum(math.comb(sum(1 for u in universe if u >= t0) + n - 2, n - 1) for t0 in firsts)
            jobs.append((est * (1 + g) * (n - 1 or 1), ("ranking", g, n, mode, firsts, 0)))
    jobs.sort(key=lambda j: (-j[0], repr(j[1])))
    out = [j[1] for j in jobs]
    out += [("selection", label, bias) for label, bias in BIASES]
    out += [("comparators",)]
    out += [("crowding", g, 4 if tier == "quick" else 5) for g in range(4)]
    return out


# ---------------------------------------------------------------- entry points
def run(ctx):
    from mc import par

    jobs = plan(ctx.tier, ctx.seed)
    par.run_shards(TARGET, jobs, ctx.workers, ctx)
    # samples for the evidence file: a few cases re-run in this process (the seed only picks which)
    w = world()
    picks = [(2, ((0, 2), 1), ((2, 0), 1), ((1, 1), 2), ((2, 2), 1)),
             (2, ((0, 1), 1), ((0, 1), 1), ((1, 0), 2), ((1, 1), 1)),
             (3, ((0, 1, 2), 1), ((0, 1, 2), 2), ((2, 1, 0), 1)),
             (1, ((1,), 2), ((1,), 1), ((0,), 2), ((2,), 1))]
    for k in range(2):
        g, *members = picks[(ctx.seed + k) % len(picks)]
        pop = tuple(w.types[g].index(m) for m in members)
        w.ranking_case(ctx, g, pop, (POPCFGS[(ctx.seed + k) % 3],), None, sample_every=3)
    w.flush(ctx)
    label, bias = BIASES[3 + ctx.seed % 6]
    w.selection_case(ctx, label, bias, 5, sample=True)
    c = ctx.col.counters
    cells = grid(ctx.tier)
    expect = sum(grid_size(g, n, mode) for g, n, mode in cells)
    ctx.require(c.get("populations", 0) == expect,
                f"population grid not fully enumerated ({c.get('populations', 0)} != {expect})")
    ctx.require(c.get("get_index_calls", 0) >= len(BIASES) * len(NS) * (GRID + len(SPECIAL_DRAWS)),
                "selection grid not fully enumerated")
    if not ctx.col.violations:
        # diversity of what the implementation did; not enforced when violations are being reported
        # (a broken implementation may legitimately lack an outcome, and exit 2 would hide the verdict)
        for key in ("executions_with_tie_breaks", "executions_with_3+_fronts", "executions_with_dump_front",
                    "executions_stopping_early", "fronts_with_positive_distance",
                    "selection_cases_with_exact_measure"):
            ctx.require(c.get(key, 0) > 0, f"vacuous: {key} == 0")
        ctx.require(len(ctx.col.sets.get("comparator_outcomes", ())) == 6,
                    "vacuous: comparators did not produce all of -1/0/1")
    ctx.require(len(ctx.col.sets.get("comparator_expected", ())) == 3,
                "vacuous: the Pareto oracle did not expect all of -1/0/1")
    ctx.require(len(ctx.col.sets.get("nontrivial", ())) >= 50, "vacuous: too few distinct outcomes")
    ctx.note("ranking_grid", [f"g={g} n={n} {mode} ({grid_size(g, n, mode)} populations)" for g, n, mode in cells])
    ctx.note("population_config", list(POPCFGS))
    ctx.note("biases", [lab for lab, _ in BIASES])
    ctx.note("draws", f"k/{GRID} for k in 0..{GRID - 1}, plus " + ", ".join(lab for lab, _ in SPECIAL_DRAWS))
    ctx.note("selection_population_sizes", "1..64")
    ctx.exhaustive = True
    ctx.rule = ("ranking: distinct (goals, population size, population config, front-size profile, number of "
                "tie-break coins, sorted crowding distances of front 0) with >= 2 individuals; crowding: distinct "
                "sorted distance vectors with a positive entry; selection: distinct (bias, n >= 2, per-index "
                "grid histogram)")
    ctx.assume("individuals are real Chromosome subclasses with identity __eq__/__hash__; populations hold "
               "distinct objects (structurally-equal chromosomes aliasing in list.remove is out of scope)")
    ctx.assume("fitness values are exact small floats {0,1,2}; individuals are pooled per (type, position) and "
               "their rank/distance reset before every execution, fitness served by the real ComputationCache")
    ctx.assume("lenient readings: ranking may stop after `population` individuals (the trailing dump front is "
               "only required to be disjoint); 'best' = minimal fitness (length tie-break not demanded); grid "
               "histogram monotone up to 1 draw of quantisation, exact measure up to 1e-9")
    ctx.assume("draws come from randomness.next_float (0 <= r < 1, largest 1-2^-53) and next_bool; any other "
               "RNG use raises")


def replay(ctx, data):
    w = world()
    leg = data["leg"]
    if leg == "ranking":
        g = data["g"]
        types = w.types[g]
        pop = tuple(types.index((tuple(v), ln)) for v, ln in data["pop"])
        w.ranking_case(ctx, g, pop, (data["popcfg"],), list(data["coins"]))
        w.flush(ctx)
    elif leg == "crowding":
        g = data["g"]
        w.leg_crowding(ctx, g, len(data["pop"]))
    elif leg == "comparators":
        w.leg_comparators(ctx)
    elif leg == "selection":
        bias = dict(BIASES)[data["bias_label"]]
        w.selection_case(ctx, data["bias_label"], bias, data["n"])
    else:
        raise HarnessError(f"unknown leg {leg}")
