"""C33 — worker crashes never hang pynguin and restarts are bounded.

E5: ``models/Restart.tla`` abstracts the master's restart protocol; TLC checks
the invariants (restarts only while search time remains, each restart strictly
reduces it, bounded number of restarts, success only if a worker delivered,
subprocess mode after the first restart) over all reachable states. The model
carries a history variable, so every terminal state is one complete behaviour
(crash sequence + final delivery); EVERY such behaviour is replayed against the
real ``PynguinClient.run_pynguin`` / ``MasterProcess`` / ``RunningTask`` with a
fake process, pipe and clock that answer exactly as the behaviour dictates, and
the implementation's observable trace (search time and subprocess flag handed to
each spawned worker, number of spawns, final ReturnCode, that it returned at
all) must equal the model's. A code change the model does not mirror fails
conformance.

Fault-enumeration leg: the real CLI in master-worker mode with the real worker
process killed (os._exit through the PYNGUIN_VERIF-guarded crash_point hook) at
each pipeline phase, once and repeatedly, under a search-time and under an
iteration budget: the command must return within a hard wall-clock cap, with a
return code consistent with "some worker delivered".
"""

from __future__ import annotations

import os
import re
import shutil
import subprocess
import sys
import tempfile
import time

from mc.ctx import HarnessError

ID = "C33"
LEVEL = "model_checking"
HOME = os.environ.get("VERIF_HOME", os.path.dirname(os.path.dirname(os.path.abspath(__file__))))

ELAPSED = {"tiny": 0.3, "one": 1.0, "two": 2.0, "huge": 10_000.0}


# ------------------------------------------------------------------ TLC
def run_tlc(tmax, workdir):
    for f in ("Restart.tla", "MCRestart.tla"):
        shutil.copy(os.path.join(HOME, "models", f), workdir)
    with open(os.path.join(workdir, "MCRestart.cfg"), "w") as fh:
        fh.write("SPECIFICATION Spec\nCONSTANTS\n  Tmax = %d\n  T0s <- MCT0s\nINVARIANTS\n" % tmax)
        for inv in ("TypeOK", "RestartsDecrease", "RestartsBounded", "NoRestartWithoutSearchTime",
                    "SuccessOnlyIfDelivered", "SubprocessAfterRestart", "ReturnedIffDone"):
            fh.write(f"  {inv}\n")
    dump = os.path.join(workdir, "states")
    env = dict(os.environ)
    env.pop("PYTHONPATH", None)
    env["JAVA_TOOL_OPTIONS"] = f"-Djava.io.tmpdir={workdir}"  # TLC unpacks its modules into a tmp dir
    r = subprocess.run(["tlc", "-workers", "1", "-noGenerateSpecTE", "-metadir",
                        os.path.join(workdir, "meta"), "-dump", dump, "MCRestart"],
                       cwd=workdir, capture_output=True, text=True, timeout=1500, env=env)
    out = r.stdout + r.stderr
    m = re.search(r"(\d+) states generated, (\d+) distinct states found", out)
    ok = "No error has been found" in out
    return ok, out, (int(m.group(1)), int(m.group(2))) if m else (0, 0), dump + ".dump"


def parse_dump(path):
    """Parse TLC's state dump into dicts of TLA values (only what the replay needs)."""
    states = []
    with open(path) as fh:
        text = fh.read()
    for block in re.split(r"^State \d+:\n", text, flags=re.M)[1:]:
        st = {}
        key = None
        for line in block.strip().splitlines():
            m = re.match(r"^/\\ (\w+) = (.*)$", line.strip())
            if m:
                key = m.group(1)
                st[key] = m.group(2)
            elif key is not None and line.strip():
                st[key] += " " + line.strip()   # TLC wraps long values
        states.append(st)
    return states


def tla_seq(s):
    """<<1, 2>> -> [1, 2];  <<<<"died", "tiny">>, ...>> -> [["died","tiny"], ...]"""
    py = s.replace("<<", "[").replace(">>", "]").replace("TRUE", "True").replace("FALSE", "False")
    return eval(py, {"__builtins__": {}})  # noqa: S307  (our own TLC output)


# ------------------------------------------------------------------ conformance
class _FakeClock:
    def __init__(self):
        self.now = 1000.0

    def time(self):
        return self.now


def replay_behaviour(hist, t0):
    """Drive the real client through one model behaviour; return the observed trace."""
    import pynguin.configuration as config
    import pynguin.master_worker.master as master
    from pynguin.generator import ReturnCode
    from pynguin.master_worker.client import PynguinClient
    from pynguin.master_worker.worker import WorkerError, WorkerResult, WorkerReturnCode

    clock = _FakeClock()
    script = list(hist)
    spawns = []

    class FakeConn:
        def __init__(self, action):
            self.action = action
            self.closed = False

        def recv(self):
            kind, arg = self.action
            if kind == "deliver":
                clock.now += 0.5
                return WorkerResult(task_id="t", worker_return_code=WorkerReturnCode.OK,
                                    return_code=ReturnCode[arg])
            if kind == "error-result":
                clock.now += 0.5
                return WorkerResult(task_id="t", worker_return_code=WorkerReturnCode.OK,
                                    return_code=None, error=WorkerError("boom", "tb"))
            clock.now += ELAPSED[arg]
            if kind == "died":
                raise EOFError
            raise ValueError("garbled pickle")  # "garbage"

        def close(self):
            self.closed = True

    class FakeProcess:
        def __init__(self, target=None, args=(), name=None):
            self.args = args

        def start(self):
            task = self.args[0]
            spawns.append((task.configuration.stopping.maximum_search_time,
                           bool(task.configuration.subprocess)))

        def is_alive(self):
            return False

        def terminate(self):
            pass

        def join(self, timeout=None):
            pass

        def kill(self):
            pass

    class FakeMp:
        Process = FakeProcess

        @staticmethod
        def Pipe(duplex=False):  # noqa: N802
            if not script:
                raise HarnessError("implementation spawned more workers than the model behaviour has")
            return FakeConn(script.pop(0)), FakeConn(("none", "none"))

    class FakeTime:
        time = staticmethod(clock.time)

    cfg = config.Configuration(
        algorithm=config.Algorithm.RANDOM, project_path="", module_name="m",
        test_case_output=config.TestCaseOutputConfiguration(output_path=""))
    cfg.stopping.maximum_search_time = t0
    cfg.use_master_worker = True
    saved_cfg = config.configuration
    config.configuration = cfg
    old_mp, old_time = master.mp, master.time
    master.mp, master.time = FakeMp, FakeTime
    try:
        sys.setrecursionlimit(max(sys.getrecursionlimit(), 3000))
        client = PynguinClient(cfg)
        rc = client.run_pynguin()
        client.stop()
    finally:
        master.mp, master.time = old_mp, old_time
        config.configuration = saved_cfg
    return {"spawnT": [s[0] for s in spawns], "spawnForce": [s[1] for s in spawns],
            "final": rc.name, "unused_actions": len(script)}


def conformance(ctx, states):
    import logging
    logging.disable(logging.CRITICAL)
    terminal = [s for s in states if s.get("phase") == '"done"']
    ctx.require(len(terminal) > 50, "vacuous: too few terminal behaviours in the model")
    outcomes = set()
    for st in terminal:
        hist = tla_seq(st["hist"])
        spawn_t = tla_seq(st["spawnT"])
        spawn_force = tla_seq(st["spawnForce"])
        final = st["final"].strip('"')
        try:
            obs = replay_behaviour(hist, spawn_t[0])
        except HarnessError:
            raise
        except Exception as exc:  # noqa: BLE001
            obs = {"raised": type(exc).__name__}
        ctx.count("traces_validated_against_impl")
        outcomes.add((final, len(spawn_t)))
        expect = {"spawnT": spawn_t, "spawnForce": spawn_force, "final": final, "unused_actions": 0}
        if obs != expect:
            kinds = "+".join(sorted({h[0] for h in hist}))
            what = next((k for k in expect if obs.get(k) != expect[k]), "raised")
            ctx.violation(f"C33|conformance|{kinds}|{what}-differs",
                          f"behaviour {hist} from T0={spawn_t[0]}: model {expect}, implementation {obs}",
                          {"leg": "conformance", "hist": hist, "t0": spawn_t[0], "expect": expect},
                          rank=len(hist))
        ctx.sample({"behaviour": hist, "T0": spawn_t[0], "model": expect, "implementation": obs}, every=173)
    ctx.note("terminal_behaviours", len(terminal))
    ctx.note("distinct_model_outcomes", len(outcomes))
    ctx.require(len(outcomes) > 5, "vacuous: model outcomes do not vary")


# ------------------------------------------------------------------ real kills
SUT = '''
def classify(x: int) -> str:
    if x < 0:
        return "neg"
    if x > 10:
        return "big"
    return "small"
'''


def real_kill(phase, crashes, budget, cap_s):
    """Run the real CLI with the real worker killed `crashes` times at `phase`."""
    d = tempfile.mkdtemp(prefix="c33_", dir="/dev/shm")
    try:
        with open(os.path.join(d, "c33mod.py"), "w") as fh:
            fh.write(SUT)
        counter = os.path.join(d, "counter")
        with open(counter, "w") as fh:
            fh.write(str(crashes))
        out = os.path.join(d, "out")
        os.makedirs(out)
        env = dict(os.environ)
        env.update({"PYNGUIN_VERIF": "1", "PYNGUIN_VERIF_CRASH_AT": phase,
                    "PYNGUIN_VERIF_CRASH_COUNTER": counter, "PYNGUIN_DANGER_AWARE": "1"})
        repo = os.environ.get("VERIF_REPO", "/repo")
        env["PYTHONPATH"] = os.path.join(repo, "src")
        cmd = ["/venv/bin/python", "-m", "pynguin", "--project-path", d, "--module-name", "c33mod",
               "--output-path", out, "--seed", "1", "--assertion-generation", "SIMPLE",
               "--no-rich"] + budget
        t0 = time.monotonic()
        try:
            r = subprocess.run(cmd, cwd=d, env=env, capture_output=True, text=True, timeout=cap_s)
            rc, hung = r.returncode, False
            tail = (r.stdout + r.stderr)[-600:]
        except subprocess.TimeoutExpired as exc:
            rc, hung = None, True
            tail = ((exc.stdout or b"") + (exc.stderr or b""))[-600:]
            subprocess.run(["pkill", "-f", "c33mo[d]"], check=False)
        wall = time.monotonic() - t0
        with open(counter) as fh:
            left = int(fh.read().strip() or "0")
        tests = os.path.exists(os.path.join(out, "test_c33mod.py"))
        return {"rc": rc, "hung": hung, "wall": round(wall, 1), "crashes_left": left,
                "crashes_happened": crashes - left, "tests_written": tests, "tail": str(tail)}
    finally:
        shutil.rmtree(d, ignore_errors=True)


def shard_real(col, phase, crashes, budget_kind):
    # the search-time budget is generous (the iteration cap ends the search): a restarted worker must be
    # able to die again with search time left
    budget = {"time": ["--maximum-search-time", "30", "--maximum-iterations", "3"],
              "iterations": ["--maximum-iterations", "2"]}[budget_kind]
    cap = 240
    obs = real_kill(phase, crashes, budget, cap)
    col.count("fault_injection_runs")
    col.count("transitions")
    col.count("real_worker_crashes", obs["crashes_happened"])
    col.distinct("states", ("real", phase, crashes, budget_kind, obs["rc"], obs["tests_written"]))
    data = {"leg": "real", "phase": phase, "crashes": crashes, "budget": budget_kind}
    fp_base = f"C33|real|{phase}x{crashes}|{budget_kind}"
    if obs["crashes_happened"] >= 2:
        col.count("real_runs_with_two_crashes")      # counted before any verdict: a hang after the second crash
    if obs["hung"]:
        col.violation(f"{fp_base}|hang", f"CLI did not return within {cap}s: {obs['tail']}", data)
        return
    if obs["crashes_happened"] == 0 and crashes > 0:
        col.violation(f"{fp_base}|harness:crash-point-not-reached", f"{obs}", data)
        return
    col.distinct("real_crash_counts", (phase, budget_kind, obs["crashes_happened"]))
    if budget_kind == "iterations" and obs["crashes_happened"] > 1:
        col.violation(f"{fp_base}|restart-without-search-time",
                      f"worker was restarted although no search time is configured: {obs}", data)
    # success (rc 0) is only legitimate if a surviving worker delivered: then tests must exist
    if obs["rc"] == 0 and not obs["tests_written"]:
        col.violation(f"{fp_base}|success-without-result", f"{obs}", data)
    if budget_kind == "iterations" and crashes >= 1 and obs["rc"] == 0:
        col.violation(f"{fp_base}|success-after-unrestartable-crash", f"{obs}", data)
    col.sample({"real_kill": data, "observed": {k: obs[k] for k in ("rc", "wall", "crashes_happened",
                                                                      "tests_written")}})


def run(ctx):
    from mc import par

    tmax = 4 if ctx.quick else 6
    work = ctx.scratch("c33_tlc_")
    ok, out, (generated, distinct), dump = run_tlc(tmax, work)
    if not ok:
        inv = re.search(r"Invariant (\w+) is violated", out)
        ctx.violation(f"C33|model|{inv.group(1) if inv else 'tlc-error'}|invariant-violated",
                      out[-1500:], {"leg": "model", "tmax": tmax})
        ctx.count("transitions", 1)
        ctx.distinct("states", "tlc-failed")
        ctx.count("traces_validated_against_impl", 0)
        ctx.sample({"tlc": out[-500:]})
        return
    states = parse_dump(dump)
    ctx.require(len(states) == distinct, f"dump has {len(states)} states, TLC reported {distinct}")
    for i in range(distinct):
        ctx.distinct("states", ("model", i))
    ctx.count("transitions", generated)
    conformance(ctx, states)
    # real-process fault enumeration
    phases = ["after-import", "after-search", "assertion-generation", "before-export"]
    if ctx.quick:
        jobs = [("after-import", 1, "time"), ("after-import", 2, "time"), ("assertion-generation", 2, "time"),
                ("after-search", 1, "iterations")]
    else:
        jobs = [(p, c, b) for p in phases for c in (1, 2) for b in ("time", "iterations")]
    par.run_shards("props.c33_restart:shard_real", jobs, min(len(jobs), 6), ctx)
    # vacuity: a run in which a RESTARTED worker died as well must have happened
    ctx.require(ctx.col.counters.get("real_runs_with_two_crashes", 0) >= 1,
                "vacuous: no real run in which a restarted worker crashed again")
    ctx.note("tlc", {"Tmax": tmax, "states_generated": generated, "distinct_states": distinct})
    ctx.level_keys["checker_cmd"] = "tlc -workers 1 -dump states MCRestart"
    ctx.exhaustive = True
    ctx.rule = ("TLC explores all reachable states of models/Restart.tla for initial search times -1..Tmax, "
                "crash kinds {died, garbage} x elapsed {tiny, 1s, 2s, huge} and deliveries; every terminal "
                "state (= complete behaviour, the model has a history variable) is replayed on the real client")
    ctx.assume("a crashed worker consumes > 0 wall-clock seconds (with elapsed == 0.0 exactly, "
               "int(T - 0.0) == T and the restart loop would not be bounded)")
    ctx.assume("a worker that neither delivers nor dies (hangs forever) is outside the model: recv() blocks")


def replay(ctx, data):
    if data.get("leg") == "conformance":
        obs = replay_behaviour([tuple(h) for h in data["hist"]], data["t0"])
        print("implementation:", obs, "\nmodel:", data["expect"])
        if obs != data["expect"]:
            ctx.violation("C33|conformance|replay|differs", str(obs), data)
    elif data.get("leg") == "real":
        from mc.ctx import Collector
        col = Collector()
        shard_real(col, data["phase"], data["crashes"], data["budget"])
        ctx.merge(col)
