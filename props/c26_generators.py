"""C26 — generator selection offers only type-compatible generators.

Explicit-state search (E1) over real test clusters.  A *world* is a generated
class-hierarchy module (``mc.typeworld``) analysed twice by the real
``generate_test_cluster`` — once configured for ``GeneratorProvider`` (rank
selection) and once for ``RandomGeneratorProvider`` — so both providers are built
by Pynguin itself over the same data; every event is applied to both clusters.

State = (type graph + generator table + cache contents).  Events:

* ``gen t``    ``cluster.add_generator`` of a new ``GenericFunction`` returning ``t``;
* ``edge i j`` ``type_system.add_subclass_edge(super=Ci, sub=Cj)`` (acyclic, not yet present);
* ``ret a t``  ``cluster.update_return_type(accessible a, t)``;
* ``q t``      every query that involves ``t``: ``_get_generators_for(t)`` and
  ``select_generator_for(t)`` on both providers (the selection function is
  driven through *every* candidate index instead of sampling), the exact lookup
  ``cluster.get_generators_for(t)``, ``is_subtype / is_maybe_subtype /
  subtype_distance`` of ``t`` against every requested type in both directions,
  ``is_subclass / get_subclasses / get_superclasses`` and, for ``Any``,
  ``get_all_generatable_types``.

All histories of <= depth events are explored modulo two sound commutations:
consecutive queries commute and consecutive updates commute (no cache is read
between them), so only histories whose blocks are sorted are run; a trailing
query is covered by the read-back.  After every history every query that the
history issued (= every key that can be in a cache) is read back on the live
objects and compared with the answer of a FRESH ``TypeSystem`` + fresh provider
built from the final graph and table (stale-cache detection); for histories of
<= 1 event all queries are read back.  In every distinct (graph, table) state
reached, the oracle of the statement is evaluated for every requested type on
both providers: every offered generator's ``generated_type()`` may be a subtype
of the requested type, and both providers offer the same set.
"""

from __future__ import annotations

import builtins
import inspect

ID = "C26"
LEVEL = "model_checking"
PKG = "c26pk"
# second package name: unions are ordered by the string form of their members; with "c26pk" every user class
# sorts BEFORE list/dict/set/tuple, with "z26pk" after them (mode flag "z" in the plan's third column)
PKG_Z = "z26pk"


# ------------------------------------------------------------------ world
def _labels(n, reduced):
    last = f"C{n - 1}"
    nxt = "C1" if n > 1 else "C0"
    req = [f"C{i}" for i in range(n)]
    req += ["object", "int", "None", "Any", "list[C0]", f"list[{nxt}]", "list", f"dict[str,{nxt}]",
            "set[C0]", f"tuple[C0,{nxt}]", "U[C0|None]", f"U[C0|{last}]" if n > 1 else "U[C0]",
            # a union whose first member (by string order) is a parametrised container
            f"U[list[C0]|{nxt}]"]
    gen = [last, f"list[{last}]", "Any", "U[C0|None]", f"tuple[C0,{nxt}]", "set[C0]"]
    if reduced:
        req = [x for x in req if x not in ("object", "list", "set[C0]", f"dict[str,{nxt}]")]
        gen = gen[:4]
    return list(dict.fromkeys(req)), list(dict.fromkeys(gen))


class Sys:
    """One analysed cluster with its type system and provider."""

    def __init__(self, name, cluster):
        self.name = name
        self.cluster = cluster
        self.ts = cluster.type_system
        self.prov = cluster.generator_provider


class World:
    def __init__(self, root, spec, reduced=False):
        from mc import typeworld as tw
        from pynguin.utils.orderedset import OrderedSet
        import pynguin.analyses.generator as gen

        self.tw = tw
        self.OrderedSet = OrderedSet
        self.spec = tuple(tuple(b) for b in spec)
        self.n = len(self.spec)
        self.reduced = reduced
        self.mod = tw.write_module(root, PKG_Z if reduced == "z" else PKG, self.spec)
        self.systems = [Sys("rank", tw.analyse(self.mod, selection="RANK_SELECTION")),
                        Sys("rand", tw.analyse(self.mod, selection="RANDOM_SELECTION"))]
        assert type(self.systems[0].prov) is gen.GeneratorProvider
        assert type(self.systems[1].prov) is gen.RandomGeneratorProvider
        self.req, self.gen_labels = _labels(self.n, reduced is True)
        self.users = tw.user_infos(self.systems[0].cluster, self.mod, self.n)
        self.types: dict = {}
        self.kinds: dict = {}
        self.class_infos = [(f"C{i}", u) for i, u in enumerate(self.users)]
        for nm in ("object", "int", "bool", "float"):
            self.class_infos.append((nm, self.systems[0].ts.to_type_info(getattr(builtins, nm))))
        self.snap = [self._snapshot(s) for s in self.systems]
        self.events_q = [("q", lab) for lab in self.req]
        self.events_u = self._update_events()
        for lab in self.req + self.gen_labels + [e[2] for e in self.events_u if e[0] == "ret"]:
            self.type(lab)
        self.fresh_objs: dict = {}
        self.fresh_prov_memo: dict = {}
        self.canon_ids: dict = {}

    def type(self, label):
        # type objects are structural (TypeInfo equality is by full name): shared by all systems
        t = self.types.get(label)
        if t is None:
            t = self.types[label] = self.tw.type_from_label(self.systems[0].ts, self.users, label)
            self.kinds[label] = self.tw.kind(t)
        return t

    # -- alphabet ---------------------------------------------------------------
    def _update_events(self):
        tw = self.tw
        last = f"C{self.n - 1}"
        pre = f"{self.mod}.C0"
        evs = [("gen", lab) for lab in self.gen_labels]
        anc = tw.closure(self.spec)
        for i in range(self.n):
            for j in range(self.n):
                # Ci super of Cj: not already a direct base, and no cycle (Cj must not be an ancestor of Ci)
                if i != j and i not in self.spec[j] and j not in anc[i]:
                    evs.append(("edge", i, j))
        evs.append(("ret", pre, "C0"))                   # a constructor only ever returns its own class
        if self.n > 1:
            evs += [("ret", f"{pre}.c0_to_c1", "None"), ("ret", f"{pre}.c0_to_c1", last)]
        nxt = "C1" if self.n > 1 else "C0"
        evs += [("ret", f"{pre}.c0_list", "None"), ("ret", f"{pre}.c0_none", "int"),
                ("ret", f"{pre}.c0_tuple", f"tuple[C0,{nxt}]"), ("ret", f"{pre}.c0_union", "int")]
        if self.reduced is True:
            evs = [e for e in evs if e[1] not in (f"{pre}.c0_tuple", f"{pre}.c0_union")]
        return list(dict.fromkeys(evs))

    # -- snapshot / restore (the reset between histories) -----------------------------
    def _snapshot(self, s):
        calls = {str(acc): acc for acc in s.cluster.accessible_objects_under_test}
        return {"table": [(k, list(v)) for k, v in s.prov.get_all().items()],
                "rets": [(a, a.inferred_signature.return_type) for a in calls.values()
                         if hasattr(a, "inferred_signature")],
                "edges": set(s.ts._graph.edges), "calls": calls}

    def reset(self):
        self.tw.clear_caches()
        for s, snap in zip(self.systems, self.snap):
            table = s.prov.get_all()
            table.clear()
            for k, gens in snap["table"]:
                table[k] = self.OrderedSet(gens)
            for acc, rt in snap["rets"]:
                acc.inferred_signature.return_type = rt
            extra = [e for e in s.ts._graph.edges if e not in snap["edges"]]
            s.ts._graph.remove_edges_from(extra)

    # -- events -----------------------------------------------------------------
    def apply(self, hist, occ=None):
        """Apply the events to the live systems (``occ`` carries the synthetic-generator numbering)."""
        occ = {} if occ is None else occ
        for ev in hist:
            if ev[0] == "q":
                for s in self.systems:
                    self.query(s, s.ts, s.prov, ev[1], live=True)
            elif ev[0] == "gen":
                k = occ.get(ev[1], 0)
                occ[ev[1]] = k + 1
                for s in self.systems:
                    s.cluster.add_generator(self._synth(s, ev[1], k))
            elif ev[0] == "edge":
                for s in self.systems:
                    us = [s.ts.find_type_info(u.full_name) for u in self.users]
                    s.ts.add_subclass_edge(super_class=us[ev[1]], sub_class=us[ev[2]])
            elif ev[0] == "ret":
                for s, snap in zip(self.systems, self.snap):
                    s.cluster.update_return_type(snap["calls"][ev[1]], self.type(ev[2]))
            else:
                raise AssertionError(ev)
        return occ

    def _synth(self, s, label, k):
        import pynguin.analyses.typesystem as ts
        from pynguin.utils.generic.genericaccessibleobject import GenericFunction

        def fn():
            return None

        safe = label.replace("[", "_").replace("]", "").replace("|", "_or_").replace(",", "_")
        fn.__name__ = fn.__qualname__ = f"synth_{safe}_{k}"
        fn.__module__ = "c26synth"
        sig = ts.InferredSignature(signature=inspect.signature(fn), original_return_type=self.type(label),
                                   original_parameters={}, type_system=s.ts)
        return GenericFunction(fn, sig, set(), fn.__name__)

    # -- queries ----------------------------------------------------------------
    def query_provider(self, sysname, prov, label, exact_lookup):
        """Provider-side answers for requested type ``label`` (family -> answer) + the offers."""
        t = self.type(label)
        gens = prov._get_generators_for(t)
        out = {}
        if sysname == "rank":
            out["_get_generators_for"] = sorted((str(g.generator), g.get_fitness()) for g in gens)
        else:
            out["_get_generators_for"] = sorted(str(g.generator) for g in gens)
        offers = {str(g.generator): g.generator.generated_type() for g in gens}
        # the real select_generator_for, with the selection function driven through every index
        sel = prov._selection_function
        seen_pop, idx = [], [0]

        def get_index(population):
            seen_pop.append(list(population))
            return idx[0]

        sel.get_index = get_index          # instance attribute: the real select() calls it
        try:
            picks = [prov.select_generator_for(t)]
            pop = seen_pop[0] if seen_pop else []
            for i in range(1, len(pop)):
                idx[0] = i
                picks.append(prov.select_generator_for(t))
        finally:
            del sel.get_index
        names = [str(g.generator) for g in pop]
        consistent = (picks == [None] and not pop) or [str(p) for p in picks] == names
        out["select_generator_for"] = (sorted(names), consistent)
        exact = {str(g): g.generated_type() for g in exact_lookup(t)}
        return out, offers, exact

    def query_ts(self, tsys, label):
        t = self.type(label)
        out = {}
        a_sub, a_may, a_dist = {}, {}, {}
        for other in self.req:
            o = self.types[other]
            a_sub[other] = (tsys.is_subtype(t, o), tsys.is_subtype(o, t))
            a_may[other] = (tsys.is_maybe_subtype(t, o), tsys.is_maybe_subtype(o, t))
            a_dist[other] = (tsys.subtype_distance(t, o), tsys.subtype_distance(o, t))
        out["is_subtype"], out["is_maybe_subtype"], out["subtype_distance"] = a_sub, a_may, a_dist
        if self.kinds[label] in ("inst", "object", "prim"):
            info = tsys.find_type_info(t.type.full_name)
            out["is_subclass"] = {nm: (tsys.is_subclass(info, tsys.find_type_info(c.full_name)),
                                       tsys.is_subclass(tsys.find_type_info(c.full_name), info))
                                  for nm, c in self.class_infos}
            out["get_subclasses"] = sorted(x.full_name for x in tsys.get_subclasses(info)
                                           if "typesystem" not in x.full_name)
            out["get_superclasses"] = sorted(x.full_name for x in tsys.get_superclasses(info))
        return out

    def query(self, s, tsys, prov, label, live, provider_only=False):
        """Everything query event ``q label`` asks, on (tsys, prov).  Returns (answers, offers, exact)."""
        pname = type(prov).__name__
        pa, offers, exact = self.query_provider(
            s.name, prov, label, s.cluster.get_generators_for if live else prov.get_for_type)
        ans = {f"{pname}.{k}": v for k, v in pa.items()}
        if provider_only:
            return ans, offers, exact
        for k, v in self.query_ts(tsys, label).items():
            ans[f"TypeSystem.{k}"] = v
        if label == "Any":
            if live:
                gt = sorted(str(x) for x in s.cluster.get_all_generatable_types())
            else:
                g = prov.get_all_types()
                g.update(tsys.primitive_proper_types)
                g.update(tsys.collection_proper_types)
                gt = sorted(str(x) for x in g)
            ans["ModuleTestCluster.get_all_generatable_types"] = gt
        return ans, offers, exact

    # -- fresh reference --------------------------------------------------------
    def graph_canon(self, s, snap):
        added = sorted((a.full_name, b.full_name) for a, b in s.ts._graph.edges if (a, b) not in snap["edges"])
        # repr, not str: str() prints a one-member union like its member
        table = sorted((repr(k), tuple(sorted(str(g) for g in v))) for k, v in s.prov.get_all().items())
        return (tuple(added), tuple(table))

    def canon_id(self, canon) -> int:
        return self.canon_ids.setdefault(canon, len(self.canon_ids))

    def fresh_system(self, s, canon):
        """A fresh TypeSystem + provider of the same class, built from the final graph and table of ``s``."""
        key = (s.name, self.canon_id(canon))
        got = self.fresh_objs.get(key)
        if got is None:
            import pynguin.analyses.typesystem as ts
            if len(self.fresh_objs) > 64:
                self.fresh_objs.clear()
            f = ts.TypeSystem()
            for info in s.ts.get_all_types():
                f.to_type_info(info.raw_type)
            for a, b in s.ts._graph.edges:
                if s.ts.find_type_info(a.full_name) is not None and s.ts.find_type_info(b.full_name) is not None:
                    f.add_subclass_edge(super_class=f.to_type_info(a.raw_type), sub_class=f.to_type_info(b.raw_type))
            prov = type(s.prov)(f, type(s.prov._selection_function)())
            for k, gens in s.prov.get_all().items():
                for g in gens:
                    prov.add_for_type(k, g)
            got = self.fresh_objs[key] = (f, prov)
        return got

    def fresh_answer(self, s, canon, label, provider_only=False):
        key = (s.name, self.canon_id(canon), label, provider_only)
        got = self.fresh_prov_memo.get(key)
        if got is None:
            f, prov = self.fresh_system(s, canon)
            got = self.fresh_prov_memo[key] = self.query(s, f, prov, label, live=False,
                                                         provider_only=provider_only)
        return got


# ------------------------------------------------------------------ exploration
def block_ok(hist, ev, order):
    """Normal form: inside a block of queries strictly increasing, inside a block of updates non-decreasing."""
    if not hist:
        return True
    last = hist[-1]
    if (last[0] == "q") != (ev[0] == "q"):
        return True
    if ev[0] == "q":
        return order[last] < order[ev]
    return order[last] <= order[ev]


def after_kinds(hist, family="", label=None):
    """Kind of update that follows the first query, for the fingerprint of a stale answer.

    When several kinds follow, the one that can make this family stale is named: the type system's
    caches only depend on edges; provider / cluster caches are named after ``gen`` first, then ``edge``,
    and ``ret`` only if nothing else happened (``update_return_type`` is the one update that clears them).
    """
    # only what happened after the LAST query of that type can make its cached answer stale (the query
    # itself re-filled the cache); without a label: after the first query of the history
    qs = [i for i, e in enumerate(hist) if e[0] == "q" and (label is None or e[1] == label)]
    first_q = (qs[-1] if label is not None else qs[0]) if qs else None
    kinds = set() if first_q is None else {e[0] for e in hist[first_q:] if e[0] != "q"}
    for k in (("edge", "gen", "ret") if family.startswith("TypeSystem.") else ("gen", "edge", "ret")):
        if k in kinds:
            return k
    return "none"


def _short(x, n=150):
    r = repr(x)
    return r if len(r) <= n else r[:n] + "..."


def check_history(col, W, hist, observe=None):
    """Run one history on the reset live systems; read back; judge.  ``observe``: dict filled for self-checks."""
    tw = W.tw
    W.reset()
    occ = W.apply(hist[:-1])
    if hist:
        before = W.graph_canon(W.systems[0], W.snap[0])
        W.apply(hist[-1:], occ)
        col.count("updates")
        if W.graph_canon(W.systems[0], W.snap[0]) != before:
            col.count("updates_with_effect")
            col.distinct("ops_with_effect", hist[-1][0])
    col.count("transitions", len(hist))
    col.count("traces_validated_against_impl")
    name = tw.spec_name(W.spec)
    data = {"spec": [list(b) for b in W.spec], "history": [list(e) for e in hist], "reduced": W.reduced}
    rank = len(hist)
    queried = {e[1] for e in hist if e[0] == "q"}
    labels = W.req if len(hist) <= 1 else [lab for lab in W.req if lab in queried]
    canons = []
    # all live read-backs first: building a fresh reference system calls add_subclass_edge / add_for_type,
    # which clear the CLASS-level functools caches and thereby the live systems' caches too
    lives = {(s.name, lab): W.query(s, s.ts, s.prov, lab, live=True)[0] for s in W.systems for lab in labels}
    for s, snap in zip(W.systems, W.snap):
        canon = W.graph_canon(s, snap)
        canons.append(canon)
        for lab in labels:
            live = lives[(s.name, lab)]
            fresh, _, _ = W.fresh_answer(s, canon, lab)
            col.count("transitions")
            col.count("cached_answers_compared", len(live))
            if observe is not None:
                observe[(s.name, lab)] = live
            for fam, val in live.items():
                if val != fresh[fam]:
                    col.violation(f"C26|stale|{fam}|after={after_kinds(hist, fam, lab)}",
                                  f"{name} history {hist}: cached {fam}({lab}) = {_short(val)} but a fresh "
                                  f"system built from the final graph gives {_short(fresh[fam])}", data, rank=rank)
                    col.distinct("outcomes", ("stale", fam))
                else:
                    col.distinct("outcomes", ("agree", fam))
    if canons[0] != canons[1]:
        raise AssertionError("the two clusters went through different graph states")
    canon = canons[0]
    if queried:
        return
    # ---- the oracle of the statement, in every distinct (graph, table) state.  Queries do not change
    # that state and the normal form sorts update blocks, so each state is reached by exactly one
    # query-free history: judge there (on the answers of the fresh system; cached answers that differ
    # from them are reported as stale above).
    col.distinct("graph_states", (W.spec, W.reduced, canon))
    ref = W.fresh_system(W.systems[0], canon)[0]
    offers = {}
    for s in W.systems:
        for lab in W.req:
            ans, off, exact = W.fresh_answer(s, canon, lab, provider_only=True)
            offers[(s.name, lab)] = off
            col.count("transitions")
            sel_names, consistent = ans[f"{type(s.prov).__name__}.select_generator_for"]
            if not consistent or sel_names != sorted(off):
                col.violation(f"C26|select-differs-from-candidates|{s.name}|req={W.kinds[lab]}",
                              f"{name} history {hist}: select_generator_for({lab}) chose among {sel_names}, "
                              f"candidates are {sorted(off)}", data, rank=rank)
            for who, table in ((s.name, off), (f"{s.name}-exact-lookup", exact)):
                for gname, gt in table.items():
                    col.count("offers_judged")
                    if not ref.is_maybe_subtype(gt, W.types[lab]):
                        cause = f"|{_args_cause(ref, gt, W.types[lab])}" if W.kinds[lab] == "union" else ""
                        col.violation(f"C26|incompatible|{who}|req={W.kinds[lab]}|gen={tw.kind(gt)}{cause}",
                                      f"{name} history {hist}: {who} offers {gname} (generates {gt}) for requested "
                                      f"{lab}, but is_maybe_subtype({gt}, {lab}) is False", data, rank=rank)
                        col.distinct("outcomes", ("incompatible", who))
    for lab in W.req:
        a, b = offers[("rank", lab)], offers[("rand", lab)]
        col.distinct("outcomes", ("offer", len(a) > 0, len(b) > 0))
        if set(a) == set(b):
            col.count("provider_sets_equal")
            continue
        col.count("provider_sets_differ")
        for only, mine, other in (("rank", a, b), ("rand", b, a)):
            for gname in sorted(set(mine) - set(other)):
                cause = f"|{_args_cause(ref, mine[gname], W.types[lab])}" if W.kinds[lab] == "union" else ""
                col.violation(f"C26|provider-diff|only={only}|req={W.kinds[lab]}|gen={tw.kind(mine[gname])}{cause}",
                              f"{name} history {hist}: for requested {lab} only the "
                              f"{'GeneratorProvider' if only == 'rank' else 'RandomGeneratorProvider'} offers "
                              f"{gname} (generates {mine[gname]})", data, rank=rank)


def _args_cause(ref, gt, requested):
    """For a union request: is the (wrongly) offered generator explained by treating a generic container as
    covariant in its arguments (the known generic-invariance finding), or are the arguments unrelated?"""
    import pynguin.analyses.typesystem as ts

    def members(t):
        return list(t.items) if isinstance(t, ts.UnionType) else [t]

    for g in members(gt):
        if not (isinstance(g, ts.Instance) and g.args):
            continue
        for r in members(requested):
            if isinstance(r, ts.Instance) and r.args and r.type == g.type and len(r.args) == len(g.args):
                if all(ref.is_maybe_subtype(ga, ra) for ga, ra in zip(g.args, r.args)):
                    return "covariant-args"
                return "unrelated-args"
    return "other"


def explore(col, W, depth, root, selfcheck_root=None):
    """All normal-form histories of <= depth events below ``root`` (a history) that end in an update."""
    from mc.ctx import h64

    events = W.events_q + W.events_u
    order = {e: i for i, e in enumerate(events)}
    stack = [list(root)]
    while stack:
        hist = stack.pop()
        col.distinct("states", (W.spec, W.reduced, tuple(hist)))
        if not hist or hist[-1][0] != "q":
            if selfcheck_root is not None and h64(("sc", W.spec, hist)) % 211 == 0:
                selfcheck(col, W, hist, selfcheck_root)
            else:
                check_history(col, W, hist)
        if len(hist) >= depth:
            continue
        for ev in reversed(events):
            if not block_ok(hist, ev, order):
                continue
            if ev[0] == "q" and len(hist) + 1 >= depth:
                continue     # a trailing query is covered by the read-back in the parent state
            stack.append(hist + [ev])


def selfcheck(col, W, hist, root):
    """Harness self-check: the reset live systems must behave like brand-new clusters."""
    obs: dict = {}
    check_history(col, W, hist, observe=obs)
    W2 = World(root, W.spec, reduced=W.reduced)
    W2.apply(hist)
    for s2 in W2.systems:
        for (sname, lab), live in obs.items():
            if sname == s2.name:
                again, _, _ = W2.query(s2, s2.ts, s2.prov, lab, live=True)
                if again != live:
                    raise AssertionError(f"reset is not faithful: {sname} {lab} differs on brand-new clusters "
                                         f"after {hist}")
    col.count("selfchecks_against_new_clusters")


# ------------------------------------------------------------------ sharding / entry points
def plan(tier):
    from mc import typeworld as tw

    specs, _ = tw.hierarchies(3)
    un = tw.unordered(specs)
    if tier == "quick":
        # every hierarchy on <= 2 classes; on 3 classes: unrelated, chain, fork, join (multiple inheritance), C2 under C1 with C0 unrelated
        pick3 = [((), (), ()), ((), (0,), (1,)), ((), (0,), (0,)), ((), (), (0, 1)), ((), (), (1,))]
        for s in pick3:
            assert s in un, s
        return [(s, 3, False) for s in un if len(s) <= 2] + [(s, 3, False) for s in pick3] + \
            [(s, 2, "z") for s in pick3]
    specs4, _ = tw.hierarchies(4, 4)
    un4 = tw.unordered(specs4)
    deep = [s for s in un if len(s) <= 2] + [((), (0,), (0,)), ((), (0,), (1, 0)), ((), (), (1, 0))]
    return [(s, 4, True) for s in deep] + [(s, 3, False) for s in un] + [(s, 2, False) for s in un4] + \
        [(s, 3, "z") for s in un if len(s) == 3]


def multi_shard(col, jobs, want_sample):
    from mc import typeworld as tw

    # jobs of one world are run back to back and only that world (with its memo of fresh answers) is kept
    jobs = sorted(jobs, key=lambda j: (len(j[1]), repr(j[1]), repr(j[4])))
    cur_key, W = None, None
    for root, spec, depth, first, reduced in jobs:
        key = (tuple(map(tuple, spec)), reduced)
        if key != cur_key:
            cur_key, W = key, World(root, spec, reduced=reduced)
        first = [tuple(e) for e in first]
        if not first:
            col.distinct("states", (W.spec, W.reduced, ()))
            check_history(col, W, [])
        else:
            explore(col, W, depth, first, selfcheck_root=root)
        if want_sample and first:
            col.sample({"hierarchy": tw.spec_name(W.spec), "depth": depth, "first_event": list(first[0]),
                        "requested_types": W.req, "update_events": [list(e) for e in W.events_u]}, every=7)
        col.note("update_events_max", len(W.events_u))
        col.note("query_events_max", len(W.events_q))


def run(ctx):
    from mc import typeworld as tw
    from mc.par import run_shards

    root = ctx.scratch("c26_")
    jobs = []
    the_plan = plan(ctx.tier)
    for spec, depth, reduced in the_plan:
        W = World(root, spec, reduced=reduced)
        jobs.append((root, spec, depth, [], reduced))        # the empty history alone
        for ev in W.events_q + W.events_u:
            if ev[0] == "q" and depth < 2:
                continue
            jobs.append((root, spec, depth, [ev], reduced))
    rot = ctx.seed % len(jobs)                                # VERIF_SEED only permutes the work list
    jobs = jobs[rot:] + jobs[:rot]
    nsh = ctx.workers * (3 if ctx.quick else 6)
    groups = [jobs[i::nsh] for i in range(nsh)]
    run_shards("props.c26_generators:multi_shard", [(g, i < 6) for i, g in enumerate(groups) if g],
               ctx.workers, ctx)
    c = ctx.col.counters
    ctx.require(len(ctx.col.sets.get("ops_with_effect", ())) == 3, "vacuous: some update kind never had an effect")
    ctx.require(len(ctx.col.sets.get("outcomes", ())) >= 6, "vacuous: too few distinct outcomes")
    ctx.require(c.get("provider_sets_equal", 0) > 0 and c.get("offers_judged", 0) > 0, "vacuous: nothing offered")
    ctx.require(c.get("selfchecks_against_new_clusters", 0) > 0, "reset was never cross-checked")
    ctx.note("plan", [f"{tw.spec_name(s)} depth={d} alphabet={'reduced' if r is True else 'full'}{' pkg=z26pk' if r == 'z' else ''}" for s, d, r in the_plan])
    ctx.exhaustive = True
    ctx.rule = ("state = canonical history (blocks of commuting queries / updates sorted); every history of <= depth "
                "events ending in an update is replayed on reset real clusters and its queries are read back")
    ctx.assume("consecutive queries commute and consecutive updates commute (nothing reads a cache in between); "
               "a trailing query is covered by the read-back of its parent state")
    ctx.assume("only keys the history queried can sit in a cache; the others are recomputed on demand and are read "
               "back in full only for histories of <= 1 event")
    ctx.assume("reset between histories = restore generator table, return types and added edges and clear every "
               "functools cache; cross-checked against brand-new clusters on a deterministic 1/211 subset")
    ctx.assume("table order of generators is not part of the state (answers are compared as sets)")


def replay(ctx, data):
    root = ctx.scratch("c26_")
    W = World(root, data["spec"], reduced=data.get("reduced", False))
    hist = [tuple(e) for e in data["history"]]
    check_history(ctx.col, W, hist)
