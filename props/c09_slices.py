"""C09 — dynamic slices are sound and checked lines were executed.

Exhaustive enumeration (E3) of a small language fragment ``L``: a module with
one global ``G``, one class ``Box`` with a class attribute ``val`` and two
functions ``f(a)`` and ``g(v)``.  A function body is a sequence of at most N
statements from a menu (locals, the global, an attribute of a fresh object, a
list and a dict subscript, ``if/else``, ``if`` without else, a call of ``g``
from ``f``) optionally followed by ``return x|y|z``; only bodies that never
read an unbound name are generated.  Three families are enumerated completely
(``BOUNDS``): A = every ``f`` with N <= 3 (quick) / 4 (thorough) and a fixed
``g``; B = every ``g`` with the same N and the identity ``f``; C = every pair
with (N_f, N_g) = (2, 1) (quick) / (3, 1) and (2, 2) (thorough); D = control-flow
shapes across the two code objects; E = every ``f`` (N <= 3) that calls ``g`` x
every ``g`` (N <= 2 / 3) that stores the global.  Every program
is loaded through pynguin's real import hook with CHECKED+LINE instrumentation
and the test case

    int_0 = <a>;  var_0 = m.f(int_0);  var_1 = m.g(var_0)        a in {0, 1, 2}

is executed by the real ``TestCaseExecutor`` twice: once with the real
``RemoteStatementSlicingObserver`` (-> ``trace.checked_lines``) and once with
the real ``RemoteAssertionExecutionObserver`` and an ``ObjectAssertion`` on the
last bound variable, followed by ``compute_assertion_checked_coverage``.  The
slices the implementation computes on the way are captured (a recording
wrapper around ``DynamicSlicer.slice`` that returns the original result).

Oracles (from the property text; soundness only, precision is never demanded):

(a) every checked line was executed: ground truth is ``sys.settrace`` on the
    *uninstrumented* source (lines executed while importing the module count
    as executed, because pynguin merges the import trace into every trace);
(b) every instruction of a slice is an executed one: traced kinds must match an
    entry of ``trace.executed_instructions``, reconstructed (untraced) SUT
    instructions must lie on an executed line;
(c) every line the sliced value depends on is in the slice: the demanded lines
    come from ``mc.depinterp`` (an independent AST interpreter that builds the
    dynamic dependence graph of the same execution); it is validated for every
    execution (values / exception types and executed lines must equal the real
    uninstrumented run, else harness error).
"""

from __future__ import annotations

import os
import random
import shutil
import sys
import tempfile
import traceback

ID = "C09"
LEVEL = "exploration"

INPUTS = (0, 1, 2)
AST_FILE = "<ast>"

# ------------------------------------------------------------------ the fragment
# name -> (lines(p), uses, defs); p is the parameter name of the function
ITEMS = {
    "xa": (lambda p: [f"x = {p}"], {"P"}, {"x"}),
    "yx1": (lambda p: ["y = x + 1"], {"x"}, {"y"}),
    "xy2": (lambda p: ["x = y * 2"], {"y"}, {"x"}),
    "Gx": (lambda p: ["G = x"], {"x"}, set()),
    "yG": (lambda p: ["y = G"], set(), {"y"}),
    "box": (lambda p: ["b = Box()", "b.val = x"], {"x"}, {"b"}),
    "ybv": (lambda p: ["y = b.val"], {"b"}, {"y"}),
    "lst": (lambda p: ["l = [x, y]"], {"x", "y"}, {"l"}),
    "zl0": (lambda p: ["z = l[0]"], {"l"}, {"z"}),
    "dct": (lambda p: ['d = {"k": x}'], {"x"}, {"d"}),
    "zdk": (lambda p: ['z = d["k"]'], {"d"}, {"z"}),
    # container STORES (create, overwrite one element, read it back)
    "lsetz": (lambda p: ["l = [x, x]", "l[0] = y", "z = l[0]"], {"x", "y"}, {"l", "z"}),
    "dsetz": (lambda p: ['d = {"k": x}', 'd["k"] = y', 'z = d["k"]'], {"x", "y"}, {"d", "z"}),
    "ife": (lambda p: ["if x > 1:", "    y = 0", "else:", "    y = 5"], {"x"}, {"y"}),
    "ifa": (lambda p: [f"if {p}:", "    x = 1"], {"P"}, set()),
    "new": (lambda p: ["b = Box()"], set(), {"b"}),
    "call": (lambda p: ["z = g(x)"], {"x"}, {"z"}),
}
RETURNS = ("x", "y", "z")
# tier -> (N for the single-function families A and B, [(N_f, N_g) for the cross family C])
BOUNDS = {"quick": (3, [(2, 1)]), "thorough": (4, [(3, 1), (2, 2)])}
G_DEFAULT = (("yv1",), "y")          # y = v + 1; return y
F_IDENTITY = (("xa",), "x")          # x = a; return x


def bodies(n: int, call: bool) -> list[tuple[tuple[str, ...], str | None]]:
    """All def-before-use-correct bodies with <= n menu statements (+ optional return)."""
    out = []

    def rec(seq, defined):
        if seq:
            out.append((tuple(seq), None))
        for r in RETURNS:
            if r in defined:
                out.append((tuple(seq), r))
        if len(seq) == n:
            return
        for k, (_, uses, defs) in ITEMS.items():
            if k == "call" and not call:
                continue
            if uses <= defined:
                rec([*seq, k], defined | defs)

    rec([], {"P"})
    return out


def render_body(body, p: str) -> list[str]:
    seq, ret = body
    lines = ["global G"]
    for k in seq:
        if k == "yv1":
            lines.append(f"y = {p} + 1")
        else:
            lines.extend(ITEMS[k][0](p))
    if ret is not None:
        lines.append(f"return {ret}")
    return lines


def render(fbody, gbody) -> str:
    src = ["G = 0", "class Box:", "    val = 0", "def g(v):"]
    src += ["    " + ln for ln in render_body(gbody, "v")]
    src.append("def f(a):")
    src += ["    " + ln for ln in render_body(fbody, "a")]
    return "\n".join(src) + "\n"


# Family D: control-flow SHAPES across the two code objects. Both functions get every shape of the
# menu below (so that blocks with the same index in f and g are entered differently: fall-through in
# one, jump target in the other), g is called after and before f's own control structure.
def _shape(k: int, p: str, r: str) -> list[str]:
    return [
        [f"{r} = {p}"],
        [f"{r} = {p}", f"if {p} > 0:", f"    {r} = {p} * 2"],
        [f"if {p} > 1:", f"    {r} = 0", "else:", f"    {r} = 5"],
        [f"{r} = {p}", f"if {p} > 0:", f"    if {p} > 1:", f"        {r} = {p} * 2"],
        [f"if {p} > 0:", f"    if {p} > 1:", f"        {r} = 1", "    else:", f"        {r} = 2", "else:",
         f"    {r} = 3"],
        [f"{r} = {p}", f"if {p} > 0:", f"    {r} = {r} + 1", f"if {p} > 1:", f"    {r} = {r} * 2"],
        [f"k = 7", f"if k > 5:", f"    {r} = {p} + 1", "else:", f"    {r} = {p} + k"],
    ][k]


N_SHAPES = 7


def shape_programs() -> list[str]:
    out = []
    for kg in range(N_SHAPES):
        gsrc = ["def g(v):", "    global G"] + ["    " + ln for ln in _shape(kg, "v", "y")] + ["    return y"]
        for kf in range(N_SHAPES):
            after = ["    x = a"] + ["    " + ln for ln in _shape(kf, "x", "y")] + ["    z = g(y)", "    return z"]
            before = ["    x = a", "    y = g(x)"] + ["    " + ln for ln in _shape(kf, "y", "z")] + ["    return z"]
            for body in (after, before):
                out.append("\n".join(["G = 0", "class Box:", "    val = 0", *gsrc, "def f(a):", "    global G",
                                      *body]) + "\n")
    return out


def programs(tier: str) -> list[tuple[str, str]]:
    """(family, source) for the whole stated space, duplicates removed, fixed order."""
    n_single, cross = BOUNDS[tier]
    seen, out = set(), []

    def add(fam, fb, gb):
        s = render(fb, gb)
        if s not in seen:
            seen.add(s)
            out.append((fam, s))

    for fb in bodies(n_single, call=True):
        add("A", fb, G_DEFAULT)
    for gb in bodies(n_single, call=False):
        add("B", F_IDENTITY, gb)
    for nf, ng in cross:
        gsmall = bodies(ng, call=False)
        for fb in bodies(nf, call=True):
            for gb in gsmall:
                add("C", fb, gb)
    # Family E: state written by g flows into f's value ACROSS a nested call, and the test then calls g
    # again (mutate -> read -> mutate): every f that calls g x every g that stores the global
    ne_f, ne_g = (3, 2) if tier == "quick" else (3, 3)
    g_store = [gb for gb in bodies(ne_g, call=False) if "Gx" in gb[0]]
    for fb in bodies(ne_f, call=True):
        if "call" in fb[0]:
            for gb in g_store:
                add("E", fb, gb)
    for src in shape_programs():
        if src not in seen:
            seen.add(src)
            out.append(("D", src))
    return out


def line_construct(text: str) -> str:
    """Coarse class of a source line (used to label oracle (a)/(b) findings)."""
    t = text.strip()
    if text.startswith("        "):
        return "control"
    if t.startswith(("if ", "else")):
        return "control"
    if t.startswith("return"):
        return "call-return"
    if "g(x)" in t or "g(y)" in t:
        return "call-arg"
    if "Box" in t or ".val" in t or t.startswith("val"):
        return "attribute"
    if "[" in t or "{" in t:
        return "subscript"
    if "G" in t.replace("global G", ""):
        return "global"
    if t.startswith(("def ", "class ", "global ")):
        return "definition"
    return "local"


# ------------------------------------------------------------------ ground truth
class GroundTruth:
    """Plain CPython execution of the uninstrumented source under sys.settrace."""

    def __init__(self, source: str, filename: str):
        self.filename = filename
        self.code = compile(source, filename, "exec")
        self.ns: dict = {"__name__": "c09_plain"}
        self.import_lines = self._traced(lambda: exec(self.code, self.ns))[1]  # noqa: S102

    def _traced(self, fn):
        lines: set[int] = set()
        fname = self.filename

        def tracer(frame, event, arg):
            if frame.f_code.co_filename != fname:
                return None
            if event == "line":
                lines.add(frame.f_lineno)
            return tracer

        old = sys.gettrace()
        sys.settrace(tracer)
        try:
            try:
                res = ("ok", fn())
            except Exception as exc:  # noqa: BLE001
                res = ("raises", type(exc).__name__)
        finally:
            sys.settrace(old)
        return res, lines

    def run(self, a):
        self.ns["G"] = 0
        out, lines = [], set()
        cur = a
        for fname in ("f", "g"):
            res, ls = self._traced(lambda fname=fname, cur=cur: self.ns[fname](cur))
            lines |= ls
            out.append(res)
            if res[0] != "ok":
                break
            cur = res[1]
        return out, lines


# ------------------------------------------------------------------ pynguin side
_CAPTURE: list | None = None
_PATCHED = False


def _patch_slicer():
    """Record every slice the implementation computes (the result is passed through)."""
    global _PATCHED
    if _PATCHED:
        return
    from pynguin.slicer.dynamicslicer import DynamicSlicer

    orig = DynamicSlicer.slice

    def recording_slice(self, trace, slicing_criterion):
        res = orig(self, trace, slicing_criterion)
        if _CAPTURE is not None:
            _CAPTURE.append((slicing_criterion.trace_position, list(res)))
        return res

    DynamicSlicer.slice = recording_slice
    _PATCHED = True


def _make_observer():
    from pynguin.slicer.statementslicingobserver import RemoteStatementSlicingObserver

    class RecordingStatementSlicingObserver(RemoteStatementSlicingObserver):
        """The real observer; additionally copies what it saw into the result."""

        def after_statement_execution(self, statement, executor, namespace, exception):
            pos = self._slicing_local_state.position
            super().after_statement_execution(statement, executor, namespace, exception)
            vals = self._slicing_local_state.__dict__.setdefault("c09_values", {})
            if exception is None and statement.bound_variable in namespace:
                vals[pos] = namespace[statement.bound_variable]

        def after_test_case_execution(self, executor, test_case, result):
            result.c09_criteria = dict(self._slicing_local_state.slicing_criteria)
            result.c09_values = dict(self._slicing_local_state.__dict__.get("c09_values", {}))
            result.c09_error = None
            try:
                super().after_test_case_execution(executor, test_case, result)
            except BaseException as exc:  # noqa: BLE001
                result.c09_error = _exc_sig(exc)
                OUTBOX.append(result)
                raise

    return RecordingStatementSlicingObserver()


OUTBOX: list = []
THREAD_ERRORS: list = []


def _thread_excepthook(args):
    """An exception that killed the executor's worker thread (pynguin then reports a timeout)."""
    THREAD_ERRORS.append(_exc_sig(args.exc_value))


def _exc_sig(exc: BaseException) -> str:
    where = "?"
    for fs in reversed(traceback.extract_tb(exc.__traceback__)):
        if "/pynguin/" in fs.filename:
            where = fs.name
            break
    return f"raises:{type(exc).__name__}@{where}"


class Runner:
    """One program: load it for real, execute, compare with the oracles."""

    def __init__(self, col, source: str, scratch: str, family: str = "-"):
        self.col, self.source, self.scratch, self.family = col, source, scratch, family
        self.src_lines = source.splitlines()

    # -- recording helpers
    def violation(self, mode, construct, sig, what, a):
        self.col.violation(f"C09|{mode}|{construct}|{sig}", what + "\n" + self.source,
                           {"source": self.source, "a": a, "mode": mode},
                           rank=len(self.src_lines) * 4 + a)

    def construct_of(self, line):
        if line is None or not (1 <= line <= len(self.src_lines)):
            return "test"
        return line_construct(self.src_lines[line - 1])

    # -- main
    def run(self, inputs=INPUTS):
        from mc import pyn
        from mc.depinterp import Interp, Raised
        import pynguin.configuration as config

        import threading

        _patch_slicer()
        threading.excepthook = _thread_excepthook
        col = self.col
        config.configuration.statistics_output.coverage_metrics = [
            config.CoverageMetric.CHECKED, config.CoverageMetric.LINE]
        with pyn.Sut(self.source, self.scratch, coverage=("CHECKED", "LINE")) as sut:
            gt = GroundTruth(sut.source, sut.path)
            self.sut = sut
            self.alias = sut.name + "_"
            self.line_of = {lid: m.line_number for lid, m in sut.props.existing_lines.items()}
            for a in inputs:
                interp = Interp(sut.source)
                try:
                    model = interp.run_test(a)
                except Raised as r:  # pragma: no cover - run_test catches
                    raise AssertionError(f"interpreter leaked {r}") from None
                real, test_lines = gt.run(a)
                # ---- validate the interpreter against plain CPython (harness error otherwise)
                if [m[:2] for m in model] != [tuple(r) for r in real]:
                    raise AssertionError(f"depinterp values {model} != CPython {real} for a={a}\n"
                                         + self.source)
                if interp.import_lines != gt.import_lines or interp.test_lines != test_lines:
                    raise AssertionError(
                        f"depinterp lines {sorted(interp.import_lines)}/{sorted(interp.test_lines)} "
                        f"!= settrace {sorted(gt.import_lines)}/{sorted(test_lines)} for a={a}\n"
                        + self.source)
                col.count("interpreter_runs_validated")
                for name in interp.fired:
                    col.distinct("fired", name)
                executed = gt.import_lines | test_lines
                col.distinct("states", (self.source, a))
                self.statement_mode(a, model, executed)
                self.assertion_mode(a, model, executed)

    def test_case(self, a):
        from mc import pyn
        self.sut.module.G = 0            # same initial state for every execution of the program
        return pyn.test_case(f"int_0 = {a}", f"var_0 = {self.alias}.f(int_0)",
                             f"var_1 = {self.alias}.g(var_0)")

    def executor(self, observer):
        # generous time limits: a loaded machine must not turn into "timeout" verdicts
        ex = self.sut.executor(maximum_test_execution_timeout=120,
                               test_execution_time_per_statement=40)
        ex.set_instrument(True)
        ex.add_remote_observer(observer)
        return ex

    # -- shared oracle pieces
    def check_slice(self, mode, a, trace, instrs, executed, root, what):
        """Oracles (b) and (c) for one slice; returns the slice's SUT line set."""
        from mc.depinterp import demanded, missing_frontier
        col = self.col
        col.count("evaluations")
        keys = getattr(trace, "c09_keys", None)
        if keys is None:
            keys = {(e.code_object_id, e.node_id, e.instr_original_index, e.opcode)
                    for e in trace.executed_instructions}
            trace.c09_keys = keys
        lines = set()
        for u in instrs:
            sut_instr = u.file != AST_FILE
            if sut_instr and isinstance(u.lineno, int):
                lines.add(u.lineno)
            col.count("slice_instructions_checked")
            if u.is_traced:
                if (u.code_object_id, u.node_id, u.instr_original_index, u.opcode) not in keys:
                    self.violation(mode, self.construct_of(u.lineno if sut_instr else None),
                                   "slice-instruction-not-executed",
                                   f"{what}, a={a}: slice contains traced-kind instruction {u} "
                                   f"(code object {u.code_object_id}, node {u.node_id}, index "
                                   f"{u.instr_original_index}) that is not in executed_instructions", a)
            elif sut_instr and u.lineno not in executed:
                self.violation(mode, self.construct_of(u.lineno), "slice-instruction-not-executed",
                               f"{what}, a={a}: slice contains {u} on line {u.lineno}, which was "
                               f"not executed (executed: {sorted(executed)})", a)
        if root is not None:
            dem = demanded(root)
            for kinds in dem.values():
                for k in kinds:
                    col.distinct("constructs_demanded", k)
            col.count("demanded_lines", len(dem))
            if len(dem) >= 2:
                col.distinct("nontrivial", (self.source, a, what))
            col.distinct("demand_shapes", tuple(sorted(dem)))
            for kind, line, user in missing_frontier(root, lines):
                self.violation(mode, kind, "dependence-line-missing",
                               f"{what}, a={a}: the value depends on line {line} "
                               f"({self.src_lines[line - 1].strip()!r}) through a {kind} dependence of "
                               f"{'the test statement' if user is None else f'line {user}'}, but the "
                               f"slice covers only lines {sorted(lines)}; all demanded lines: "
                               f"{sorted(dem)}", a)
        return lines

    def check_executed(self, mode, a, lines, executed, what):
        for ln in sorted(lines):
            if ln not in executed:
                self.violation(mode, self.construct_of(ln), "checked-line-not-executed",
                               f"{what}, a={a}: line {ln} ({self.src_lines[ln - 1].strip()!r}) is "
                               f"reported as checked but was not executed "
                               f"(executed: {sorted(executed)})", a)

    # -- statement slicing observer
    def statement_mode(self, a, model, executed):
        global _CAPTURE
        from mc.depinterp import demanded
        col = self.col
        ex = self.executor(_make_observer())
        _CAPTURE = []
        OUTBOX.clear()
        THREAD_ERRORS.clear()
        try:
            result = ex.execute(self.test_case(a))
        finally:
            captured, _CAPTURE = _CAPTURE, None
        col.count("executions")
        col.count("traces_validated_against_impl")
        if result.timeout:
            sig = OUTBOX[0].c09_error if OUTBOX else (THREAD_ERRORS or ["raises:no-result"])[0]
            self.violation("statement", "-", sig,
                           f"statement slicing, a={a}: the execution produced no result ({sig})", a)
            return
        # outcome of the instrumented execution == plain CPython
        n_ok = sum(1 for m in model if m[0] == "ok")
        got = [("ok", result.c09_values.get(i + 1)) for i in range(n_ok)]
        got += [("raises", type(e).__name__) for _, e in sorted(result.exceptions.items())]
        if got != [m[:2] for m in model] or any(k != n_ok + 1 for k in result.exceptions):
            self.violation("statement", self.feature(), "instrumented-outcome-differs",
                           f"a={a}: instrumented execution gave {got}, plain CPython {model}", a)
            return
        col.distinct("outcomes", repr(got))
        trace = result.execution_trace
        checked = {self.line_of[i] for i in trace.checked_lines}
        self.check_executed("statement", a, checked, executed, "trace.checked_lines")
        crit = result.c09_criteria
        if sorted(crit) != list(range(n_ok + 1)):
            raise AssertionError(f"criteria {crit} for {n_ok} successful calls\n{self.source}")
        by_pos = {}
        for tp, instrs in captured:
            by_pos.setdefault(tp, instrs)
        all_demanded = set()
        for pos in sorted(crit):
            instrs = by_pos.get(crit[pos].trace_position)
            if instrs is None:
                raise AssertionError("slice of a recorded criterion was not captured")
            root = model[pos - 1][2] if pos >= 1 else None
            self.check_slice("statement", a, trace, instrs, executed, root, f"slice of var_{pos - 1}"
                             if pos else "slice of int_0")
            if root is not None:
                all_demanded |= set(demanded(root))
        # the reported result (after the implementation's own post-processing) must keep them
        from mc.depinterp import missing_frontier
        for pos in sorted(crit):
            if pos == 0:
                continue
            for kind, line, _user in missing_frontier(model[pos - 1][2], checked):
                self.violation("statement", kind, "dependence-line-missing-in-checked-lines",
                               f"a={a}: var_{pos - 1} depends on line {line} "
                               f"({self.src_lines[line - 1].strip()!r}, {kind} dependence), which is not "
                               f"in trace.checked_lines {sorted(checked)}", a)
        col.sample({"source": self.source, "a": a, "outcome": repr(got),
                    "checked_lines": sorted(checked), "demanded": sorted(all_demanded),
                    "executed": sorted(executed)}, every=97)

    # -- assertion execution observer + compute_assertion_checked_coverage
    def assertion_mode(self, a, model, executed):
        global _CAPTURE
        import pynguin.assertion.assertion as ass
        from pynguin.ga.checked_coverage import compute_assertion_checked_coverage
        from pynguin.slicer.dynamicslicer import DynamicSlicer
        from pynguin.testcase.execution import RemoteAssertionExecutionObserver
        col = self.col
        n_ok = sum(1 for m in model if m[0] == "ok")
        if n_ok == 0:
            col.count("assertion_runs_skipped_f_raises")
            return
        tc = self.test_case(a)
        value, root = model[n_ok - 1][1], model[n_ok - 1][2]
        var = f"var_{n_ok - 1}"
        tc.get_statement(n_ok).assertions.append(ass.ObjectAssertion(var, value))
        ex = self.executor(RemoteAssertionExecutionObserver())
        THREAD_ERRORS.clear()
        result = ex.execute(tc)
        col.count("executions")
        col.count("traces_validated_against_impl")
        vclass = "none-value" if value is None else "int-value"
        if result.timeout:
            sig = (THREAD_ERRORS or ["raises:no-result"])[0]
            self.violation("assertion", vclass, sig,
                           f"assertion execution, a={a}, assert on {var} ({value!r}): the execution "
                           f"produced no result ({sig})", a)
            return
        trace = result.execution_trace
        if len(trace.executed_assertions) != 1:
            self.violation("assertion", vclass, "assertion-not-recorded",
                           f"a={a}: the assertion on {var} ({value!r}) holds in plain CPython but "
                           f"{len(trace.executed_assertions)} executed assertions were recorded", a)
            return
        # the criterion of an assertion slice must be the assertion's own conditional jump
        crit = trace.executed_instructions[trace.executed_assertions[0].trace_position]
        code = self.sut.props.existing_code_objects[crit.code_object_id].code_object
        import dis
        if crit.file != AST_FILE or not any(i.opname == "LOAD_ASSERTION_ERROR"
                                            for i in dis.get_instructions(code)):
            self.violation("assertion", vclass, "criterion-not-at-assertion",
                           f"a={a}: the recorded position of the assertion on {var} ({value!r}) is "
                           f"{crit.name} in {crit.file}:{crit.lineno}, not the assertion's own jump", a)
            return
        _CAPTURE = []
        try:
            try:
                coverage = compute_assertion_checked_coverage(trace, self.sut.props)
            except Exception as exc:  # noqa: BLE001
                self.violation("assertion", self.feature(), _exc_sig(exc),
                               f"a={a}: compute_assertion_checked_coverage raised {exc!r}", a)
                return
        finally:
            captured, _CAPTURE = _CAPTURE, None
        (tp, instrs), = captured
        lines = self.check_slice("assertion", a, trace, instrs, executed, root,
                                 f"slice of assert {var} == {value!r}")
        self.check_executed("assertion", a, lines, executed, "assertion checked lines")
        ids = DynamicSlicer.map_instructions_to_lines(instrs, self.sut.props)
        if {self.line_of[i] for i in ids} != lines or \
                abs(coverage - len(ids) / len(self.sut.props.existing_lines)) > 1e-12:
            self.violation("assertion", "-", "coverage-value-inconsistent",
                           f"a={a}: coverage {coverage} but slice lines {sorted(lines)} of "
                           f"{len(self.sut.props.existing_lines)} existing lines", a)
        col.distinct("assertion_coverages", round(coverage, 6))

    def feature(self) -> str:
        """Most specific construct present in the program (labels raise-type findings)."""
        s = self.source
        for needle, name in (("z = g(x)", "call-arg"), ("b.val", "attribute"), ("[", "subscript"),
                             ("{", "subscript"), ("G =", "global"), ("= G", "global"),
                             ("if ", "control")):
            if needle in s.split("def g", 1)[1]:
                return name
        return "local"


# ------------------------------------------------------------------ shards
def _scratch():
    base = "/dev/shm" if os.path.isdir("/dev/shm") and os.access("/dev/shm", os.W_OK) else None
    return tempfile.mkdtemp(prefix="verif_c09_", dir=base)


def shard(col, tier, index, nshards, seed):
    import logging
    from mc import pyn

    logging.disable(logging.CRITICAL)
    progs = programs(tier)
    random.Random(seed).shuffle(progs)          # order only; every program is still run once
    mine = progs[index::nshards]
    scratch = _scratch()
    pyn.reset_config()
    try:
        for fam, src in mine:
            col.count("programs")
            col.count(f"programs_family_{fam}")
            Runner(col, src, scratch, fam).run()
            if col.counters.get("programs", 0) % 25 == 0:
                pyn.clear_caches()
    finally:
        shutil.rmtree(scratch, ignore_errors=True)


def run(ctx):
    from mc import par
    from mc.depinterp import CONSTRUCTS

    progs = programs(ctx.tier)
    nshards = ctx.workers * 6
    par.run_shards("props.c09_slices:shard",
                   [(ctx.tier, i, nshards, ctx.seed) for i in range(nshards)], ctx.workers, ctx)
    c = ctx.col
    ctx.require(c.counters.get("programs") == len(progs),
                f"not every program was run ({c.counters.get('programs')} of {len(progs)})")
    ctx.require(c.counters.get("interpreter_runs_validated") == len(progs) * len(INPUTS),
                "interpreter was not validated for every execution")
    fired = {"return", "if-taken", "if-else", "if-skipped", "new", "call", "global-store", "attr-store"}
    ctx.require(len(c.sets.get("fired", ())) >= len(fired), "vacuous: some statement kind never executed")
    ctx.require(len(c.sets.get("constructs_demanded", ())) == len(CONSTRUCTS),
                f"vacuous: only {len(c.sets.get('constructs_demanded', ()))} of {len(CONSTRUCTS)} "
                "dependence constructs were ever demanded")
    ctx.require(len(c.sets.get("demand_shapes", ())) > 20, "vacuous: too few distinct demanded line sets")
    ctx.require(len(c.sets.get("outcomes", ())) > 5, "vacuous: too few distinct outcomes")
    ctx.require(len(c.sets.get("assertion_coverages", ())) > 3, "vacuous: assertion coverage never varied")
    n_single, cross = BOUNDS[ctx.tier]
    ctx.note("bounds", {"family_A": f"f: <= {n_single} menu statements (+return), g fixed 'y = v + 1; return y'",
                        "family_B": f"g: <= {n_single} menu statements (+return), f fixed 'x = a; return x'",
                        "family_C": "all pairs with (f <= Nf, g <= Ng) menu statements (+return) for (Nf, Ng) in "
                                    + str(cross),
                        "family_D": f"{N_SHAPES} control-flow shapes (straight, if, if/else, nested if, nested "
                                    "if/else, two ifs, constant-guarded if/else) for f x the same for g x "
                                    "{g called after, before f's structure}",
                        "family_E": "every f (<= 3 menu statements) that calls g x every g (<= 2 quick / 3 thorough "
                                    "menu statements) that stores the global",
                        "inputs": list(INPUTS), "menu": sorted(ITEMS)})
    ctx.note("programs_total", len(progs))
    ctx.exhaustive = True
    ctx.rule = ("every def-before-use-correct program of the fragment within the stated bounds x inputs "
                "{0,1,2}; each executed through the real executor with the statement-slicing observer and "
                "with the assertion-execution observer; non-trivial = a sliced value that depends on >= 2 "
                "SUT lines according to the dependence interpreter")
    ctx.assume("lines executed while importing the module count as executed (pynguin merges the import "
               "trace into every execution trace)")
    ctx.assume("dependences on the def/class statements that bind f, g and Box are not demanded; an "
               "implicit 'return None' value depends on nothing; branches that were not taken demand nothing")
    ctx.assume("the dependence interpreter is trusted only after validation: values, exception types and "
               "executed lines equal plain CPython (sys.settrace) for every execution")


def replay(ctx, data):
    import logging
    from mc import pyn

    logging.disable(logging.CRITICAL)
    pyn.reset_config()
    Runner(ctx, data["source"], ctx.scratch("verif_c09_"), "-").run(inputs=(data["a"],))
