"""C31 — in-process and subprocess execution agree.

E2 population (every test case the real factory builds with <= d RNG
deviations; raising ones included) per corpus module, with and without
assertions attached (SIMPLE generation), executed by the real
``TestCaseExecutor`` and by the real ``SubprocessTestCaseExecutor`` (singly via
``execute`` and batched via ``execute_multiple``) with the remote assertion
trace and assertion verification observers attached.

Oracle per test case (differential): same timeout flag; same exception types at
the same statement positions; same covered line numbers and branch outcomes;
same assertion trace and assertion-verification trace (compared by rendered
assertions per statement position).
"""

from __future__ import annotations

from mc import par, pipeline

ID = "C31"
LEVEL = "model_checking"


def project(props, result):
    import libcst as cst
    from pynguin.assertion.assertion_to_ast import assertion_to_cst

    tr = result.execution_trace

    def render(a):
        try:
            return cst.Module(body=[assertion_to_cst(a)]).code.strip()
        except Exception as exc:  # noqa: BLE001
            return f"<{type(a).__name__}:{type(exc).__name__}>"

    atrace = {}
    try:
        for pos, asserts in result.assertion_trace.trace.items():
            atrace[pos] = sorted(render(a) for a in asserts)
    except Exception as exc:  # noqa: BLE001
        atrace = {"error": type(exc).__name__}
    vtrace = None
    try:
        vt = result.assertion_verification_trace
        vtrace = (sorted((k, sorted(v)) for k, v in vt.error.items() if v),
                  sorted((k, sorted(v)) for k, v in vt.failed.items() if v))
    except Exception:  # noqa: BLE001
        vtrace = "error"
    return {
        "timeout": bool(result.timeout),
        "exceptions": sorted((pos, type(e).__name__) for pos, e in result.exceptions.items()),
        "lines": sorted(props.lineids_to_linenos(tr.covered_line_ids)),
        "branches": sorted((p, "T") for p, d in tr.true_distances.items() if d == 0.0)
        + sorted((p, "F") for p, d in tr.false_distances.items() if d == 0.0),
        "code_objects": sorted(tr.executed_code_objects),
        "assertion_trace": sorted(atrace.items()) if isinstance(atrace, dict) else atrace,
        "verification": vtrace,
    }


def shard(col, module, pop_bound, limit, with_assertions):
    import logging
    import shutil
    import tempfile

    logging.disable(logging.CRITICAL)
    import pynguin.assertion.assertiontraceobserver as ato
    from pynguin.testcase.execution import SubprocessTestCaseExecutor

    scratch = tempfile.mkdtemp(prefix="c31_", dir="/dev/shm")
    try:
        pipe = pipeline.Pipe(module, scratch)
        props = pipe.sut.props
        tests, _ = pipe.population(bound=pop_bound, limit=limit)
        # post-processed shapes as well: remove_unused_variables() turns an unused `var = f(...)` into a
        # bare `f(...)`, i.e. a statement that binds nothing (and may still raise)
        unbound = []
        for t in tests:
            u = t.clone()
            u.remove_unused_variables()
            if u.to_code() != t.to_code():
                unbound.append(u)
        tests = tests + unbound
        if with_assertions:
            suite = pipe.suite(tests)
            pipe.generate_assertions(suite, "SIMPLE")
            tests = [c.test_case for c in suite.test_case_chromosomes]
        inproc = pipe.sut.executor(maximum_test_execution_timeout=120, test_execution_time_per_statement=60)
        sub = SubprocessTestCaseExecutor(props, maximum_test_execution_timeout=120,
                                         test_execution_time_per_statement=60)
        for ex_ in (inproc, sub):
            ex_.add_remote_observer(ato.RemoteAssertionTraceObserver())
            ex_.add_remote_observer(ato.RemoteAssertionVerificationObserver())
        ref = [project(props, inproc.execute(t)) for t in tests]
        single = []
        for t in tests[: max(4, len(tests) // 4)]:
            single.append(project(props, sub.execute(t)))
        batch = []
        step = 8
        for i in range(0, len(tests), step):
            batch.extend(project(props, r) for r in sub.execute_multiple(tests[i:i + step]))
        tag = "asserted" if with_assertions else "plain"
        for how, got in (("single", single), ("batch", batch)):
            for i, g in enumerate(got):
                col.count("transitions")
                col.count("traces_validated_against_impl")
                col.distinct("states", (module, tag, tests[i].to_code(), repr(g)))
                col.distinct("outcomes", repr(ref[i]))
                if g != ref[i]:
                    diff = [k for k in g if g[k] != ref[i][k]]
                    col.violation(f"C31|{tag}|{how}|differs:{'+'.join(diff)}",
                                  f"{module}:\n{tests[i].to_code()}in-process {ref[i]}\nsubprocess {g}",
                                  {"module": module, "with_assertions": with_assertions, "pop_bound": pop_bound,
                                   "test": tests[i].to_code()}, rank=tests[i].size())
        if len(batch) != len(tests):
            col.violation(f"C31|{tag}|batch|result-count-differs", f"{len(batch)} results for {len(tests)} tests",
                          {"module": module, "with_assertions": with_assertions, "pop_bound": pop_bound})
        col.sample({"module": module, "tests": len(tests), "with_assertions": with_assertions,
                    "example": ref[0] if ref else None})
        pipe.close()
    finally:
        shutil.rmtree(scratch, ignore_errors=True)


def run(ctx):
    modules = ["numeric", "containers", "shapes", "raising", "equalish"] if ctx.quick else \
        ["numeric", "containers", "shapes", "strings", "raising", "equalish", "excs"]
    jobs = []
    for m in modules:
        jobs.append((m, 1 if ctx.quick else 2, 40 if ctx.quick else 400, False))
        jobs.append((m, 1, 24 if ctx.quick else 80, True))
    par.run_shards("props.c31_subprocess_agrees:shard", jobs, ctx.workers, ctx)
    ctx.require(len(ctx.col.sets.get("outcomes", ())) > 15, "vacuous: too few distinct results")
    ctx.exhaustive = True
    ctx.rule = ("population = all test cases from 2 factory insertions with <= d RNG deviations per module "
                "(size-limited), with and without SIMPLE assertions; one in-process and one subprocess "
                "execution (single and batched) per test case; states = distinct (test, projected result)")
    ctx.assume("corpus modules are deterministic; observers attached are the assertion trace and verification ones")


def replay(ctx, data):
    from mc.ctx import Collector
    col = Collector()
    shard(col, data["module"], data.get("pop_bound", 1), 400, data["with_assertions"])
    ctx.merge(col)
