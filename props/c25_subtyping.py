"""C25 — subtyping is a preorder consistent with the class hierarchy.

Bounded-exhaustive exploration (E3).  Every inheritance DAG on <= 3 (quick) /
<= 4 (thorough) user classes, in every linearisable base order, is written as a
real module, analysed by the real ``generate_test_cluster`` — once as shipped
(numeric tower enabled) and once with ``enable_numeric_tower`` never called — and
ALL proper types of depth <= 2 over the user classes and ``int, float, complex,
bool, str, list, dict, set, tuple, object, None, Any`` are built (``list[T]``,
``set[T]``, ``dict[K,V]``, ``tuple[()]/[T]/[T,U]``, unions of 1 and 2).  For
every ordered pair (T, S) of those types the real ``TypeSystem.is_subtype``,
``is_maybe_subtype`` and ``subtype_distance`` are called; the laws of the
property statement are then decided over the complete result matrices
(transitivity over ALL triples, by bitset inclusion).

Argument order used for the distance (checked against the code: the visitor is
accepted by ``supertype`` and holds ``subtype``): ``subtype_distance(T, S)`` =
``TypeSystem.subtype_distance(supertype=T, subtype=S)``, "the distance from T
to S"; the statement then requires ``is_maybe_subtype(S, T)`` whenever it is
not ``None`` and ``subtype_distance(T, T) == 0``.
"""

from __future__ import annotations

import builtins

ID = "C25"
LEVEL = "exploration"

PKG = "c25pk"
CLASS_NAMES = ("int", "float", "complex", "bool", "str", "list", "dict", "set", "tuple", "object")


# ------------------------------------------------------------------ one variant
def _call(fn, a, b):
    try:
        return fn(a, b)
    except Exception as exc:  # noqa: BLE001
        return ("raises", type(exc).__name__)


def identical_cause(t, d) -> str:
    """Why subtype_distance(t, t) is not 0 (structural, for the fingerprint)."""
    from mc import typeworld as tw

    if d is None:
        if tw.contains(t, "None"):
            return "via-None"           # visit_none_type answers None even for (None, None)
        if tw.kind(t) == "union" and any(tw.kind(m) == "tuple" for m in t.items):
            return "via-tuple-vs-union"  # visit_tuple_type does not look into a union subtype
        return "other"
    return "via-Any" if tw.contains(t, "Any") else "other"   # any_distance, even for (Any, Any)


def distance_cause(T, sup, sub) -> str:
    """Innermost pair responsible for 'distance defined but not a maybe-subtype' (for the fingerprint)."""
    import pynguin.analyses.typesystem as ts
    from mc import typeworld as tw

    def bad(a, b):
        return T.subtype_distance(a, b) is not None and not T.is_maybe_subtype(b, a)

    for _ in range(8):
        if isinstance(sup, ts.UnionType):
            nxt = [e for e in sup.items if bad(e, sub)]
            if not nxt:
                return f"other|union-super,{tw.kind(sub)}"
            sup = nxt[0]
        elif isinstance(sub, ts.UnionType):
            nxt = [e for e in sub.items if bad(sup, e)]
            if not nxt:
                return f"other|{tw.kind(sup)},union-sub"
            sub = nxt[0]
        elif isinstance(sup, ts.TupleType) and isinstance(sub, ts.TupleType):
            nxt = [(a, b) for a, b in zip(sup.args, sub.args) if bad(a, b)]
            if not nxt:
                return "other|tuple,tuple"
            sup, sub = nxt[0]
        elif isinstance(sup, ts.Instance) and isinstance(sub, ts.Instance) and sup.args and sub.args:
            if not T.is_subclass(sub.type, sup.type):
                return f"generic-class-ignored|{tw.kind(sup)},{tw.kind(sub)}"
            nxt = [(a, b) for a, b in zip(sup.args, sub.args) if bad(a, b)]
            if not nxt:
                return f"generic-invariance|{tw.kind(sup)}"
            sup, sub = nxt[0]
        else:
            break
    return f"other|{tw.kind(sup)},{tw.kind(sub)}"


def check_variant(col, root, spec, tower, want_sample=False, flavour="plain"):
    from mc import typeworld as tw

    spec = tuple(tuple(b) for b in spec)
    n = len(spec)
    mod = tw.write_module(root, PKG, spec, flavour)
    cluster = tw.analyse(mod, tower=tower)
    T = cluster.type_system
    users = tw.user_infos(cluster, mod, n)
    uni = tw.Universe(T, users)
    types, labels = uni.types, uni.labels
    N = len(types)
    kinds = [tw.kind(t) for t in types]
    tag = {"spec": [list(b) for b in spec], "tower": tower, "flavour": flavour}
    base_rank = n * 1000 + sum(len(b) for b in spec) * 10

    # violations are aggregated locally (hundreds of thousands of pairs share a fingerprint):
    # per fingerprint the lowest-rank case is kept and handed to the collector once
    best: dict[str, list] = {}

    def viol(fp, what, involved, check):
        """``what`` may be a callable (formatted only for the case that is kept)."""
        rank = base_rank + sum(len(labels[i]) for i in involved)
        cur = best.get(fp)
        if cur is None:
            best[fp] = [rank, what, involved, check, 1]
        else:
            cur[4] += 1
            if rank < cur[0]:
                cur[:4] = [rank, what, involved, check]

    def flush():
        for fp in sorted(best):
            rank, what, involved, check, cnt = best[fp]
            if callable(what):
                what = what()
            col.violation(f"C25|{fp}", f"{tw.spec_name(spec, flavour)} tower={tower}: {what}",
                          dict(tag, check=check, types=[labels[i] for i in involved]), rank=rank)
            col.violations[f"C25|{fp}"]["n"] += cnt - 1
            col.count("violating_cases", cnt - 1)
        for item in sorted(nontrivial, key=repr):
            col.distinct("nontrivial", item)

    nontrivial: set = set()
    name_of = tw.spec_name(spec, flavour)

    # ---- the three relations, complete matrices -------------------------------
    sub = [0] * N          # sub[i] bit j: is_subtype(Ti, Tj)
    may = [0] * N          # may[i] bit j: is_maybe_subtype(Ti, Tj)
    dist = [None] * N      # dist[i][j]: subtype_distance(supertype=Ti, subtype=Tj)
    related = failures = 0
    for i, a in enumerate(types):
        row_s = row_m = 0
        drow = [None] * N
        for j, b in enumerate(types):
            s = _call(T.is_subtype, a, b)
            m = _call(T.is_maybe_subtype, a, b)
            d = _call(T.subtype_distance, a, b)
            for name, r in (("is_subtype", s), ("is_maybe_subtype", m), ("subtype_distance", d)):
                if isinstance(r, tuple):
                    viol(f"{name}|{kinds[i]},{kinds[j]}|raises:{r[1]}",
                         f"{name}({labels[i]}, {labels[j]}) raised {r[1]}", (i, j), "raises")
            if s is True:
                row_s |= 1 << j
            if m is True:
                row_m |= 1 << j
            drow[j] = d if isinstance(d, int) and not isinstance(d, bool) else None
            if s is True or m is True or drow[j] is not None:
                related += 1
                nontrivial.add((name_of, tower, kinds[i], kinds[j], s is True, m is True,
                                None if drow[j] is None else min(drow[j], 3)))
        sub[i], may[i], dist[i] = row_s, row_m, drow
    col.count("related_pairs", related)
    col.count("evaluations", 3 * N * N)
    col.count("type_pairs", N * N)
    col.count("variants")
    col.distinct("outcomes", ("sub", sum(bin(r).count("1") for r in sub) > 0))

    any_i, none_i = uni.index["Any"], uni.index["None"]

    # ---- reflexivity ----------------------------------------------------------
    for i in range(N):
        if not sub[i] >> i & 1:
            viol(f"reflexive|is_subtype|{kinds[i]}", f"not is_subtype({labels[i]}, {labels[i]})", (i,), "reflexive")
        if not may[i] >> i & 1:
            viol(f"reflexive|is_maybe_subtype|{kinds[i]}",
                 f"not is_maybe_subtype({labels[i]}, {labels[i]})", (i,), "reflexive")
    col.count("law_checks", 2 * N)

    # ---- transitivity of is_subtype over ALL triples --------------------------
    # for every pair a <: b the row of b must be included in the row of a
    has_any = [tw.contains(t, "Any") for t in types]
    for a in range(N):
        ra = sub[a]
        rest = ra
        while rest:
            low = rest & -rest
            b = low.bit_length() - 1
            rest ^= low
            bad = sub[b] & ~ra
            if bad:
                c = (bad & -bad).bit_length() - 1
                # Any is accepted on the left of every type ("Any wins always"): a middle type that
                # contains Any is one root cause, whatever the outer shapes are
                fp = (f"transitive|via-Any|mid={kinds[b]}" if has_any[b]
                      else f"transitive|no-Any|{kinds[a]},{kinds[b]},{kinds[c]}")
                viol(fp, lambda a=a, b=b, c=c: f"{labels[a]} <: {labels[b]} and {labels[b]} <: {labels[c]} "
                     f"but not {labels[a]} <: {labels[c]}", (a, b, c), "transitive")
                failures += bin(bad).count("1")
    col.count("transitivity_failures", failures)
    col.count("transitivity_triples", N * N * N)
    col.count("law_checks", N * N)

    # ---- everything is a subtype of Any ---------------------------------------
    for i in range(N):
        if not sub[i] >> any_i & 1:
            viol(f"top|is_subtype|{kinds[i]}", f"not is_subtype({labels[i]}, Any)", (i, any_i), "top")
        if not may[i] >> any_i & 1:
            viol(f"top|is_maybe_subtype|{kinds[i]}", f"not is_maybe_subtype({labels[i]}, Any)",
                 (i, any_i), "top")
    col.count("law_checks", 2 * N)

    # ---- a union is a subtype exactly when all its members are ----------------
    for u, members in uni.unions:
        expect = ~0
        for m in members:
            expect &= sub[m]
        diff = (sub[u] ^ expect) & ((1 << N) - 1)
        if diff:
            r = (diff & -diff).bit_length() - 1
            viol(f"union-all-members|{kinds[r]}|got={bool(sub[u] >> r & 1)}",
                 f"is_subtype({labels[u]}, {labels[r]}) = {bool(sub[u] >> r & 1)} but members give "
                 f"{[bool(sub[m] >> r & 1) for m in members]}", (u, r), "union")
    col.count("law_checks", len(uni.unions) * N)

    # ---- is_subclass <=> issubclass (+ documented numeric tower) --------------
    infos = [(f"C{i}", u) for i, u in enumerate(users)]
    infos += [(nm, T.to_type_info(getattr(builtins, nm))) for nm in CLASS_NAMES]
    K = len(infos)
    exp = [[issubclass(a.raw_type, b.raw_type) for _, b in infos] for _, a in infos]
    if tower:
        pos = {nm: k for k, (nm, _) in enumerate(infos)}
        exp[pos["int"]][pos["float"]] = True        # PEP 484: int <: float <: complex
        exp[pos["float"]][pos["complex"]] = True
        for k in range(K):
            for i in range(K):
                if exp[i][k]:
                    for j in range(K):
                        if exp[k][j]:
                            exp[i][j] = True
    for i, (la, a) in enumerate(infos):
        for j, (lb, b) in enumerate(infos):
            got = _call(T.is_subclass, a, b)
            col.count("evaluations")
            col.distinct("outcomes", ("subclass", got is True))
            if got is not exp[i][j]:
                ka = "user" if la.startswith("C") else la
                kb = "user" if lb.startswith("C") else lb
                col.violation(f"C25|is_subclass|{ka},{kb}|tower={int(tower)}|got={got}",
                              f"{tw.spec_name(spec, flavour)} tower={tower}: is_subclass({la}, {lb}) = {got}, "
                              f"issubclass(+tower) = {exp[i][j]}",
                              dict(tag, check="is_subclass", types=[la, lb]), rank=base_rank)
    # user classes must mirror the generated hierarchy itself (guards the generator)
    anc = tw.closure(spec)
    for i in range(n):
        for j in range(n):
            if exp[i][j] != (j in anc[i]):
                raise AssertionError("generated module does not realise the hierarchy spec")

    # ---- is_subtype => is_maybe_subtype ---------------------------------------
    for i in range(N):
        bad = sub[i] & ~may[i]
        if bad:
            j = (bad & -bad).bit_length() - 1
            viol(f"subtype-implies-maybe|{kinds[i]},{kinds[j]}",
                 f"is_subtype({labels[i]}, {labels[j]}) but not is_maybe_subtype", (i, j), "implies")
    col.count("law_checks", N * N)

    # ---- distance defined => S may be a subtype of T; identical => 0 ----------
    defined = 0
    for i in range(N):
        drow = dist[i]
        for j in range(N):
            d = drow[j]
            if d is not None:
                defined += 1
                if not may[j] >> i & 1:
                    viol(f"distance-defined-not-maybe-subtype|{distance_cause(T, types[i], types[j])}",
                         lambda i=i, j=j, d=d: f"subtype_distance(supertype={labels[i]}, subtype={labels[j]}) "
                         f"= {d} but is_maybe_subtype({labels[j]}, {labels[i]}) is False", (i, j), "distance")
        d = drow[i]
        if d != 0:
            viol(f"distance-identical|{kinds[i]}|{identical_cause(types[i], d)}|"
                 f"{'None' if d is None else 'nonzero'}",
                 lambda i=i, d=d: f"subtype_distance({labels[i]}, {labels[i]}) = {d}, expected 0",
                 (i,), "identical")
        col.distinct("outcomes", ("dist", d))
    col.count("distances_defined", defined)
    col.count("law_checks", N * N + N)
    col.note("types_per_variant_max", N)
    flush()
    if want_sample:
        j = uni.index.get("C0")
        i = uni.index.get("U[C0|None]", any_i)
        col.sample({"hierarchy": tw.spec_name(spec, flavour), "tower": tower, "types": N,
                    "example": {"T": labels[i], "S": labels[j],
                                "is_subtype(S,T)": bool(sub[j] >> i & 1),
                                "is_maybe_subtype(S,T)": bool(may[j] >> i & 1),
                                "subtype_distance(T,S)": dist[i][j]}})


def shard(col, root, variants, sample_first):
    for k, (spec, tower, *rest) in enumerate(variants):
        check_variant(col, root, spec, tower, want_sample=sample_first and k == 0,
                      flavour=rest[0] if rest else "plain")


# ------------------------------------------------------------------ entry points
def run(ctx):
    from mc import typeworld as tw
    from mc.par import run_shards

    n_max = 3 if ctx.quick else 4
    specs, skipped = tw.hierarchies(n_max)
    variants = [(s, tower) for s in specs for tower in (True, False)]
    # parametrised bases (``class C1(C0[int])`` below a ``Generic[T]`` root): __orig_bases__ != __bases__
    variants += [(s, True, "generic") for s in specs if len(s) == 3 and any(s)]
    # VERIF_SEED only rotates the work list (which shard does what, which samples are kept)
    rot = ctx.seed % len(variants)
    variants = variants[rot:] + variants[:rot]
    root = ctx.scratch("c25_")
    nshards = min(len(variants), ctx.workers if ctx.quick else 4 * ctx.workers)
    chunks = [variants[i::nshards] for i in range(nshards)]
    run_shards("props.c25_subtyping:shard", [(root, c, i < 6) for i, c in enumerate(chunks)],
               ctx.workers, ctx)
    c = ctx.col.counters
    ctx.require(c.get("variants", 0) == len(variants), "not every hierarchy variant was analysed")
    ctx.require(len(ctx.col.sets.get("outcomes", ())) >= 6, "vacuous: too few distinct outcomes")
    ctx.require(c.get("related_pairs", 0) > 0 and c.get("distances_defined", 0) > 0,
                "vacuous: no related pair of types")
    ctx.note("user_classes_max", n_max)
    ctx.note("hierarchies", len(specs))
    ctx.note("hierarchies_skipped_mro_inconsistent", skipped)
    ctx.note("variants", len(variants))
    ctx.exhaustive = True
    ctx.rule = ("case = (hierarchy, tower on/off, T, S); non-trivial when is_subtype, is_maybe_subtype or "
                "subtype_distance relates the pair; distinct by (hierarchy, tower, shape(T), shape(S), "
                "outcome vector)")
    ctx.assume("types are built the way TypeSystem builds them (unions sorted, list/set/dict padded with Any)")
    ctx.assume("'without numeric tower' = enable_numeric_tower never called (the analysis always calls it)")
    ctx.assume("subtype_distance(T,S) read as TypeSystem.subtype_distance(supertype=T, subtype=S)")


def replay(ctx, data):
    root = ctx.scratch("c25_")
    check_variant(ctx.col, root, data["spec"], data["tower"], flavour=data.get("flavour", "plain"))
