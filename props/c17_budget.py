"""C17 — search stops as soon as a configured budget is exhausted.

Exhaustive grid of real runs: algorithm x stopping condition x budget value x
corpus module, every cell an in-process ``run_pynguin()`` in a fresh interpreter
(``mc.runpyn``). Iteration boundaries are observed by wrapping
``GenerationAlgorithm.before_first_search_iteration / after_search_iteration``;
test and statement executions are counted independently of pynguin's own
stopping conditions by wrapping ``TestCaseExecutor.execute``.

Oracle per cell: the run returns (no exception, no hang); completed iterations
<= iteration budget; once the independently counted executions (statements) have
reached the budget at an iteration boundary, no further iteration completes; the
same for pynguin's own ``is_fulfilled()`` verdicts.
"""

from __future__ import annotations

from mc import grid

ID = "C17"
LEVEL = "exploration"

ALGORITHMS = ["DYNAMOSA", "MOSA", "MIO", "WHOLE_SUITE", "RANDOM", "RANDOM_TEST_SUITE_SEARCH"]
BUDGETS_QUICK = {"maximum_iterations": [1, 2, 3, 5], "maximum_test_executions": [1, 3, 8, 21, 50],
                 "maximum_statement_executions": [1, 5, 20, 100]}
BUDGETS_THOROUGH = {"maximum_iterations": list(range(1, 11)),
                    "maximum_test_executions": [1, 2, 3, 5, 8, 13, 21, 50, 200],
                    "maximum_statement_executions": [1, 5, 20, 100]}
COND = {"maximum_iterations": "MaxIterationsStoppingCondition",
        "maximum_test_executions": "MaxTestExecutionsStoppingCondition",
        "maximum_statement_executions": "MaxStatementExecutionsStoppingCondition"}


def judge(ctx, key, spec, res, combined=None):
    alg, field, limit, module, extra = key
    data = {"spec": spec}
    base = f"C17|{alg}|{field}" + (f"[with:{combined}]" if combined else "")
    if res["rc"] in ("RAISED", "CRASHED", "HUNG"):
        ctx.violation(f"{base}|run-{res['rc'].lower()}", f"{key}: {res['error']}", data, rank=limit)
        return
    bounds = res["boundaries"]
    ends = [i for i, b in enumerate(bounds) if b["kind"] == "iteration-end"]
    ctx.count("iterations_observed", len(ends))
    if field == "maximum_iterations" and len(ends) > limit:
        ctx.violation(f"{base}|iterations-exceed-budget",
                      f"{key}: {len(ends)} completed iterations with a budget of {limit}", data, rank=limit)
    mine = {"maximum_test_executions": "executions", "maximum_statement_executions": "statements"}.get(field)
    for i, b in enumerate(bounds):
        later_end = any(j > i for j in ends)
        if not later_end:
            break
        if mine is not None and b[mine] >= limit:
            ctx.violation(f"{base}|iteration-after-budget-reached",
                          f"{key}: at boundary {i} {b[mine]} {mine} >= {limit}, yet another iteration completed",
                          data, rank=limit)
            break
        cond = b["conditions"].get(COND[field])
        if cond is not None and cond[2]:
            ctx.violation(f"{base}|iteration-after-condition-fulfilled",
                          f"{key}: condition fulfilled at boundary {i} ({cond}), yet another iteration completed",
                          data, rank=limit)
            break
    # pynguin's own counter must agree with the independent count at every boundary
    if mine == "executions":
        for i, b in enumerate(bounds):
            cond = b["conditions"].get(COND[field])
            if cond is not None and cond[0] != b["executions"]:
                ctx.violation(f"{base}|execution-counter-disagrees",
                              f"{key}: boundary {i}: condition counts {cond[0]}, observed {b['executions']}",
                              data, rank=limit)
                break


def run(ctx):
    budgets = BUDGETS_QUICK if ctx.quick else BUDGETS_THOROUGH
    modules = ["numeric"] if ctx.quick else ["numeric", "containers", "strings"]
    extras = [{}] if ctx.quick else [{}, {"search_algorithm__population": 4}]
    cells = []
    for module in modules:
        for alg in ALGORITHMS:
            for field, values in budgets.items():
                for v in values:
                    for extra in extras:
                        spec = {"module": module, "algorithm": alg, "seed": 1 + ctx.seed % 3,
                                "stopping": {field: v}, "observe_iterations": True, "extra": extra}
                        cells.append(((alg, field, v, module, tuple(sorted(extra.items()))), spec, "0"))
    # two budgets at once: each configured budget must be honoured whichever else is configured
    pairs = [{"maximum_test_executions": 5, "maximum_statement_executions": 400},
             {"maximum_statement_executions": 20, "maximum_test_executions": 1000},
             {"maximum_iterations": 3, "maximum_test_executions": 1000},
             {"maximum_test_executions": 8, "maximum_iterations": 100},
             {"maximum_iterations": 2, "maximum_statement_executions": 100000}]
    for module in modules[:1]:
        for alg in ALGORITHMS:
            for pair in pairs:
                spec = {"module": module, "algorithm": alg, "seed": 1 + ctx.seed % 3,
                        "stopping": dict(pair), "observe_iterations": True, "extra": {}}
                cells.append(((alg, "+".join(pair), tuple(pair.values()), module, ()), spec, "0"))
    results = grid.run_grid(cells, workers=ctx.workers)
    for (key, spec, _hs) in cells:
        res = results[key]
        ctx.count("evaluations")
        ends = sum(1 for b in res["boundaries"] if b["kind"] == "iteration-end")
        ctx.distinct("nontrivial", (key[0], key[1], key[2], key[3], ends, res["executions"]))
        ctx.distinct("outcomes", (ends, res["executions"], res["rc"]))
        if ends >= 1:
            ctx.count("cells_with_iterations")
        if len(spec["stopping"]) == 1:
            judge(ctx, key, spec, res)
        else:
            for field, limit in spec["stopping"].items():
                judge(ctx, (key[0], field, limit, key[3], key[4]), spec, res, combined=key[1])
        ctx.sample({"cell": list(key[:4]), "rc": res["rc"], "iterations": ends,
                    "executions": res["executions"], "statements": res["statements"]}, every=17)
    ctx.require(ctx.col.counters.get("cells_with_iterations", 0) > len(cells) // 3,
                "vacuous: most cells completed no iteration")
    ctx.require(len(ctx.col.sets.get("outcomes", ())) > 10, "vacuous: outcomes do not vary")
    ctx.exhaustive = True
    ctx.note("grid", {"algorithms": ALGORITHMS, "budgets": budgets, "modules": modules})
    ctx.rule = ("one real run per (algorithm, stopping condition, budget, module) cell of the stated grid; "
                "non-trivial = distinct (cell, completed iterations, executions)")
    ctx.assume("iteration boundaries are the calls of before_first_search_iteration / after_search_iteration")


def replay(ctx, data):
    spec = data["spec"]
    res = grid.run_cell(spec)
    combined = "+".join(spec["stopping"]) if len(spec["stopping"]) > 1 else None
    for field, limit in spec["stopping"].items():
        judge(ctx, (spec["algorithm"], field, limit, spec["module"], ()), spec, res, combined=combined)
    print({k: res[k] for k in ("rc", "error", "executions", "statements")}, res["boundaries"])
