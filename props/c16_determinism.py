"""C16 — the same seed and budget reproduce the same test suite.

The hash-randomisation dimension cannot be intercepted or enumerated (it is a
process start-up parameter of CPython); what is enumerated exhaustively is a
finite grid: corpus module x seed x algorithm x assertion mode x PYTHONHASHSEED.
Every cell is a real in-process ``run_pynguin()`` in a fresh interpreter with
an iteration budget. For every (module, seed, algorithm, assertion mode) all
hash-seed variants are compared with the PYTHONHASHSEED=0 run: byte-identical
exported file AND identical RNG draw log (a pass-through recorder hashes every
leaf draw, so a divergence is localised to its first differing draw).
A repeated identical cell (same hash seed twice) separates hash-order effects
from plain run-to-run nondeterminism.
"""

from __future__ import annotations

from mc import grid

ID = "C16"
LEVEL = "exploration"


def run(ctx):
    quick = ctx.quick
    modules = ["numeric", "hierarchy", "shapes", "enums", "excs"] if quick else \
        ["numeric", "containers", "shapes", "strings", "raising", "enums", "hierarchy", "excs"]
    seeds = [1] if quick else [1, 2]
    algs = ["DYNAMOSA", "MIO", "WHOLE_SUITE"] if quick else \
        ["DYNAMOSA", "MIO", "WHOLE_SUITE", "MOSA", "RANDOM", "RANDOM_TEST_SUITE_SEARCH"]
    modes = ["NONE"] if quick else ["NONE", "SIMPLE"]
    hashseeds = ["0", "1", "4242", "0"] if quick else ["0", "1", "2", "3", "17", "4242", "99991", "0"]
    iters = 4 if quick else 8
    cells = []
    for m in modules:
        for s in seeds:
            for a in algs:
                for mode in modes:
                    for rep, hs in enumerate(hashseeds):
                        spec = {"module": m, "algorithm": a, "seed": s, "assertions": mode,
                                "stopping": {"maximum_iterations": iters}, "observe_iterations": False,
                                "record_rng": True}
                        cells.append(((m, s, a, mode, rep, hs), spec, hs))
    # the module under test inside a package with sibling modules holding constants
    pk_cells = []
    for a in (("RANDOM", "DYNAMOSA") if quick else ("RANDOM", "DYNAMOSA", "MIO", "WHOLE_SUITE")):
        for rep, hs in enumerate(hashseeds):
            spec = {"module": "strings", "package": True, "algorithm": a, "seed": seeds[0], "assertions": "NONE",
                    "stopping": {"maximum_iterations": iters + 4}, "observe_iterations": False, "record_rng": True}
            pk_cells.append(((("pkg:strings"), seeds[0], a, "NONE", rep, hs), spec, hs))
    cells += pk_cells
    results = grid.run_grid(cells, workers=ctx.workers)
    combos = [(m, s, a, mode) for m in modules for s in seeds for a in algs for mode in modes]
    combos += sorted({k[:4] for k, _spec, _hs in pk_cells})
    for (m, s, a, mode) in combos:
        if True:
            if True:
                if True:
                    ref = results[(m, s, a, mode, 0, hashseeds[0])]
                    for rep, hs in enumerate(hashseeds):
                        res = results[(m, s, a, mode, rep, hs)]
                        ctx.count("evaluations")
                        data = {"module": m, "seed": s, "algorithm": a, "assertions": mode,
                                "hashseeds": [hashseeds[0], hs], "iterations": iters}
                        base = f"C16|{a}|{mode}"
                        if res["rc"] in ("RAISED", "CRASHED", "HUNG"):
                            ctx.violation(f"{base}|run-{res['rc'].lower()}", f"{m} seed {s} hashseed {hs}: "
                                          f"{res['error']}", data)
                            continue
                        ctx.distinct("nontrivial", (m, s, a, mode, res["draw_hash"], hash(res["test_file"])))
                        if rep == 0:
                            if res["test_file"]:
                                ctx.count("cells_with_tests")
                            continue
                        same_hs = hs == hashseeds[0]
                        kind = "same-hashseed" if same_hs else "different-hashseed"
                        if res["draw_hash"] != ref["draw_hash"] or res["draws"] != ref["draws"]:
                            first = next((i for i, (x, y) in enumerate(zip(ref["first_draws"],
                                                                        res["first_draws"])) if x != y),
                                         min(len(ref["first_draws"]), len(res["first_draws"])))
                            ctx.violation(f"{base}|{kind}|rng-draw-sequence-differs",
                                          f"{m} seed {s}: PYTHONHASHSEED {hashseeds[0]} vs {hs}: draw logs "
                                          f"differ first at draw {first} of {ref['draws']}/{res['draws']}",
                                          data, rank=first)
                        elif res["test_file"] != ref["test_file"]:
                            ctx.violation(f"{base}|{kind}|exported-file-differs",
                                          f"{m} seed {s}: PYTHONHASHSEED {hashseeds[0]} vs {hs}: same draws, "
                                          "different exported test file", data)
                    ctx.sample({"module": m, "seed": s, "algorithm": a, "assertions": mode,
                                "draws": ref["draws"], "test_file_bytes": len(ref["test_file"] or "")}, every=3)
    ctx.require(ctx.col.counters.get("cells_with_tests", 0) >= len(modules) * len(algs) // 2,
                "vacuous: most reference runs exported no tests")
    ctx.exhaustive = True
    ctx.note("grid", {"modules": modules, "seeds": seeds, "algorithms": algs, "assertion_modes": modes,
                      "hashseeds": hashseeds, "iterations": iters})
    ctx.rule = ("one real run per cell of the stated grid; every hash-seed variant compared with the "
                "PYTHONHASHSEED=0 run of the same (module, seed, algorithm, mode); non-trivial = distinct "
                "(cell, draw-log hash, exported file)")
    ctx.assume("independence from hash randomisation is checked on a fixed finite grid of PYTHONHASHSEED "
               "values only: it can be refuted, not established, by this check")


def replay(ctx, data):
    spec = {"module": data["module"], "algorithm": data["algorithm"], "seed": data["seed"],
            "assertions": data["assertions"], "stopping": {"maximum_iterations": data["iterations"]},
            "observe_iterations": False, "record_rng": True}
    a = grid.run_cell(spec, data["hashseeds"][0])
    b = grid.run_cell(spec, data["hashseeds"][1])
    same = a["draw_hash"] == b["draw_hash"] and a["test_file"] == b["test_file"]
    print("identical" if same else "DIFFERENT", a["draws"], b["draws"])
    if not same:
        ctx.violation(f"C16|{data['algorithm']}|{data['assertions']}|replay|differs", "replay differs", data)
