"""C13 — the archive never loses a covered goal or a better solution.

Two legs, both on the REAL ``CoverageArchive`` / ``MIOPopulation`` / ``MIOArchive``.

* Synthetic leg (E1, explicit-state BFS).  Goals are minimal real subclasses of
  ``TestCaseFitnessFunction`` and solutions minimal real subclasses of
  ``TestCaseChromosome`` (real ``TestCase`` with ``size`` statements, real
  ``ExecutionResult`` with / without test exceptions or a timeout) whose
  fitness / is-covered verdicts are read from a script ``(h per goal, size,
  status)``.  A state is the event history that reaches it, replayed on fresh
  objects for every transition; states are de-duplicated by a canonical
  projection of the archive.  Events: ``update([s])`` and ``update([s1, s2])``
  over all stub solutions, ``add_goals``, ``shrink_solutions`` /
  ``shrink_population``, ``get_solution`` / ``sample_solution`` with every RNG
  answer enumerated through ``mc.rng.ChoiceRNG`` (one event per complete
  answer vector), ``get_best_solution_if_any`` and the ``solutions`` property.
  The oracle on every transition is the property statement itself (see
  ``judge`` and the ``_check_*`` functions).

  The single events are explored breadth-first to a fixpoint (CoverageArchive:
  the whole reachable state space) or to the stated depth; the pair updates are
  then applied in every discovered state, and a pair successor outside the
  closure would be explored further (sound even if ``update([a, b])`` differed
  from ``update([a]); update([b])``).

* Real leg (E2, deviation-bounded choice-tree exploration).  Real DYNAMOSA /
  MOSA / MIO algorithm objects built by ``TestSuiteGenerationAlgorithmFactory``
  on corpus modules instrumented for BRANCH coverage, every RNG draw answered by
  the explorer.  Besides the neutral execution (base 0) a fixed list of *base
  answer sequences* (``base_offsets``: data, an LCG stream per base number, not
  sampled at run time) gives varied searches; explored are all executions with
  <= d explorer-chosen answers deviating from a base (d = 0 for the base sweep,
  d = 1 completely around the stated bases).  ``archive.update`` / ``add_goals``
  / ``shrink_solutions`` are wrapped to apply the same transition oracle to
  every real archive operation, and after every search iteration every archived
  test is RE-EXECUTED on a second executor and must cover the goal it is
  archived for; the covered set must grow monotonically.

Lenient readings of the statement (stated because the text leaves latitude):
``update([s1, s2])`` may replace an archived test through a chain of
individually justified replacements inside the batch; a clean test may be
replaced by a strictly shorter failing one ("or otherwise strictly shorter");
"failing" = test exceptions or timeout; the replacement rule is applied to
tests archived for *covered* goals only (MIO's partial-h populations are only
subject to the capacity bound).
"""

from __future__ import annotations

import itertools
import os
import shutil
import tempfile

ID = "C13"
LEVEL = "model_checking"

H2F = {1.0: 0.0, 0.5: 1.0, 0.25: 3.0, 0.0: 1e300}   # h = 1 - f/(1+f)


# =====================================================================  oracle
def _better(a, b, strict=True):
    """May ``b`` replace ``a``?  a, b = (size, failing)."""
    if a[1] and not b[1]:
        return True
    return b[0] < a[0] if strict else b[0] <= a[0]


def _reach(old, cands, strict):
    seen, todo = set(), [old]
    while todo:
        a = todo.pop()
        for b in cands:
            if b not in seen and _better(a, b, strict):
                seen.add(b)
                todo.append(b)
    return seen


def judge(old, new, new_covers, cands):
    """Classify a replacement old -> new given the covering candidates of the batch.

    Returns None if the statement allows it, else a failure signature.
    """
    if not new_covers:
        return "replaced-by-noncovering"
    if new not in cands:
        return "replaced-by-foreign-solution"
    if new in _reach(old, cands, True):
        return None
    if new in _reach(old, cands, False):
        return "replaced-equal-length"
    return "replaced-by-worse"


# =====================================================================  stub world
_CLASSES = {}


def _classes():
    """The two minimal real subclasses (created once per process, after pynguin is importable)."""
    if _CLASSES:
        return _CLASSES
    import pynguin.ga.computations as ff
    import pynguin.ga.testcasechromosome as tcc
    from pynguin.testcase.execution_result import ExecutionResult

    class ScriptGoal(ff.TestCaseFitnessFunction):
        """A real TestCaseFitnessFunction whose verdicts are read from the chromosome's script."""

        def __init__(self, idx):
            super().__init__(None, 0)
            self.idx = idx
            self.name = "g%d" % idx

        def compute_fitness(self, individual):
            return H2F[individual.script[0][self.idx]]

        def compute_is_covered(self, individual):
            return individual.script[0][self.idx] == 1.0

        def is_maximisation_function(self):
            return False

        def __repr__(self):
            return self.name

    class StubChromosome(tcc.TestCaseChromosome):
        """A real TestCaseChromosome that carries its script through clone()."""

        script = None

        def clone(self):
            c = StubChromosome(orig=self)
            c.script = self.script
            return c

    _CLASSES.update(goal=ScriptGoal, chrom=StubChromosome, result=ExecutionResult)
    return _CLASSES


class World:
    """Fresh real goals / chromosomes for one replay of a history."""

    def __init__(self, n_goals):
        k = _classes()
        self.ExecutionResult = k["result"]
        self.StubChromosome = k["chrom"]
        self.goals = [k["goal"](i) for i in range(n_goals)]
        self._stubs = {}

    def stub(self, desc):
        """desc = (hs, size, status); one object per desc per world."""
        key = _key(desc)
        s = self._stubs.get(key)
        if s is None:
            s = self._stubs[key] = self.fresh(desc)
        return s

    def fresh(self, desc):
        hs, size, status = _key(desc)
        t = _template((hs, size, status)).clone()
        c = self.StubChromosome(test_case=t)
        c.script = (hs, size, status)
        res = self.ExecutionResult(timeout=(status == "to"))
        if status == "exc0":
            res.report_new_thrown_exception(0, ValueError("scripted"))
        elif status == "excL":
            res.report_new_thrown_exception(size - 1, ValueError("scripted"))
        c.set_last_execution_result(res)
        c.changed = False
        for g in self.goals:
            c.add_fitness_function(g)
        return c


_TEMPLATES = {}


def _template(key):
    """A real TestCase of ``size`` statements whose source is unique per stub description."""
    from mc import pyn
    t = _TEMPLATES.get(key)
    if t is None:
        hs, size, status = key
        tag = ",".join(str(h) for h in hs) + ";" + status
        t = _TEMPLATES[key] = pyn.test_case(*[f"var_{i} = '{tag};{size};{i}'" for i in range(size)])
    return t


def _key(desc):
    hs, size, status = desc
    return (tuple(float(h) for h in hs), int(size), str(status))


def _failing(chrom):
    r = chrom.get_last_execution_result()
    return bool(r is not None and (r.timeout or r.has_test_exceptions()))


def _same_test(a, b):
    """A (clone of) the very same test is not a replacement (lenient reading)."""
    return a.test_case.to_code() == b.test_case.to_code() and _failing(a) == _failing(b)


def _eff_size_mio(desc):
    """Size of the clone MIOArchive.update stores (chopped after the first exception)."""
    _, size, status = _key(desc)
    return 1 if status == "exc0" else size


def _covers(desc, gi):
    return _key(desc)[0][gi] == 1.0


# =====================================================================  machines
class Machine:
    name = "?"

    def __init__(self, col, root, params):
        self.col, self.root, self.params = col, root, params
        self.effects = set()

    # -- to implement
    def new(self):
        raise NotImplementedError

    def apply(self, st, ev):
        raise NotImplementedError

    def snap(self, st):
        raise NotImplementedError

    def canon(self, snap):
        raise NotImplementedError

    def events(self, hist, snap):
        """The single-solution / administrative events enabled in a state."""
        raise NotImplementedError

    def pair_events(self):
        """update([s1, s2]) events (applied in every discovered state)."""
        return []

    def check(self, before, after, ev, res, st):
        raise NotImplementedError

    # -- generic
    def build(self, hist):
        st = self.new()
        for ev in hist:
            self.apply(st, ev)
        return st

    def fp(self, op, sig):
        return f"C13|{self.name}|{op}|{sig}"

    def report(self, op, sig, what, hist, ev):
        self.col.violation(self.fp(op, sig), f"{self.name} root={self.root}: {what}",
                           {"leg": "synthetic", "machine": self.name, "root": self.root,
                            "params": self.params, "history": hist + [ev]}, rank=len(hist) + 1)

    def transition(self, hist, ev, count=True):
        """Replay hist on fresh objects, apply ev, run the oracle. Returns (canon, snap) or None."""
        col = self.col
        st = self.build(hist)
        before = self.snap(st)
        if count:
            col.count("transitions")
            col.count(f"transitions_{self.name}")
        try:
            res = self.apply(st, ev)
        except Exception as exc:  # noqa: BLE001
            self.report(ev[0], f"raises:{type(exc).__name__}", f"{ev} raised {exc!r}", hist, ev)
            return None
        try:
            after = self.snap(st)
        except Exception as exc:  # noqa: BLE001
            self.report(ev[0], f"inspect-raises:{type(exc).__name__}",
                        f"inspecting the archive after {ev} raised {exc!r}", hist, ev)
            return None
        kb, ka = self.canon(before), self.canon(after)
        if count:
            col.count("traces_validated_against_impl")
        for sig, what in self.check(before, after, ev, res, st):
            self.report(ev[0], sig, f"{what} (event {ev})", hist, ev)
        if ka != kb:
            self.effects.add(ev[0])
        return ka, after


def _pairs(stubs):
    return [[a, b] for a in stubs for b in stubs if a != b]


# ---------------------------------------------------------------- CoverageArchive
class CoverageMachine(Machine):
    """root = list of goal indices the archive is constructed with ([] = DynaMOSA style)."""

    name = "CoverageArchive"

    def new(self):
        from pynguin.ga.algorithms.archive import CoverageArchive
        from pynguin.utils.orderedset import OrderedSet
        w = World(self.params["goals"])
        a = CoverageArchive(OrderedSet(w.goals[i] for i in self.root))
        return {"w": w, "a": a}

    def stubs(self):
        p = self.params
        return [[list(hs), size, status]
                for hs in itertools.product((0.5, 1.0), repeat=p["goals"])
                for size in p["sizes"] for status in p["statuses"]]

    def events(self, hist, snap):
        p = self.params
        st = self.stubs()
        evs = [["update", [s]] for s in st]
        for r in range(1, p["goals"] + 1):
            for sub in itertools.combinations(range(p["goals"]), r):
                evs.append(["add_goals", list(sub)])
        evs.append(["solutions"])
        return evs

    def pair_events(self):
        if not self.params.get("pairs", True):
            return []
        return [["update", pr] for pr in _pairs(self.stubs())]

    def apply(self, st, ev):
        from pynguin.utils.orderedset import OrderedSet
        w, a = st["w"], st["a"]
        if ev[0] == "update":
            return a.update([w.stub(d) for d in ev[1]])
        if ev[0] == "add_goals":
            return a.add_goals(OrderedSet(w.goals[i] for i in ev[1]))
        if ev[0] == "solutions":
            return list(a.solutions)
        raise ValueError(ev)

    def snap(self, st):
        a, w = st["a"], st["w"]
        covered = list(a.covered_goals)
        arch = {}
        for g in covered:
            c = a._covered[g]  # noqa: SLF001
            arch[g.idx] = c
        return {"objectives": [g.idx for g in a.objectives],
                "uncovered": [g.idx for g in a.uncovered_goals],
                "covered": [g.idx for g in covered], "arch": arch}

    def canon(self, s):
        return ("CA", tuple(self.root), tuple(sorted(s["objectives"])),
                tuple(sorted(s["uncovered"])),
                tuple(sorted((gi, c.script) for gi, c in s["arch"].items())))

    def check(self, before, after, ev, res, st):
        out = []
        w = st["w"]
        lost = [g for g in before["covered"] if g not in after["covered"]]
        if lost:
            out.append(("covered-goal-lost", f"goals {lost} were covered before and are not after"))
        both = [g for g in after["covered"] if g in after["uncovered"]]
        if both:
            out.append(("covered-and-uncovered", f"goals {both} are recorded covered and uncovered"))
        back = [g for g in before["covered"] if g in after["uncovered"]]
        if back and not lost:
            out.append(("covered-goal-lost", f"goals {back} returned to uncovered_goals"))
        for gi, c in after["arch"].items():
            if not c.get_is_covered(w.goals[gi]) or not _covers(c.script, gi):
                out.append(("archived-not-covering",
                            f"goal g{gi} archived with {c.script} which does not cover it"))
        batch = [w.stub(d) for d in ev[1]] if ev[0] == "update" else []
        for gi, old in before["arch"].items():
            new = after["arch"].get(gi)
            if new is None or new is old or _same_test(old, new):
                continue
            cands = {(b.size(), _failing(b)) for b in batch if _covers(b.script, gi)}
            sig = judge((old.size(), _failing(old)), (new.size(), _failing(new)),
                        _covers(new.script, gi), cands)
            if sig:
                out.append((sig, f"goal g{gi}: archived {old.script} replaced by {new.script}"))
        if ev[0] == "solutions":
            want = list(after["arch"].values())
            if any(not any(x is y for y in res) for x in want):
                out.append(("solutions-misses-archived-test", f"solutions={len(res)} archived={len(want)}"))
        return out


# ---------------------------------------------------------------- MIOPopulation
class PopulationMachine(Machine):
    """root = capacity the population is constructed with; one implicit goal g0."""

    name = "MIOPopulation"

    def new(self):
        from pynguin.ga.algorithms.archive import MIOPopulation
        return {"w": World(1), "a": MIOPopulation(self.root), "req": self.root}

    def stubs(self):
        p = self.params
        return [[[h], size, status] for h in p["hs"] for size in p["sizes"]
                for status in p["statuses"] if not (status == "excL" and size == 1)]

    def events(self, hist, snap):
        evs = [["add", s] for s in self.stubs()]
        evs += [["shrink", n] for n in self.params["caps"]]
        evs += [["sample", [i]] for i in range(max(1, len(snap["sols"])))]
        evs.append(["best"])
        return evs

    def apply(self, st, ev):
        from mc import rng
        from mc.explore import Chooser
        w, a = st["w"], st["a"]
        if ev[0] == "add":
            return a.add_solution(ev[1][0][0], w.stub(ev[1]))
        if ev[0] == "shrink":
            st["req"] = ev[1]
            return a.shrink_population(ev[1])
        if ev[0] == "sample":
            ch = Chooser(ev[1])
            with rng.installed(rng.ChoiceRNG(ch)):
                r = a.sample_solution()
            if ch.choices[:len(ev[1])] != list(ev[1])[:len(ch.choices)]:
                raise AssertionError("choice replay diverged")
            return r
        if ev[0] == "best":
            return a.get_best_solution_if_any()
        raise ValueError(ev)

    def snap(self, st):
        a = st["a"]
        return {"cap": a._capacity, "req": st["req"], "counter": a.counter,  # noqa: SLF001
                "covered": a.is_covered, "n": a.num_solutions,
                "sols": [(p.h, p.test_case_chromosome) for p in a._solutions]}  # noqa: SLF001

    def canon(self, s):
        return ("POP", self.root, s["cap"], s["counter"], s["covered"],
                tuple((h, c.script) for h, c in s["sols"]))

    def check(self, before, after, ev, res, st):
        out = _check_population(before, after, 0,
                                [st["w"].stub(ev[1])] if ev[0] == "add" else [], st["w"],
                                eff=lambda d: _key(d)[1])
        if ev[0] == "sample":
            members = [c for _, c in before["sols"]]
            if (res is None) != (not members) or (res is not None and not any(res is m for m in members)):
                out.append(("sample-not-a-member", f"sample_solution returned {res!r}"))
        if ev[0] == "best":
            if after["covered"] and (res is None or res is not after["sols"][0][1]):
                out.append(("best-solution-missing", "covered population returns no best solution"))
        return out


def _check_population(before, after, gi, batch, w, eff):
    """Statement checks for one MIO population (before/after snapshots of it)."""
    out = []
    g = w.goals[gi]
    if after["n"] > after["cap"] or len(after["sols"]) > after["cap"]:
        out.append(("over-capacity", f"g{gi}: {after['n']} solutions, capacity {after['cap']}"))
    elif after["n"] > after["req"]:
        out.append(("over-requested-capacity",
                    f"g{gi}: {after['n']} solutions, population size last requested {after['req']}"))
    if before["covered"] and not after["covered"]:
        out.append(("covered-target-uncovered", f"g{gi} was covered and is not any more"))
    if after["covered"]:
        if len(after["sols"]) != 1:
            out.append(("covered-target-solutions!=1", f"g{gi}: {len(after['sols'])} solutions"))
        else:
            h, c = after["sols"][0]
            if h != 1.0:
                out.append(("covered-target-h<1", f"g{gi}: h={h}"))
            if not c.get_is_covered(g) or not _covers(c.script, gi):
                out.append(("archived-not-covering", f"g{gi} archived with {c.script}"))
    if before["covered"] and after["covered"] and len(after["sols"]) == 1:
        old, new = before["sols"][0][1], after["sols"][0][1]
        if new is not old and not _same_test(old, new):
            cands = {(eff(b.script), _failing(b)) for b in batch if _covers(b.script, gi)}
            sig = judge((old.size(), _failing(old)), (new.size(), _failing(new)),
                        _covers(new.script, gi), cands)
            if sig:
                out.append((sig, f"g{gi}: archived {old.script} (size {old.size()}) replaced by "
                                 f"{new.script} (size {new.size()})"))
    return out


# ---------------------------------------------------------------- MIOArchive
class MIOArchiveMachine(Machine):
    """root = initial population size."""

    name = "MIOArchive"

    def new(self):
        from pynguin.ga.algorithms.archive import MIOArchive
        from pynguin.utils.orderedset import OrderedSet
        w = World(self.params["goals"])
        return {"w": w, "a": MIOArchive(OrderedSet(w.goals), self.root), "req": self.root}

    def stubs(self, pair=False):
        p = self.params
        hs = p["pair_hs"] if pair else p["hs"]
        sizes = p["pair_sizes"] if pair else p["sizes"]
        statuses = p["pair_statuses"] if pair else p["statuses"]
        return [[list(h), size, status] for h in itertools.product(hs, repeat=p["goals"])
                for size in sizes for status in statuses
                if not (status == "excL" and size == 1)]

    def events(self, hist, snap):
        p = self.params
        evs = [["update", [s]] for s in self.stubs()]
        evs += [["shrink", n] for n in p["caps"]]
        evs += [["get_solution", c] for c in self._solution_choices(hist)]
        evs.append(["solutions"])
        return evs

    def pair_events(self):
        return [["update", pr] for pr in _pairs(self.stubs(pair=True))]

    def _solution_choices(self, hist):
        """Every complete RNG answer vector of get_solution() in the state reached by hist."""
        from mc import rng
        from mc.explore import explore_deviations
        found = []

        def run(ch):
            st = self.build(hist)
            with rng.installed(rng.ChoiceRNG(ch)):
                st["a"].get_solution()
            return None

        explore_deviations(run, 99, lambda ch, _out: found.append(ch.choices))
        return found

    def apply(self, st, ev):
        from mc import rng
        from mc.explore import Chooser
        w, a = st["w"], st["a"]
        if ev[0] == "update":
            return a.update([w.stub(d) for d in ev[1]])
        if ev[0] == "shrink":
            st["req"] = ev[1]
            return a.shrink_solutions(ev[1])
        if ev[0] == "get_solution":
            ch = Chooser(ev[1])
            with rng.installed(rng.ChoiceRNG(ch)):
                r = a.get_solution()
            if len(ch.points) != len(ev[1]):
                raise AssertionError(f"choice replay diverged: {ch.points} vs {ev[1]}")
            return r
        if ev[0] == "solutions":
            return list(a.solutions)
        raise ValueError(ev)

    def snap(self, st):
        return _snap_mio(st["a"], st["req"], key=lambda g: g.idx)

    def canon(self, s):
        return ("MIO", self.root, tuple(
            (gi, p["cap"], p["counter"], p["covered"],
             tuple((h, c.script, c.size()) for h, c in p["sols"]))
            for gi, p in sorted(s["pops"].items())))

    def check(self, before, after, ev, res, st):
        out = []
        w = st["w"]
        batch = [w.stub(d) for d in ev[1]] if ev[0] == "update" else []
        for gi, pa in after["pops"].items():
            out += _check_population(before["pops"][gi], pa, gi, batch, w, eff=_eff_size_mio)
        ncov = sum(1 for p in after["pops"].values() if p["covered"])
        if after["num_covered"] != ncov:
            out.append(("num-covered-targets-wrong", f"{after['num_covered']} != {ncov}"))
        if ev[0] == "solutions":
            for gi, p in after["pops"].items():
                if p["covered"] and not any(x is p["sols"][0][1] for x in res):
                    out.append(("solutions-misses-archived-test", f"best test of g{gi} not in solutions"))
        if ev[0] == "get_solution":
            have = [c for p in before["pops"].values() for _, c in p["sols"]]
            if (res is None) != (not have):
                out.append(("get_solution-none-mismatch", f"returned {res!r}, archive holds {len(have)}"))
            if res is not None:
                if any(res is c or res.test_case is c.test_case for c in have):
                    out.append(("get_solution-aliases-archived-test",
                                "the returned chromosome / test case IS an archived object"))
                # the caller (MIOAlgorithm.evolve) mutates what it gets: the archive must not change
                sizes = [(c, c.size()) for c in have]
                res.test_case.chop(-1)
                res.changed = True
                if any(c.size() != n for c, n in sizes):
                    out.append(("get_solution-aliases-archived-test",
                                "mutating the returned chromosome changed an archived test"))
        return out


def _snap_mio(a, req, key):
    pops = {}
    for g, pop in a._archive.items():  # noqa: SLF001
        pops[key(g)] = {"cap": pop._capacity, "req": req, "counter": pop.counter,  # noqa: SLF001
                        "covered": pop.is_covered, "n": pop.num_solutions,
                        "sols": [(p.h, p.test_case_chromosome) for p in pop._solutions]}  # noqa: SLF001
    return {"pops": pops, "num_covered": a.num_covered_targets}


MACHINES = {"CoverageArchive": CoverageMachine, "MIOPopulation": PopulationMachine,
            "MIOArchive": MIOArchiveMachine}


# =====================================================================  BFS (sharded last level)
def shard_bfs(col, mname, root, params, depth, part, nparts):
    """Phase A: BFS over the single events to ``depth`` (or to the fixpoint); every shard
    repeats the levels below the last one (shard 0 counts them), the frontier of level
    ``depth - 1`` is split round-robin.  Phase B: the pair updates applied in every state of
    depth < ``pair_depth`` (states split round-robin); a pair successor outside the closure is
    explored further with all events (so the search stays sound if update([a, b]) ever
    differs from update([a]); update([b]))."""
    m = MACHINES[mname](col, root, params)
    lab = params.get("label", mname)
    s0 = m.snap(m.build([]))
    seen = {m.canon(s0): 0}
    col.distinct("states", m.canon(s0))
    states = [([], s0)]
    frontier = [([], s0)]

    def expand(hist, snap, evs, count, out):
        for ev in evs:
            r = m.transition(hist, ev, count=count)
            if r is None:
                continue
            k, after = r
            if count:
                col.distinct("outcomes", (mname, ev[0], _outcome_class(mname, after)))
            if k not in seen:
                seen[k] = len(hist) + 1
                col.distinct("states", k)
                out.append((hist + [ev], after))
                if count:
                    col.sample({"leg": "synthetic", "machine": mname, "root": root,
                                "history": hist + [ev]}, every=37)

    complete = False
    for level in range(depth):
        last = level == depth - 1
        nxt = []
        for i, (hist, snap) in enumerate(frontier):
            if last and i % nparts != part:
                continue
            expand(hist, snap, m.events(hist, snap), last or part == 0, nxt)
        if last:
            col.count(f"new_states_at_depth_cap_{lab}", len(nxt))
            break
        states += nxt
        frontier = nxt
        if not frontier:
            complete = True
            break
    pairs = m.pair_events()
    pair_depth = depth if complete else min(depth, params.get("pair_depth", depth))
    extra = []
    todo = [(h, sn) for (h, sn) in states if len(h) < pair_depth]
    for i, (hist, snap) in enumerate(todo):
        if i % nparts == part:
            expand(hist, snap, pairs, True, extra)
    # a pair successor that the single events did not reach within the bound: explore on
    col.count(f"pair_successors_outside_single_closure_{lab}", len(extra))
    while extra:
        hist, snap = extra.pop()
        if len(hist) < pair_depth:
            expand(hist, snap, m.events(hist, snap) + pairs, True, extra)
    if part == 0:
        col.note(f"bfs_depth_{lab}", max(seen.values()) if complete else depth)
        if complete:
            col.count(f"fixpoint_{lab}")
    for op in m.effects:
        col.distinct("ops_with_effect", f"{mname}.{op}")


def shard(col, kind, *args):
    (shard_bfs if kind == "bfs" else shard_real)(col, *args)


def _outcome_class(mname, snap):
    if mname == "CoverageArchive":
        return (len(snap["covered"]), tuple(sorted(c.script[1:] for c in snap["arch"].values())))
    if mname == "MIOPopulation":
        return (snap["covered"], snap["n"], snap["cap"])
    return tuple((p["covered"], p["n"], p["cap"]) for p in snap["pops"].values())


# =====================================================================  real leg
def _scratch():
    base = "/dev/shm" if os.path.isdir("/dev/shm") and os.access("/dev/shm", os.W_OK) else None
    return tempfile.mkdtemp(prefix="verif_c13_", dir=base)


REAL_CONFIG = {
    "small": {"MIO": {"iters": 6, "population": 2}, "MOSA": {"iters": 2, "population": 2},
              "DYNAMOSA": {"iters": 2, "population": 2}},
    "large": {"MIO": {"iters": 12, "population": 4}, "MOSA": {"iters": 4, "population": 4},
              "DYNAMOSA": {"iters": 4, "population": 4}},
}
MODULES = ["numeric", "raising", "shifting"]
ALGOS = ["MIO", "MOSA", "DYNAMOSA"]


def _real_jobs(tier):
    """(module, algo, config, deviation bound, bases, part, nparts) per shard."""
    jobs = []
    if tier == "quick":
        # base sweep (0 deviations) on every algorithm x module
        for module in MODULES:
            for algo in ALGOS:
                jobs.append((module, algo, "small", 0, list(range(12)), 0, 1))
        # complete deviation bound 1 around the neutral execution
        for module, algo, nparts in (("numeric", "MIO", 1), ("raising", "MIO", 1), ("shifting", "MIO", 2),
                                     ("raising", "MOSA", 2), ("raising", "DYNAMOSA", 2)):
            for part in range(nparts):
                jobs.append((module, algo, "small", 1, [0], part, nparts))
        return jobs
    for module in MODULES:
        for algo in ALGOS:
            jobs.append((module, algo, "large", 0, list(range(0, 32)), 0, 1))
            for base in ((0, 1, 2) if algo == "MIO" else (0, 1)):
                nparts = 2 if algo == "MIO" else 4
                for part in range(nparts):
                    jobs.append((module, algo, "small", 1, [base], part, nparts))
    return jobs


def base_offsets(base):
    """The fixed answer stream of base execution ``base`` (data, not sampled at run time):
    a 32-bit LCG seeded with the base number; draw k is rotated by ``(x_k >> 16) % menu``.
    Base 0 is the neutral execution (every rotation 0)."""
    x = (base * 2654435761 + 12345) & 0xFFFFFFFF
    while True:
        x = (x * 1664525 + 1013904223) & 0xFFFFFFFF
        yield 0 if base == 0 else x >> 16


def based_rng(chooser, base):
    """ChoiceRNG whose default answer at draw k is menu[offset_k % n] instead of menu[0].

    "0 deviations" is then the fixed base execution ``base`` and a deviation is still exactly
    one explorer-chosen answer; the explored set is every answer sequence within <= d
    deviations of one of the base sequences."""
    from mc import rng

    class BasedRNG(rng.ChoiceRNG):
        def __init__(self, ch):
            super().__init__(ch, ())
            self._offsets = base_offsets(base)

        def _pick(self, kind, menu):
            self.draws += 1
            off = next(self._offsets)
            return menu[(self._ch.choose(kind, len(menu)) + off) % len(menu)]

    return BasedRNG(chooser)


class RealRun:
    """One corpus module loaded once; ``run(chooser)`` = one complete search under the seam."""

    def __init__(self, module, algo, cfg, scratch):
        import pynguin.configuration as config
        from mc import pyn, tcenum
        self.module, self.algo, self.cfg = module, algo, cfg
        self._configure()
        pyn.clear_caches()
        self.sut = pyn.Sut(tcenum.corpus_source(module), scratch, name=f"c13_{module}",
                           coverage=("BRANCH",))
        self.sut.__enter__()
        self.cluster = self.sut.cluster()
        self.config = config

    def _configure(self):
        import pynguin.configuration as config
        from mc import pyn
        pyn.reset_config(algorithm=getattr(config.Algorithm, self.algo))
        c = config.configuration
        c.stopping.maximum_iterations = self.cfg["iters"]
        c.stopping.maximum_search_time = -1
        c.search_algorithm.population = self.cfg["population"]
        c.search_algorithm.min_initial_tests = 1
        c.search_algorithm.max_initial_tests = 1
        c.search_algorithm.chromosome_length = self.cfg.get("chromosome_length", 5)
        c.statistics_output.coverage_metrics = [config.CoverageMetric.BRANCH]
        c.local_search.local_search = False

    def close(self):
        self.sut.__exit__(None, None, None)

    def run(self, ch, base=0):
        """One complete search; returns the Probe (problems, digest of the run)."""
        import pynguin.ga.generationalgorithmfactory as gaf
        from mc import rng
        from pynguin.testcase.execution import TestCaseExecutor

        self.config.configuration.module_name = self.sut.name
        executor = TestCaseExecutor(self.sut.props)
        probe = Probe(self, TestCaseExecutor(self.sut.props))
        r = based_rng(ch, base)
        with rng.installed(r):
            algo = gaf.TestSuiteGenerationAlgorithmFactory(executor, self.cluster).get_search_algorithm()
            probe.attach(algo)
            try:
                algo.generate_tests()
            except Exception as exc:  # noqa: BLE001
                import traceback
                tb = traceback.extract_tb(exc.__traceback__)
                where = next((f.name for f in reversed(tb) if "/pynguin/" in f.filename), "?")
                probe.problems.append(("search", f"raises:{type(exc).__name__}@{where}", repr(exc)[:300]))
        return probe


class Probe:
    """Search observer + archive wrapper applying the statement to a real search run."""

    def __init__(self, rr, fresh_executor):
        self.rr = rr
        self.fresh = fresh_executor
        self.problems = []
        self.iterations = 0
        self.reexecutions = 0
        self.archive_ops = 0
        self.replacements = 0
        self.last_covered = None
        self.digest = []

    # ---- plumbing
    def attach(self, algo):
        import pynguin.ga.searchobserver as so
        from pynguin.ga.algorithms.archive import MIOArchive
        probe = self
        self.algo = algo
        self.archive = algo.archive
        self.is_mio = isinstance(self.archive, MIOArchive)
        self.req = None
        if self.is_mio:
            self.req = self.rr.config.configuration.mio.initial_config.number_of_tests_per_target

        class Obs(so.SearchObserver):
            def before_search_start(self, start_time_ns):
                pass

            def before_first_search_iteration(self, initial):
                probe.iteration_end("first")

            def after_search_iteration(self, best):
                probe.iterations += 1
                probe.iteration_end("iteration")

            def after_search_finish(self):
                probe.iteration_end("finish")

        algo.add_search_observer(Obs())
        a = self.archive
        for name in ("update", "add_goals", "shrink_solutions"):
            if hasattr(a, name):
                setattr(a, name, self._wrap(name, getattr(a, name)))

    def _wrap(self, name, fn):
        def wrapper(*args, **kw):
            before = self.snap()
            if name == "shrink_solutions":
                self.req = args[0]
            batch = list(args[0]) if name == "update" else []
            if name == "update":
                args = (batch,) + tuple(args[1:])
            res = fn(*args, **kw)
            self.archive_ops += 1
            self.check(name, before, self.snap(), batch)
            return res
        return wrapper

    def problem(self, site, sig, text):
        self.problems.append((site, sig, text))

    # ---- snapshots
    def snap(self):
        a = self.archive
        if self.is_mio:
            return _snap_mio(a, self.req, key=lambda g: g)
        return {"covered": list(a.covered_goals), "uncovered": list(a.uncovered_goals),
                "arch": dict(a._covered)}  # noqa: SLF001

    def covered_map(self):
        """goal -> archived chromosome for every goal recorded as covered."""
        a = self.archive
        if self.is_mio:
            return {g: pop._solutions[0].test_case_chromosome  # noqa: SLF001
                    for g, pop in a._archive.items() if pop.is_covered and pop._solutions}  # noqa: SLF001
        return dict(a._covered)  # noqa: SLF001

    # ---- transition oracle on every real archive operation
    def check(self, op, before, after, batch):
        if self.is_mio:
            for g, pa in after["pops"].items():
                pb = before["pops"][g]
                for sig, what in self._check_real_pop(pb, pa, g, batch):
                    self.problem(op, sig, what)
            return
        lost = [g for g in before["covered"] if g not in after["covered"] or g in after["uncovered"]]
        if lost:
            self.problem(op, "covered-goal-lost", f"{lost}")
        for g, c in after["arch"].items():
            if not c.get_is_covered(g):
                self.problem(op, "archived-not-covering", f"{g}")
        for g, old in before["arch"].items():
            new = after["arch"].get(g)
            if new is None or new is old or _same_test(old, new):
                continue
            self.replacements += 1
            cands = {(b.size(), _failing(b)) for b in batch if b.get_is_covered(g)}
            sig = judge((old.size(), _failing(old)), (new.size(), _failing(new)),
                        new.get_is_covered(g), cands)
            if sig:
                self.problem(op, sig, f"{g}: size {old.size()} failing={_failing(old)} -> "
                                      f"size {new.size()} failing={_failing(new)}")

    def _check_real_pop(self, pb, pa, g, batch):
        out = []
        if pa["n"] > pa["cap"]:
            out.append(("over-capacity", f"{g}: {pa['n']} > {pa['cap']}"))
        elif pa["req"] is not None and pa["n"] > pa["req"]:
            out.append(("over-requested-capacity", f"{g}: {pa['n']} > {pa['req']}"))
        if pb["covered"] and not pa["covered"]:
            out.append(("covered-target-uncovered", f"{g}"))
        if pa["covered"]:
            if len(pa["sols"]) != 1:
                out.append(("covered-target-solutions!=1", f"{g}: {len(pa['sols'])}"))
            elif pa["sols"][0][0] != 1.0:
                out.append(("covered-target-h<1", f"{g}: {pa['sols'][0][0]}"))
        if pb["covered"] and pa["covered"] and len(pa["sols"]) == 1 and len(pb["sols"]) == 1:
            old, new = pb["sols"][0][1], pa["sols"][0][1]
            if new is not old and not _same_test(old, new):
                self.replacements += 1
                # MIOArchive.update stores a (chopped) clone of the batch member: the clone
                # itself is the candidate (asking the caller's object would execute it)
                newd = (new.size(), _failing(new))
                sig = judge((old.size(), _failing(old)), newd, new.get_fitness_for(g) == 0.0, {newd})
                if sig:
                    out.append((sig, f"{g}: size {old.size()} failing={_failing(old)} -> "
                                     f"size {new.size()} failing={_failing(new)}"))
        return out

    # ---- after every iteration: monotone growth + re-execution
    def iteration_end(self, kind):
        import pynguin.ga.testcasechromosome as tcc
        cm = self.covered_map()
        cur = list(cm)
        if self.last_covered is not None:
            lost = [g for g in self.last_covered if g not in cm]
            if lost:
                self.problem("iteration", "covered-goal-lost",
                             f"after iteration {self.iterations}: {lost}")
        self.last_covered = cur
        try:
            list(self.archive.solutions)
        except AssertionError as exc:
            self.problem("iteration", "solutions-raises:AssertionError", repr(exc)[:200])
        cache = {}
        for g, c in cm.items():
            code = c.test_case.to_code()
            res = cache.get(code)
            if res is None:
                res = cache[code] = self.fresh.execute(c.test_case.clone())
                self.reexecutions += 1
            fresh = tcc.TestCaseChromosome(test_case=c.test_case.clone())
            fresh.set_last_execution_result(res)
            fresh.changed = False
            if not g.compute_is_covered(fresh):
                self.problem("iteration", "archived-not-covering-on-reexecution",
                             f"after iteration {self.iterations}: {g} archived with\n{code}")
        self.digest.append((kind, self.iterations, sorted(str(g) for g in cur),
                            sorted((str(g), c.size(), _failing(c)) for g, c in cm.items())))


def shard_real(col, module, algo, cfgname, bound, bases, part, nparts):
    """Every execution with <= ``bound`` deviations from each base execution in ``bases``
    (first-level subtrees split round-robin over ``nparts`` shards)."""
    from mc.ctx import HarnessError
    from mc.explore import Chooser, explore_deviations

    scratch = _scratch()
    rr = None
    try:
        rr = RealRun(module, algo, REAL_CONFIG[cfgname][algo], scratch)
        for nbase, base in enumerate(bases):
            def run(ch, base=base):
                rr._configure()  # noqa: SLF001
                return rr.run(ch, base)

            c1 = Chooser()
            p1 = run(c1)
            if nbase == 0:      # determinism gate: the first execution twice
                c2 = Chooser()
                p2 = run(c2)
                if c1.points != c2.points or p1.digest != p2.digest:
                    raise HarnessError(f"real leg not deterministic for {algo}/{module}/base {base}")
            kinds = [(k, n) for (k, n, _) in c1.points]
            roots = [([0] * i + [alt], kinds[: i + 1])
                     for i, (k, n, _) in enumerate(c1.points) for alt in range(1, n)]

            def on_exec(ch, probe, base=base):
                col.count("real_executions")
                col.count("traces_validated_against_impl")
                col.count("real_iterations", probe.iterations)
                col.count("real_reexecutions", probe.reexecutions)
                col.count("real_archive_ops", probe.archive_ops)
                col.count("transitions", probe.archive_ops)
                col.count("real_replacements", probe.replacements)
                col.count(f"real_executions_{algo}")
                final = probe.digest[-1] if probe.digest else ()
                col.distinct("real_outcomes", (algo, module, repr(final)))
                col.distinct("states", ("real", algo, module, repr(probe.digest)))
                grow = [len(d[2]) for d in probe.digest]
                if len(set(grow)) > 1:
                    col.count("real_runs_where_coverage_grew")
                    col.count(f"real_runs_where_coverage_grew_{algo}")
                trimmed = _trim(ch.choices)
                col.sample({"leg": "real", "algorithm": algo, "module": module, "config": cfgname,
                            "base": base, "choices": trimmed, "covered_per_iteration": grow},
                           every=101)
                for site, sig, text in probe.problems:
                    col.violation(f"C13|real:{algo}|{site}|{sig}",
                                  f"{algo} on corpus/{module}.py (config {cfgname}, base {base}, "
                                  f"{ch.deviations} deviation(s)): {text}",
                                  {"leg": "real", "algorithm": algo, "module": module,
                                   "config": cfgname, "base": base, "choices": trimmed},
                                  rank=ch.deviations * 10 ** 6 + base * 10 ** 4 + len(trimmed))

            if part == 0:
                on_exec(c1, p1)
                col.note(f"real_first_level_subtrees_{algo}_{module}_{cfgname}_base{base}", len(roots))
            if bound >= 1:
                explore_deviations(run, bound, on_exec, roots=roots[part::nparts])
    finally:
        if rr is not None:
            rr.close()
        shutil.rmtree(scratch, ignore_errors=True)


def _trim(choices):
    c = list(choices)
    while c and c[-1] == 0:
        c.pop()
    return c


# =====================================================================  entry points
def _params(tier):
    """The synthetic exploration plan: label -> machine, roots, alphabet, depth, shards."""
    q = tier == "quick"
    statuses_cov = ["ok", "exc0"] if q else ["ok", "exc0", "to"]
    statuses_mio = ["ok", "exc0", "excL"] if q else ["ok", "exc0", "excL", "to"]
    pair_alpha = {"pair_hs": [0.5, 1.0], "pair_sizes": [1, 2], "pair_statuses": ["ok", "exc0"]}
    plan = {
        "CoverageArchive": {
            "machine": "CoverageArchive", "roots": [[], [0, 1]] if q else [[], [0], [0, 1]],
            "params": {"goals": 2, "sizes": [1, 2, 3], "statuses": statuses_cov},
            "depth": 8, "parts": 2 if q else 4},
        "MIOPopulation": {
            "machine": "MIOPopulation", "roots": [1, 2, 3],
            "params": {"hs": [0.0, 0.5, 1.0] if q else [0.0, 0.25, 0.5, 1.0], "sizes": [1, 2, 3],
                       "statuses": statuses_mio, "caps": [1, 2, 3]},
            "depth": 4 if q else 5, "parts": 1 if q else 4},
        "MIOArchive": {
            "machine": "MIOArchive", "roots": [1, 2] if q else [1, 2, 3],
            "params": {"goals": 2, "hs": [0.0, 0.5, 1.0], "sizes": [1, 2, 3], "statuses": statuses_mio,
                       "caps": [1, 2] if q else [1, 2, 3], **pair_alpha,
                       "pair_depth": 2 if q else 3},
            "depth": 3, "parts": 5 if q else 12},
    }
    if not q:
        plan["CoverageArchive/3goals"] = {
            "machine": "CoverageArchive", "roots": [[]],
            "params": {"goals": 3, "sizes": [1, 2], "statuses": ["ok", "exc0"], "pairs": False},
            "depth": 10, "parts": 1}
        plan["MIOArchive/depth4"] = {
            "machine": "MIOArchive", "roots": [2],
            "params": {"goals": 2, "hs": [0.0, 0.5, 1.0], "sizes": [1, 2],
                       "statuses": ["ok", "exc0"], "caps": [1, 2], **pair_alpha,
                       "pair_depth": 0},
            "depth": 4, "parts": 6}
    for label, spec in plan.items():
        spec["params"]["label"] = label
    return plan


def run(ctx):
    from mc import par, rng

    P = _params(ctx.tier)
    jobs = []
    for spec in P.values():
        for root in spec["roots"]:
            for part in range(spec["parts"]):
                jobs.append((spec["machine"], root, spec["params"], spec["depth"], part, spec["parts"]))
    rjobs = _real_jobs(ctx.tier)
    # one pool; the long MIOArchive / deviation-bound-1 shards first
    alljobs = ([("bfs",) + j for j in jobs if j[0] == "MIOArchive"]
               + [("real",) + j for j in rjobs if j[3] >= 1]
               + [("bfs",) + j for j in jobs if j[0] != "MIOArchive"]
               + [("real",) + j for j in rjobs if j[3] < 1])
    par.run_shards("props.c13_archive:shard", alljobs, ctx.workers, ctx)

    c = ctx.col.counters
    sets = ctx.col.sets
    ctx.note("synthetic", {k: {"roots": v["roots"], "depth": v["depth"], **v["params"]} for k, v in P.items()})
    ctx.note("real", {"modules": MODULES, "algorithms": ALGOS, "configs": REAL_CONFIG,
                      "coverage": "BRANCH", "base_stream": base_offsets.__doc__,
                      "jobs": sorted({(j[2], j[3], tuple(j[4])) for j in rjobs})})
    ctx.note("rng_menus", rng.MENUS)
    fix = sorted(k for k, v in P.items() if c.get(f"fixpoint_{k}", 0) == len(v["roots"]))
    ctx.note("machines_explored_to_fixpoint", fix)
    ctx.note("machines_depth_bounded", {k: v["depth"] for k, v in P.items() if k not in fix})
    ctx.exhaustive = True
    ctx.rule = ("synthetic: BFS over canonical archive states (per goal: capacity, counter, archived "
                "(h, script, size)) of the real CoverageArchive / MIOPopulation / MIOArchive, every event "
                "of the alphabet in every state up to the stated depth, RNG answers of get/sample "
                "enumerated; real: every execution of the real DYNAMOSA / MOSA / MIO search on two "
                "corpus modules within the stated deviation bound (0 or 1 explorer-chosen RNG answers) "
                "of the stated fixed base answer sequences, every archive operation checked, every "
                "archived test re-executed after every iteration")
    ctx.assume("synthetic stubs: fitness / is-covered verdicts are scripted (consistent: covered iff "
               "fitness 0); sizes 1..3; failing = exception at first/last statement or timeout")
    ctx.assume("real leg: corpus modules are deterministic; re-execution uses a second TestCaseExecutor "
               "on the same instrumented module")
    ctx.assume("replacement inside update([s1, s2]) is accepted when a chain of individually justified "
               "replacements through the batch explains it")
    # vacuity guards
    want_ops = {"CoverageArchive.update", "CoverageArchive.add_goals", "MIOPopulation.add",
                "MIOPopulation.shrink", "MIOPopulation.sample", "MIOArchive.update",
                "MIOArchive.shrink", "MIOArchive.get_solution"}
    have = set(sets.get("ops_with_effect", ())) & want_ops
    ctx.require(want_ops <= have, f"vacuous: operations without effect: {sorted(want_ops - have)}")
    ctx.require(len(sets.get("outcomes", ())) > 20, "vacuous: too few distinct synthetic outcomes")
    ctx.require(len(sets.get("states", ())) > 200, "vacuous: too few states")
    ctx.require(c.get("real_executions", 0) >= 6 and c.get("real_reexecutions", 0) > 0,
                "vacuous: real leg did not run / re-executed nothing")
    ctx.require(len(sets.get("real_outcomes", ())) > 3, "vacuous: real leg saw a single outcome")
    ctx.require(c.get("real_runs_where_coverage_grew", 0) > 0,
                "vacuous: no real run where the covered set grew between iterations")
    for algo in ("MIO", "MOSA", "DYNAMOSA"):
        ctx.require(c.get(f"real_executions_{algo}", 0) > 0, f"vacuous: no real {algo} execution")


def replay(ctx, data):
    if data.get("leg") == "real":
        from mc.explore import Chooser
        scratch = ctx.scratch()
        rr = RealRun(data["module"], data["algorithm"],
                     REAL_CONFIG[data.get("config", "small")][data["algorithm"]], scratch)
        try:
            rr._configure()  # noqa: SLF001
            ch = Chooser(data["choices"])
            probe = rr.run(ch, data.get("base", 0))
            for site, sig, text in probe.problems:
                ctx.violation(f"C13|real:{data['algorithm']}|{site}|{sig}", text, data)
        finally:
            rr.close()
        return
    root = data["root"]
    m = MACHINES[data["machine"]](ctx.col, root, data["params"])
    hist = data["history"]
    m.transition(hist[:-1], hist[-1])
