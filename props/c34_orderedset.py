"""C34 — ordered sets behave as insertion-ordered sets and sequences.

Explicit-state search (E1) over the real ``OrderedSet`` / ``FrozenOrderedSet`` /
``OrderedTypeSet``: the reachable state space over a k-element alphabet is the
set of all ordered arrangements of subsets; it is enumerated completely by BFS
(a state is the history that reaches it, replayed on a fresh object). Every
mutator is applied in every state with the argument ranging over every ordered
sub-sequence of the alphabet (plus two sequences with duplicates) presented in
8 iterable forms, among them one-shot iterators and generators. After every
transition, and for every query in every state, the real object is compared
with a boring reference model (a Python list kept duplicate-free).
"""

from __future__ import annotations

import copy
import itertools

ID = "C34"
LEVEL = "model_checking"


def _load():
    from pynguin.utils.orderedset import FrozenOrderedSet, OrderedSet, OrderedTypeSet
    return OrderedSet, FrozenOrderedSet, OrderedTypeSet


# ---------------------------------------------------------------- reference
def dedupe(seq):
    out = []
    for x in seq:
        if x not in out:
            out.append(x)
    return out


class Raises:
    def __init__(self, exc):
        self.exc = exc

    def __eq__(self, other):
        return isinstance(other, Raises) and other.exc == self.exc

    def __repr__(self):
        return f"raises:{self.exc}"


def ref_mutate(s: list, op: str, args):
    """Return the new reference list, or Raises."""
    s = list(s)
    if op == "add":
        return s if args[0] in s else s + [args[0]]
    if op == "discard":
        return [x for x in s if x != args[0]]
    if op == "remove":
        return [x for x in s if x != args[0]] if args[0] in s else Raises("KeyError")
    if op == "pop":
        return "pop" if s else Raises("KeyError")
    if op == "clear":
        return []
    a = args[0]
    if op in ("update", "ior"):
        return dedupe(s + list(a))
    if op in ("difference_update", "isub"):
        rem = list(itertools.chain.from_iterable(args))
        return [x for x in s if x not in rem]
    if op in ("intersection_update", "iand"):
        return [x for x in s if x in a]
    if op in ("symmetric_difference_update", "ixor"):
        return [x for x in s if x not in a] + [x for x in dedupe(a) if x not in s]
    raise AssertionError(op)


def ref_query(s: list, q: str, args):
    if q == "len":
        return len(s)
    if q == "contains":
        return args[0] in s
    if q == "iter":
        return list(s)
    if q == "reversed":
        return list(reversed(s))
    if q == "getitem":
        try:
            return s[args[0]]
        except IndexError:
            return Raises("IndexError")
    if q == "index":
        try:
            return s.index(args[0])
        except ValueError:
            return Raises("ValueError")
    if q == "count":
        return s.count(args[0])
    if q == "bool":
        return bool(s)
    a = args[0] if args else None
    if q == "union":
        return dedupe(s + list(itertools.chain.from_iterable(args)))
    if q == "intersection":
        return [x for x in s if all(x in o for o in args)]
    if q == "difference":
        return [x for x in s if all(x not in o for o in args)]
    if q == "symmetric_difference":
        return [x for x in s if x not in a] + [x for x in dedupe(a) if x not in s]
    if q == "issubset":
        return all(x in a for x in s)
    if q == "issuperset":
        return all(x in s for x in a)
    if q == "isdisjoint":
        return not any(x in s for x in a)
    if q in ("le", "lt", "ge", "gt"):
        ss, aa = set(s), set(a)
        return {"le": ss <= aa, "lt": ss < aa, "ge": ss >= aa, "gt": ss > aa}[q]
    if q == "eq_same_order":
        return True
    raise AssertionError(q)


# ---------------------------------------------------------------- forms
def forms(OrderedSet, FrozenOrderedSet):
    return {
        "list": list,
        "tuple": tuple,
        "set": set,
        "oset": OrderedSet,
        "foset": FrozenOrderedSet,
        "dictkeys": lambda s: dict.fromkeys(s).keys(),
        "iter": lambda s: iter(list(s)),
        "gen": lambda s: (x for x in list(s)),
    }


SETLIKE = ("set", "oset", "foset", "dictkeys")
ONESHOT = ("iter", "gen")

# arguments that are (lazy) views of the RECEIVER itself: s.difference_update(x for x in s if ...), s |= s
SELF_FORMS = {
    "self": lambda obj: obj,
    "self-iter": iter,
    "self-gen": lambda obj: (x for x in obj),
    "self-filter": lambda obj: filter(lambda x: True, obj),
}


def arg_sequences(alphabet):
    seqs = []
    for r in range(len(alphabet) + 1):
        for perm in itertools.permutations(alphabet, r):
            seqs.append(list(perm))
    seqs.append([alphabet[0], alphabet[0]])
    seqs.append([alphabet[1], alphabet[0], alphabet[1]])
    return seqs


MUT_ELEM = ("add", "discard", "remove")
MUT_NONE = ("pop", "clear")
MUT_ITER = ("update", "difference_update", "intersection_update", "symmetric_difference_update")
MUT_OP = ("ior", "iand", "isub", "ixor")
Q_ITER = ("union", "intersection", "difference", "symmetric_difference", "issubset",
          "issuperset", "isdisjoint")
Q_OP = ("or", "and", "sub", "xor", "le", "lt", "ge", "gt")
OP2Q = {"or": "union", "and": "intersection", "sub": "difference", "xor": "symmetric_difference"}


def apply_mut(obj, op, args):
    if op == "ior":
        obj |= args[0]
    elif op == "iand":
        obj &= args[0]
    elif op == "isub":
        obj -= args[0]
    elif op == "ixor":
        obj ^= args[0]
    else:
        return getattr(obj, op)(*args)
    return None


def apply_q(obj, q, args):
    if q == "len":
        return len(obj)
    if q == "contains":
        return args[0] in obj
    if q == "iter":
        return list(iter(obj))
    if q == "reversed":
        return list(reversed(obj))
    if q == "getitem":
        return obj[args[0]]
    if q == "bool":
        return bool(obj)
    if q == "or":
        return obj | args[0]
    if q == "and":
        return obj & args[0]
    if q == "sub":
        return obj - args[0]
    if q == "xor":
        return obj ^ args[0]
    if q == "le":
        return obj <= args[0]
    if q == "lt":
        return obj < args[0]
    if q == "ge":
        return obj >= args[0]
    if q == "gt":
        return obj > args[0]
    return getattr(obj, q)(*args)


def _touch(obj):
    for probe in (lambda: obj[0], lambda: obj[-1], lambda: len(obj), lambda: list(obj),
                  lambda: 0 in obj, lambda: list(reversed(obj))):
        try:
            probe()
        except Exception:  # noqa: BLE001
            pass


def call(fn, *a):
    try:
        return fn(*a)
    except Exception as exc:  # noqa: BLE001
        return Raises(type(exc).__name__)


def index_class(i, n):
    if i < -n:
        return "index<-len"
    if i < 0:
        return "index<0"
    if i >= n:
        return "index>=len"
    return "index-in-range"


# ---------------------------------------------------------------- machine
class Machine:
    """Drives one set class (mutable or frozen) against the reference."""

    def __init__(self, ctx, cls, clsname, alphabet, mutable, OrderedSet, FrozenOrderedSet, form_names):
        self.ctx, self.cls, self.clsname = ctx, cls, clsname
        self.alphabet, self.mutable = alphabet, mutable
        self.forms = {k: v for k, v in forms(OrderedSet, FrozenOrderedSet).items() if k in form_names}
        self.seqs = arg_sequences(alphabet)
        self.elems = list(alphabet) + ["absent"]
        self.outcomes = set()

    # a history is a list of events; an event is (op, form, seqs...) with plain data
    def build(self, hist):
        obj, ref = self.cls(), []
        for ev in hist:
            op, form, raw = ev
            if form in SELF_FORMS:
                args = (SELF_FORMS[form](obj),)
                refargs = (list(ref),)
            else:
                args = self.make_args(form, raw)
                refargs = self.ref_args(form, raw)
            r = ref_mutate(ref, op, refargs)
            got = call(apply_mut, obj, op, args)
            if r == "pop":
                if isinstance(got, Raises) or got not in ref:
                    return obj, ref, ("pop", got)
                ref = [x for x in ref if x != got]
            elif isinstance(r, Raises):
                if got != r:
                    return obj, ref, (r, got)
            else:
                if isinstance(got, Raises):
                    return obj, ref, (r, got)
                ref = r
            # reads between the mutations, on the SAME object: a read must not leave anything
            # behind (e.g. a cached positional index) that a later mutation forgets to invalidate
            _touch(obj)
        return obj, ref, None

    def make_args(self, form, raw):
        if form is None:
            return tuple(raw)
        return tuple(self.forms[form](s) for s in raw)

    def ref_args(self, form, raw):
        if form is None:
            return tuple(raw)
        # iteration order of the concrete argument (matters for plain ``set``)
        return tuple(list(self.forms[form](s)) for s in raw)

    def events(self):
        evs = []
        for op in MUT_ELEM:
            for x in self.elems:
                evs.append((op, None, [x]))
        for op in MUT_NONE:
            evs.append((op, None, []))
        for op in MUT_ITER:
            for form in self.forms:
                for s in self.seqs:
                    evs.append((op, form, [s]))
        for s2 in ([], [self.alphabet[0]], [self.alphabet[-1], self.alphabet[1]]):
            for form in self.forms:
                for s in self.seqs[:6]:
                    evs.append(("difference_update", form, [s, s2]))
        for op in MUT_OP:
            for form in self.forms:
                for s in self.seqs:
                    evs.append((op, form, [s]))
        for op in MUT_ITER:
            for form in SELF_FORMS:
                evs.append((op, form, []))
        for op in MUT_OP:
            evs.append((op, "self", []))
        return evs

    def fp(self, op, form, sig):
        return f"C34|{self.clsname}|{op}|{form or '-'}|{sig}"

    def check_state(self, hist):
        """Replay hist, compare state, return (canon, obj, ref) or None if the last step violated."""
        obj, ref, bad = self.build(hist)
        ctx = self.ctx
        if bad is not None:
            op, form, raw = hist[-1]
            exp, got = bad
            sig = f"{got!r}" if isinstance(got, Raises) else "wrong-return"
            ctx.violation(self.fp(op, form, sig),
                          f"{self.clsname}.{op} with {form} argument {raw}: expected {exp!r}, got {got!r}",
                          {"machine": self.clsname, "alphabet": self.alphabet, "history": hist},
                          rank=len(hist))
            return None
        got = call(list, obj)
        if got == ref and hist:
            # positional view of the same (already read-from) object must agree with iteration
            n = len(ref)
            pos = [call(obj.__getitem__, i) for i in range(-n, n)] + [call(obj.__getitem__, n)]
            want = [ref[i] for i in range(-n, n)] + [Raises("IndexError")]
            if pos != want:
                op, form, raw = hist[-1]
                self.ctx.violation(self.fp(op, form, "stale-positional-view"),
                                   f"{self.clsname}: after {hist} iteration gives {ref} but indexing gives {pos}",
                                   {"machine": self.clsname, "alphabet": self.alphabet, "history": hist},
                                   rank=len(hist))
                return None
        if got != ref:
            op, form, raw = hist[-1]
            sig = "wrong-elements" if isinstance(got, Raises) or set(got) != set(ref) else "wrong-order"
            ctx.violation(self.fp(op, form, sig),
                          f"{self.clsname}.{op} with {form} argument {raw}: state {got!r}, reference {ref!r}",
                          {"machine": self.clsname, "alphabet": self.alphabet, "history": hist},
                          rank=len(hist))
            return None
        return tuple(ref), obj, ref

    def queries(self, hist, ref):
        """All queries in the state reached by hist (object rebuilt per query: one-shot safety)."""
        ctx = self.ctx
        n = len(ref)

        def fresh():
            return self.build(hist)[0] if self.mutable else self.cls(ref)

        def one(q, form, raw, label=None):
            obj = fresh()
            args = self.make_args(form, raw)
            refargs = self.ref_args(form, raw)
            exp = ref_query(ref, OP2Q.get(q, q), refargs)
            got = call(apply_q, obj, q, args)
            ctx.count("transitions")
            ctx.count("queries")
            if isinstance(got, self_types) and not isinstance(got, Raises):
                gotv = list(got)
            else:
                gotv = got
            self.outcomes.add((q, repr(gotv)))
            if gotv != exp:
                if isinstance(gotv, Raises):
                    sig = repr(gotv)
                elif isinstance(exp, list) and isinstance(gotv, list) and set(map(repr, exp)) == set(map(repr, gotv)):
                    sig = "wrong-order"
                else:
                    sig = "wrong-result"
                ctx.violation(self.fp(q, label or form, sig),
                              f"{self.clsname}({ref}).{q}({form}:{raw}) expected {exp!r}, got {gotv!r}",
                              {"machine": self.clsname, "alphabet": self.alphabet, "history": hist,
                               "query": [q, form, raw]}, rank=len(hist))
            # state must be unchanged by a query
            after = call(list, obj)
            if after != ref:
                ctx.violation(self.fp(q, label or form, "query-mutates-state"),
                              f"{self.clsname}({ref}).{q}({form}:{raw}) changed the set to {after!r}",
                              {"machine": self.clsname, "alphabet": self.alphabet, "history": hist,
                               "query": [q, form, raw]}, rank=len(hist))

        OrderedSet, FrozenOrderedSet, _ = _load()
        self_types = (OrderedSet, FrozenOrderedSet)
        for q in ("len", "iter", "reversed", "bool"):
            one(q, None, [])
        for x in self.elems:
            for q in ("contains", "index", "count"):
                one(q, None, [x])
        for i in range(-n - 1, n + 1):
            one("getitem", None, [i], label=index_class(i, n))
        for q in Q_ITER:
            for form in self.forms:
                for s in self.seqs:
                    one(q, form, [s])
        for q in ("union", "intersection", "difference"):
            for form in self.forms:
                for s in self.seqs[:6]:
                    one(q, form, [s, [self.alphabet[-1], self.alphabet[0]]])
        for q in Q_OP:
            for form in self.forms:
                if q in ("le", "lt", "ge", "gt") and form not in SETLIKE:
                    continue  # Python defines set comparisons between sets only
                for s in self.seqs:
                    one(q, form, [s])
        # copy / freeze / equality / hash
        obj = fresh()
        ctx.count("queries", 4)
        ctx.count("transitions", 4)
        c = copy.copy(obj)
        if list(c) != ref or type(c) is not type(obj) or not (c == obj) or (c != obj):
            ctx.violation(self.fp("copy", None, "wrong-result"), f"copy of {ref} -> {list(c)}",
                          {"machine": self.clsname, "alphabet": self.alphabet, "history": hist,
                           "query": ["copy", None, []]}, rank=len(hist))
        if self.mutable:
            c.add("zz")
            if list(obj) != ref:
                ctx.violation(self.fp("copy", None, "aliased"), "copy shares state",
                              {"machine": self.clsname, "alphabet": self.alphabet, "history": hist,
                               "query": ["copy", None, []]}, rank=len(hist))
            fz = obj.freeze()
            if list(fz) != ref or hash(fz) != hash(FrozenOrderedSet(ref)):
                ctx.violation(self.fp("freeze", None, "wrong-result"), f"freeze of {ref}",
                              {"machine": self.clsname, "alphabet": self.alphabet, "history": hist,
                               "query": ["freeze", None, []]}, rank=len(hist))
        else:
            if hash(obj) != hash(self.cls(ref)) or hash(obj) != hash(obj):
                ctx.violation(self.fp("hash", None, "unstable"), f"hash of {ref}",
                              {"machine": self.clsname, "alphabet": self.alphabet, "history": hist,
                               "query": ["hash", None, []]}, rank=len(hist))

    def explore(self):
        ctx = self.ctx
        import collections
        seen = {}
        frontier = collections.deque([[]])
        seen[()] = []
        ctx.distinct("states", (self.clsname, ()))
        evs = self.events() if self.mutable else []
        if not self.mutable:
            # frozen: states are constructed directly, one per arrangement
            for s in arg_sequences(self.alphabet)[:-2]:
                ctx.distinct("states", (self.clsname, tuple(s)))
                self.queries([], s)
            return
        while frontier:
            hist = frontier.popleft()
            _, ref, _ = self.build(hist)
            self.queries(hist, ref)
            for ev in evs:
                ctx.count("transitions")
                ctx.count("mutations")
                r = self.check_state(hist + [ev])
                if r is None:
                    continue
                k = r[0]
                if k != tuple(ref):
                    ctx.count("mutations_with_effect")
                    ctx.distinct("ops_with_effect", ev[0])
                if k not in seen:
                    seen[k] = hist + [ev]
                    ctx.distinct("states", (self.clsname, k))
                    ctx.sample({"machine": self.clsname, "history": hist + [ev], "state": list(k)}, every=3)
                    frontier.append(hist + [ev])
        ctx.note(f"{self.clsname}_max_history", max(len(h) for h in seen.values()))


# ---------------------------------------------------------------- OrderedTypeSet
def typeset_leg(ctx, OrderedTypeSet):
    """OrderedTypeSet: unions are flattened on add/discard/update; same BFS shape."""
    import collections
    alphabet = [int, str, float]
    names = {int: "int", str: "str", float: "float"}
    items = [int, str, float, int | str, str | float, float | int]

    def flat(x):
        import typing
        return list(typing.get_args(x)) or [x]

    def lab(x):
        return "|".join(names[t] for t in flat(x))

    seqs = [[]] + [[a] for a in items] + [[a, b] for a in items[:4] for b in items[:4] if a is not b]
    seen = {(): []}
    frontier = collections.deque([[]])

    def build(hist):
        o, ref = OrderedTypeSet(), []
        for op, raw in hist:
            arg = [items[i] for i in raw]
            flatarg = dedupe([t for a in arg for t in flat(a)])
            if op == "add":
                o.add(arg[0]); ref = dedupe(ref + flatarg)
            elif op == "discard":
                o.discard(arg[0]); ref = [x for x in ref if x not in flatarg]
            elif op == "update":
                o.update(arg); ref = dedupe(ref + flatarg)
            elif op == "difference_update":
                o.difference_update(arg); ref = [x for x in ref if x not in flatarg]
            elif op == "intersection_update":
                o.intersection_update(arg); ref = [x for x in ref if x in flatarg]
            elif op == "symmetric_difference_update":
                o.symmetric_difference_update(arg)
                ref = [x for x in ref if x not in flatarg] + [x for x in flatarg if x not in ref]
            elif op == "clear":
                o.clear(); ref = []
        return o, ref

    idx = {id(x): i for i, x in enumerate(items)}
    seqs_i = [[items.index(a) for a in s] for s in seqs]
    evs = [("add", [i]) for i in range(len(items))] + [("discard", [i]) for i in range(len(items))]
    evs += [(op, s) for op in ("update", "difference_update", "intersection_update",
                               "symmetric_difference_update") for s in seqs_i] + [("clear", [])]
    while frontier:
        hist = frontier.popleft()
        _, ref0 = build(hist)
        # queries
        o, ref = build(hist)
        for s in seqs_i:
            arg = [items[i] for i in s]
            flatarg = dedupe([t for a in arg for t in flat(a)])
            exp = {
                "union": dedupe(ref + flatarg),
                "intersection": [x for x in ref if x in flatarg],
                "difference": [x for x in ref if x not in flatarg],
                "symmetric_difference": [x for x in ref if x not in flatarg] + [x for x in flatarg if x not in ref],
                "issubset": all(x in flatarg for x in ref),
                "issuperset": all(x in ref for x in flatarg),
            }
            for q, e in exp.items():
                ctx.count("transitions"); ctx.count("queries")
                got = call(getattr(o, q), arg)
                gv = list(got) if isinstance(got, OrderedTypeSet) else got
                if gv != e:
                    ctx.violation(f"C34|OrderedTypeSet|{q}|{'+'.join(lab(a) for a in arg) or '-'}|"
                                  f"{gv if isinstance(gv, Raises) else 'wrong-result'}",
                                  f"OrderedTypeSet({[names[t] for t in ref]}).{q}({[lab(a) for a in arg]})",
                                  {"machine": "OrderedTypeSet", "history": hist, "query": [q, s]},
                                  rank=len(hist))
        for i in range(-len(ref) - 1, len(ref) + 1):
            ctx.count("transitions"); ctx.count("queries")
            got = call(o.__getitem__, i)
            try:
                e = ref[i]
            except IndexError:
                e = Raises("IndexError")
            if got != e:
                ctx.violation(f"C34|OrderedTypeSet|getitem|{index_class(i, len(ref))}|"
                              f"{got if isinstance(got, Raises) else 'wrong-result'}",
                              f"OrderedTypeSet[{i}] with {len(ref)} items",
                              {"machine": "OrderedTypeSet", "history": hist, "query": ["getitem", [i]]},
                              rank=len(hist))
        for t in items:
            ctx.count("transitions"); ctx.count("queries")
            got = call(o.__contains__, t)
            # membership of a union type is not defined by the docstring; only plain types are checked
            if len(flat(t)) == 1 and got != (t in ref):
                ctx.violation(f"C34|OrderedTypeSet|contains|{lab(t)}|wrong-result", "membership",
                              {"machine": "OrderedTypeSet", "history": hist, "query": ["contains", lab(t)]},
                              rank=len(hist))
        for ev in evs:
            ctx.count("transitions"); ctx.count("mutations")
            try:
                o2, r2 = build(hist + [ev])
                got = list(o2)
            except Exception as exc:  # noqa: BLE001
                got, r2 = Raises(type(exc).__name__), None
            if got != r2:
                ctx.violation(f"C34|OrderedTypeSet|{ev[0]}|{'+'.join(lab(items[i]) for i in ev[1]) or '-'}|"
                              f"{got if isinstance(got, Raises) else 'wrong-state'}",
                              f"OrderedTypeSet {ev}", {"machine": "OrderedTypeSet", "history": hist + [ev]},
                              rank=len(hist) + 1)
                continue
            k = tuple(names[t] for t in r2)
            if k not in seen:
                seen[k] = hist + [ev]
                ctx.distinct("states", ("OrderedTypeSet", k))
                frontier.append(hist + [ev])
    ctx.distinct("states", ("OrderedTypeSet", ()))


# ---------------------------------------------------------------- entry points
def run(ctx):
    OrderedSet, FrozenOrderedSet, OrderedTypeSet = _load()
    alphabet = [0, 1, 2] if ctx.quick else [0, 1, 2, 3]
    form_names = list(forms(OrderedSet, FrozenOrderedSet))
    m = Machine(ctx, OrderedSet, "OrderedSet", alphabet, True, OrderedSet, FrozenOrderedSet, form_names)
    m.explore()
    f = Machine(ctx, FrozenOrderedSet, "FrozenOrderedSet", alphabet, False, OrderedSet,
                FrozenOrderedSet, form_names)
    f.explore()
    typeset_leg(ctx, OrderedTypeSet)
    n_states = len(ctx.col.sets["states"])
    import math
    expect = sum(math.perm(len(alphabet), r) for r in range(len(alphabet) + 1))
    ctx.require(len([1 for _ in ctx.col.sets["states"]]) >= 2 * expect,
                f"state space not fully reached ({n_states} < {2 * expect})")
    ctx.require(len(m.outcomes) > 50, "vacuous: too few distinct query outcomes")
    ctx.require(len(ctx.col.sets.get("ops_with_effect", ())) >= 12,
                "vacuous: some mutator never changed the state")
    ctx.count("traces_validated_against_impl", ctx.col.counters["transitions"])
    ctx.note("alphabet", alphabet)
    ctx.note("argument_forms", form_names)
    ctx.note("distinct_query_outcomes", len(m.outcomes) + len(f.outcomes))
    ctx.exhaustive = True
    ctx.rule = ("BFS over all ordered arrangements of subsets of the alphabet; every mutator x every "
                "argument sequence x 8 iterable forms in every state; every query in every state; "
                "reference = duplicate-free list")
    ctx.assume("elements are small ints (hash collisions / __eq__ overriding elements are out of scope)")


def replay(ctx, data):
    OrderedSet, FrozenOrderedSet, OrderedTypeSet = _load()
    form_names = list(forms(OrderedSet, FrozenOrderedSet))
    name = data["machine"]
    if name == "OrderedTypeSet":
        typeset_leg(ctx, OrderedTypeSet)
        return
    cls = OrderedSet if name == "OrderedSet" else FrozenOrderedSet
    m = Machine(ctx, cls, name, data["alphabet"], name == "OrderedSet", OrderedSet, FrozenOrderedSet,
                form_names)
    hist = [tuple(e) for e in data["history"]]
    if "query" in data:
        if m.mutable:
            _, ref, _ = m.build(hist)
            m.queries(hist, ref)
        else:
            m.explore()
    else:
        m.check_state(hist)
