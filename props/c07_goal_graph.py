"""C07 -- every branch goal is reachable in the DynaMOSA goal graph.

Explicit-state search (E1) over the real ``_GoalsManager`` / ``CoverageArchive`` / ``_BranchFitnessGraph``.

For every module of the corpus (``mc.progen`` programs up to a size bound + the progen seeds) and every
exclusion configuration

    no exclusion | ONE marker (``# pragma: no cover`` / ``# pynguin: no cover``) on any line |
    only_cover=[n] / no_cover=[n] for each of the module's <= 3 scope names | only_cover=[first], no_cover=[last]

the marked source is imported through the real import hook for BRANCH coverage and the goal graph is built
exactly as ``GenerationAlgorithmFactory.get_search_algorithm`` + ``DynaMOSAAlgorithm.generate_tests`` do:
``BranchGoalPool(subject_properties)`` -> ``create_branch_coverage_fitness_functions(executor, pool)`` ->
``CoverageArchive(OrderedSet())`` -> ``_GoalsManager(fitness_functions, archive, subject_properties)``.
Any exception on the way is a violation (``instrument-raises`` / ``build-raises``), never a harness error.

State = (set of covered goals, set of current goals).  Transition = one real
``_GoalsManager.update([chromosome])`` with a real ``TestCaseChromosome`` subclass whose ``get_is_covered``
is scripted: true for exactly one *current* goal ``g`` (and for the goals covered before, with a size that
alternately shrinks and grows and an execution result that alternately has an exception, so that the
archive's replacement logic runs).  Modules with <= 6 predicates and <= 13 goals: BFS over ALL reachable
states (all downward-closed cover orders); larger ones: the two chains that always cover the first / the
last current goal in goal-id order.  Checked on every transition

* the covered set only grows, and ``g`` is covered afterwards;
* ``current_goals`` and the covered goals are disjoint;
* (property text) a goal all of whose structural dependencies -- read off the registered CDG with
  ``get_control_dependencies``, independently of ``_BranchFitnessGraph`` -- are covered is current or
  covered; a goal without dependencies is current in the initial state;
* in every terminal state (no current goal) every goal of the pool is covered: no goal is unreachable;

and once per build: every control dependency of a registered predicate's node resolves to a registered
predicate of the same code object.

Live objects are not copied: a state is restored by re-assigning copies of the four containers the
transition touches (archive ``_covered/_uncovered/_objectives``, manager ``_current_goals``); every
terminal state is additionally re-reached by replaying its history on freshly built objects and must
be identical (divergence = harness error).
"""

from __future__ import annotations

import collections
import os

ID = "C07"
LEVEL = "model_checking"

MAX_PREDICATES = 6
MAX_GOALS = 13
STATE_CAP = 20000


# ------------------------------------------------------------------ real objects
def goal_key(ffn):
    g = ffn.goal
    if g.is_branchless_code_object:
        return ("C", g.code_object_id)
    return ("B", g.code_object_id, g.predicate_id, bool(g.value))


def make_stub_class():
    import pynguin.ga.testcasechromosome as tcc
    import pynguin.testcase.testcase as tc
    from pynguin.testcase.execution_result import ExecutionResult

    class ScriptedChromosome(tcc.TestCaseChromosome):
        """A real test-case chromosome (empty test case) with scripted coverage verdicts."""

        def __init__(self, covers, size, failing):
            super().__init__(test_case=tc.TestCase())
            self._covers = set(covers)
            self._size = size
            result = ExecutionResult()
            if failing:
                result.report_new_thrown_exception(0, ValueError("scripted"))
            self._last_execution_result = result

        def get_is_covered(self, fitness_function):
            return fitness_function in self._covers

        def size(self):
            return self._size

    return ScriptedChromosome


class Build:
    """The goal graph of one instrumented module, built like DynaMOSA builds it."""

    def __init__(self, props):
        import pynguin.ga.coveragegoals as bg
        from pynguin.ga.algorithms import archive as arch
        from pynguin.ga.algorithms.dynamosaalgorithm import _GoalsManager
        from pynguin.testcase.execution import TestCaseExecutor
        from pynguin.utils.orderedset import OrderedSet

        self.props = props
        self.executor = TestCaseExecutor(props)
        self.pool = bg.BranchGoalPool(props)
        self.ffs = bg.create_branch_coverage_fitness_functions(self.executor, self.pool)
        self.archive = arch.CoverageArchive(OrderedSet())
        self.manager = _GoalsManager(self.ffs, self.archive, self.executor.subject_properties)
        self.by_key = {goal_key(f): f for f in self.ffs}
        self.OrderedSet = OrderedSet

    def fresh(self):
        """New archive + manager over the same fitness functions (what a new search would build)."""
        from pynguin.ga.algorithms import archive as arch
        from pynguin.ga.algorithms.dynamosaalgorithm import _GoalsManager

        self.archive = arch.CoverageArchive(self.OrderedSet())
        self.manager = _GoalsManager(self.ffs, self.archive, self.executor.subject_properties)

    # state handling
    def snapshot(self):
        a, m = self.archive, self.manager
        return (dict(a._covered), list(a._uncovered), list(a._objectives), list(m._current_goals))  # noqa: SLF001

    def restore(self, snap):
        a, m = self.archive, self.manager
        a._covered = dict(snap[0])  # noqa: SLF001
        a._uncovered = self.OrderedSet(snap[1])  # noqa: SLF001
        a._objectives = self.OrderedSet(snap[2])  # noqa: SLF001
        m._current_goals = self.OrderedSet(snap[3])  # noqa: SLF001

    def covered(self):
        return frozenset(goal_key(f) for f in self.archive.covered_goals)

    def current(self):
        return frozenset(goal_key(f) for f in self.manager.current_goals)

    def current_in_order(self):
        return sorted(goal_key(f) for f in self.manager.current_goals)


def structural_dependencies(props):
    """goal key -> set of goal keys it depends on, read off the CDG (independent of _BranchFitnessGraph).

    Also returns the list of unresolved dependencies [(predicate id, description)] and raised exceptions.
    """
    deps, unresolved, raised = {}, [], []
    node_pid = {}
    for pid, meta in props.existing_predicates.items():
        node_pid[(meta.code_object_id, meta.node)] = pid
    for cid in props.branch_less_code_objects:
        deps[("C", cid)] = set()
    for pid, meta in props.existing_predicates.items():
        cdg = props.existing_code_objects[meta.code_object_id].cdg
        try:
            cds = list(cdg.get_control_dependencies(meta.node))
        except Exception as exc:  # noqa: BLE001
            raised.append((pid, type(exc).__name__))
            cds = []
        mine = set()
        for d in cds:
            dp = node_pid.get((meta.code_object_id, d.node))
            if dp is None:
                unresolved.append((pid, f"predicate {pid} (line {meta.line_no}) depends on node "
                                        f"{getattr(d.node, 'index', d.node)} = {d.branch_value}, no predicate registered there"))
            else:
                mine.add(("B", meta.code_object_id, dp, bool(d.branch_value)))
        for value in (True, False):
            deps[("B", meta.code_object_id, pid, value)] = set(mine)
    return deps, unresolved, raised


def predicate_kind(props, key):
    """Opcode of the predicate behind a goal key (fingerprint construct when there is no exclusion)."""
    if key[0] == "C":
        return "code-object"
    meta = props.existing_predicates.get(key[2])
    if meta is None:
        return "unknown"
    ins = meta.node.try_get_instruction(-1)
    return getattr(ins, "name", "unknown")


# ------------------------------------------------------------------ exploration of one build
class Search:
    def __init__(self, col, build, deps, where, construct, exclusion):
        self.col, self.b, self.deps = col, build, deps
        self.where, self.construct, self.exclusion = where, construct, exclusion
        self.Stub = make_stub_class()
        self.all_goals = frozenset(build.by_key)
        self.transitions = 0

    def viol(self, sig, what, history, goals=()):
        data = dict(self.where["data"], history=[list(k) for k in history])
        construct = self.construct
        if self.exclusion == "none" and goals:        # no exclusion to blame: name the predicates involved
            construct = "/".join(sorted({predicate_kind(self.b.props, g) for g in goals}))
        self.col.violation(f"C07|{sig}|{construct}|{self.exclusion}", f"{self.where['label']}: {what}",
                           data, rank=self.where["rank"] * 100 + len(history))

    def step(self, key, depth, covered_before):
        """One real update with a chromosome covering ``key`` (+ what was covered before)."""
        b = self.b
        covers = [b.by_key[key]] + [b.by_key[k] for k in covered_before]
        stub = self.Stub(covers, size=(9 - depth) if depth % 3 else (9 + depth), failing=depth % 2 == 1)
        b.manager.update([stub])
        self.transitions += 1
        self.col.count("transitions")

    def check_state(self, before, history, initial=False):
        """Invariants in the state the real objects are in now; returns (covered, current)."""
        b = self.b
        covered, current = b.covered(), b.current()
        ok = True
        if not before <= covered:
            ok = False
            self.viol("covered-shrinks", f"covered goals {sorted(before - covered)} disappeared after update", history)
        if history and tuple(history[-1]) not in covered:
            ok = False
            self.viol("covered-goal-not-recorded", f"goal {history[-1]} was covered by the solution but is not in the "
                      "archive's covered goals", history)
        if covered & current:
            ok = False
            self.viol("current-covered-overlap", f"goals {sorted(covered & current)} are current although covered", history)
        for g in sorted(self.all_goals - covered - current):
            d = self.deps.get(g)
            if d is not None and d <= covered:
                ok = False
                sig = "root-goal-not-initial" if not d else "ready-goal-not-current"
                self.viol(sig, f"goal {g} ({predicate_kind(b.props, g)}): all structural dependencies {sorted(d)} are "
                          f"covered but it is neither current nor covered (current={sorted(current)})", history, [g])
        if not current and covered != self.all_goals:
            ok = False
            missing = sorted(self.all_goals - covered)
            kinds = sorted({predicate_kind(b.props, g) for g in missing})
            self.viol("unreachable-goal", f"terminal state (no current goal) but {missing} ({'/'.join(kinds)}) were never "
                      f"current; their dependencies: { {str(g): sorted(self.deps.get(g, ())) for g in missing} }", history,
                      missing)
        if not current:
            self.col.count("terminal_states")
        return covered, current, ok

    def bfs(self):
        b, col = self.b, self.col
        b.fresh()
        covered, current, _ok = self.check_state(frozenset(), [], initial=True)
        start = (covered, current)
        seen = {start}
        col.distinct("states", (self.where["id"], sorted(covered), sorted(current)))
        queue = collections.deque([(b.snapshot(), covered, current, [])])
        terminal_histories = []
        while queue:
            snap, covered, current, hist = queue.popleft()
            if not current:
                terminal_histories.append((hist, covered, current))
            for key in sorted(current):
                b.restore(snap)
                self.step(key, len(hist), covered)
                h2 = hist + [key]
                c2, cur2, _ok = self.check_state(covered, h2)
                st = (c2, cur2)
                if st not in seen:
                    if len(seen) >= STATE_CAP:
                        col.count("state_cap_hits")
                        return False, terminal_histories
                    seen.add(st)
                    col.distinct("states", (self.where["id"], sorted(c2), sorted(cur2)))
                    queue.append((b.snapshot(), c2, cur2, h2))
        col.notes["max_states_one_build"] = max(col.notes.get("max_states_one_build", 0), len(seen))
        return True, terminal_histories

    def cover_all(self):
        """One update with a solution that covers every goal of the pool (runs update's fixpoint loop)."""
        b = self.b
        b.fresh()
        before = b.covered()
        stub = self.Stub(list(b.by_key.values()), size=3, failing=False)
        b.manager.update([stub])
        self.transitions += 1
        self.col.count("transitions")
        self.col.count("cover_all_transitions")
        covered, current, _ok = self.check_state(before, [])
        self.col.distinct("states", (self.where["id"], sorted(covered), sorted(current)))
        if not current and covered == self.all_goals:
            self.col.count("cover_all_reached_everything")

    def chain(self, pick_last):
        b, col = self.b, self.col
        b.fresh()
        covered, current, _ok = self.check_state(frozenset(), [], initial=True)
        col.distinct("states", (self.where["id"], sorted(covered), sorted(current)))
        hist = []
        while current:
            order = sorted(current)
            key = order[-1] if pick_last else order[0]
            self.step(key, len(hist), covered)
            hist.append(key)
            covered, current, _ok = self.check_state(covered, hist)
            col.distinct("states", (self.where["id"], sorted(covered), sorted(current)))
            if len(hist) > 4 * len(self.all_goals) + 4:
                self.viol("update-does-not-terminate", "chain longer than 4x the number of goals", hist)
                break
        return hist, covered, current

    def replay_fresh(self, hist, covered, current):
        """Re-reach a state on freshly built objects (no snapshot involved); must be identical."""
        b = self.b
        b.fresh()
        cov = frozenset()
        for depth, key in enumerate(hist):
            if tuple(key) not in b.current():
                return False
            self.step(tuple(key), depth, cov)
            cov = b.covered()
        return (b.covered(), b.current()) == (covered, current)


# ------------------------------------------------------------------ one (module, exclusion configuration)
def exclusion_configs(model, source):
    """(exclusion kind, construct, placement, only, no) for one module."""
    from mc import exclusions as ex

    yield ("none", "-", (), (), ())
    for p in ex.placements(source, 1):
        if p:
            yield (p[0][1], model.construct_at(p[0][0]), p, (), ())
    names = model.names()[:3]
    for n in names:
        c = model.by_name[n][0].construct()
        yield ("only_cover", c, (), (n,), ())
        yield ("no_cover", c, (), (), (n,))
    if len(names) >= 2:
        yield ("only_cover+no_cover", model.by_name[names[0]][0].construct() + "+" + model.by_name[names[-1]][0].construct(),
               (), (names[0],), (names[-1],))


def check_config(col, name, source, rank, scratch, cfg, idx, replay_history=None):
    from mc import exclusions as ex

    exclusion, construct, placement, only, no = cfg
    where = {"label": f"{name} markers={list(placement)} only_cover={list(only)} no_cover={list(no)}",
             "id": (name, placement, only, no), "rank": rank,
             "data": {"name": name, "source": source, "markers": [list(x) for x in placement],
                      "only_cover": list(only), "no_cover": list(no)}}
    col.count("builds")
    col.distinct("exclusion_kinds", exclusion)
    outcome = {}

    def keep(sut, obs):
        props = sut.props
        n_pred = len(props.existing_predicates)
        deps, unresolved, raised = structural_dependencies(props)
        for _pid, exc in raised:
            col.violation(f"C07|build-raises:{exc}@get_control_dependencies|{construct}|{exclusion}",
                          f"{where['label']}: get_control_dependencies of a registered predicate's node raised {exc}",
                          dict(where["data"], history=[]), rank=rank * 100)
        for _pid, text in unresolved:
            col.violation(f"C07|dependency-unregistered|{construct}|{exclusion}", f"{where['label']}: {text}",
                          dict(where["data"], history=[]), rank=rank * 100)
        try:
            build = Build(props)
        except Exception as exc:  # noqa: BLE001
            col.count("builds_raising")
            col.violation(f"C07|build-raises:{type(exc).__name__}|{construct}|{exclusion}",
                          f"{where['label']}: building the goal graph raised {type(exc).__name__}: {str(exc)[:160]}",
                          dict(where["data"], history=[]), rank=rank * 100)
            outcome["built"] = False
            return
        outcome["built"] = True
        goals = len(build.by_key)
        col.notes["max_goals"] = max(col.notes.get("max_goals", 0), goals)
        col.notes["max_predicates"] = max(col.notes.get("max_predicates", 0), n_pred)
        col.distinct("graph_shapes", (goals, n_pred, sum(1 for d in deps.values() if not d),
                                      max((len(d) for d in deps.values()), default=0)))
        search = Search(col, build, deps, where, construct, exclusion)
        if replay_history is not None:
            build.fresh()
            cov = frozenset()
            search.check_state(frozenset(), [])
            hist = []
            for depth, key in enumerate(replay_history):
                key = tuple(key)
                if key not in build.current():
                    break
                search.step(key, depth, cov)
                hist.append(key)
                cov, _cur, _ok = search.check_state(cov, hist)
            return
        full = n_pred <= MAX_PREDICATES and goals <= MAX_GOALS
        complete = False
        if full:
            complete, terminals = search.bfs()
            if complete:
                col.count("builds_explored_exhaustively")
                for hist, covered, current in terminals:
                    col.count("fresh_replays")
                    if not search.replay_fresh(hist, covered, current):
                        col.count("fresh_replay_mismatches")
                        col.notes["fresh_replay_mismatch_at"] = where["label"]
        if not complete:
            col.count("builds_explored_by_chains")
            for last in (False, True):
                search.chain(last)
        search.cover_all()
        col.count("traces_validated_against_impl", search.transitions)
        if n_pred:
            col.distinct("nontrivial", (name, placement, only, no))
        if deps and any(d for d in deps.values()):
            col.count("builds_with_dependent_goals")
        col.sample({"module": name, "markers": [list(x) for x in placement], "only_cover": list(only),
                    "no_cover": list(no), "goals": goals, "predicates": n_pred, "exhaustive": bool(complete),
                    "transitions": search.transitions}, every=501)

    obs = ex.load(ex.apply_markers(source, placement), scratch, f"{name}_c{idx}",
                  ex.to_cover_configuration((True, True), only, no), coverage=("BRANCH",), keep=keep)
    if obs.error is not None:
        col.count("instrumentations_raising")
        col.violation(f"C07|instrument-raises:{obs.error}|{construct}|{exclusion}",
                      f"{where['label']}: importing through the instrumentation hook raised {obs.error}: {obs.error_text}",
                      dict(where["data"], history=[]), rank=rank * 100)


def check_module(col, name, source, meta, scratch):
    import shutil

    from mc import exclusions as ex
    from mc import progen

    sub = os.path.join(scratch, name)
    os.makedirs(sub, exist_ok=True)
    try:
        model = ex.Model(source)
        col.count("modules")
        rank = meta.get("size") or 50
        for idx, cfg in enumerate(exclusion_configs(model, source)):
            check_config(col, name, source, rank, sub, cfg, idx)
        code = compile(source, f"<{name}>", "exec")
        evidence = progen.construct_evidence(code)
        for t in meta["constructs"]:
            col.distinct("constructs_declared", t)
            if t in evidence:
                col.distinct("constructs_evidenced", t)
    finally:
        shutil.rmtree(sub, ignore_errors=True)


# ------------------------------------------------------------------ shards
def corpus(tier):
    from mc import progen

    n = 2 if tier == "quick" else 3
    progs = [(name, src, meta) for name, src, meta in progen.programs(n, 2)]
    static = progen.static_seeds()     # importing them only defines functions
    return progen.seeds() + static + progs


def shard(col, tier, k, nshards):
    import logging
    import shutil

    from mc import pyn

    logging.disable(logging.CRITICAL)
    pyn.reset_config(algorithm=None)
    scratch = os.path.join("/dev/shm" if os.path.isdir("/dev/shm") else "/tmp", f"verif_c07_{os.getpid()}")
    os.makedirs(scratch, exist_ok=True)
    try:
        items = corpus(tier)
        # seeds are the biggest: deal round-robin in corpus order (seeds first)
        for i, (name, src, meta) in enumerate(items):
            if i % nshards == k:
                check_module(col, name, src, meta, scratch)
    finally:
        shutil.rmtree(scratch, ignore_errors=True)


# ------------------------------------------------------------------ entry points
def run(ctx):
    from mc import par

    nshards = max(1, ctx.workers)
    order = list(range(nshards))
    if ctx.seed:
        order = order[ctx.seed % nshards:] + order[:ctx.seed % nshards]
    par.run_shards("props.c07_goal_graph:shard", [(ctx.tier, k, nshards) for k in order], ctx.workers, ctx)
    c = ctx.col.counters
    n_modules = len(corpus(ctx.tier))
    ctx.require(c.get("modules", 0) == n_modules, f"modules checked {c.get('modules')} != corpus {n_modules}")
    ctx.require(c.get("fresh_replay_mismatches", 0) == 0,
                f"snapshot/restore diverged from a replay on fresh objects at {ctx.col.notes.get('fresh_replay_mismatch_at')}")
    if not ctx.col.violations:      # a defective implementation may never reach them: then the violations speak
        ctx.require(c.get("fresh_replays", 0) > 0 and c.get("terminal_states", 0) > 0, "vacuous: no terminal state reached")
        ctx.require(c.get("cover_all_reached_everything", 0) > 0, "vacuous: the cover-everything update never completed")
    ctx.require(c.get("builds_with_dependent_goals", 0) > 0, "vacuous: no goal ever depended on another goal")
    ctx.require(len(ctx.col.sets.get("graph_shapes", ())) >= 8, "vacuous: fewer than 8 distinct goal-graph shapes")
    ctx.require({"none", "pragma", "pynguin", "only_cover", "no_cover"} <= {
        k for k in ("none", "pragma", "pynguin", "only_cover", "no_cover")
        if _has(ctx, "exclusion_kinds", k)}, "vacuous: an exclusion kind was never used")
    declared = ctx.col.sets.get("constructs_declared", set())
    evidenced = ctx.col.sets.get("constructs_evidenced", set())
    ctx.require(declared and declared == evidenced, "vacuity: a declared progen construct never appears in bytecode")
    ctx.exhaustive = c.get("state_cap_hits", 0) == 0
    ctx.note("bounds", {"progen_max_size": 2 if ctx.quick else 3, "progen_max_depth": 2, "modules": n_modules,
                        "full_exploration_up_to": {"predicates": MAX_PREDICATES, "goals": MAX_GOALS},
                        "builds_explored_exhaustively": c.get("builds_explored_exhaustively", 0),
                        "builds_explored_by_chains_only": c.get("builds_explored_by_chains", 0),
                        "state_cap": STATE_CAP, "state_cap_hits": c.get("state_cap_hits", 0)})
    ctx.rule = ("state = (covered goals, current goals) of one (module, exclusion configuration) goal graph; transition = "
                "one real _GoalsManager.update with a scripted real TestCaseChromosome covering one current goal; "
                "non-trivial = the build has at least one predicate")
    ctx.assume("coverage verdicts are scripted (C10 decides whether real verdicts agree with traces); only single-goal "
               "steps: a solution covering several current goals at once is the composition of single steps here "
               "because update iterates to a fixpoint")
    ctx.assume("structural dependencies for the 'ready goal is current' check are read from the registered CDG through "
               "get_control_dependencies (C06 decides whether that CDG matches the definition)")
    ctx.assume("snapshot/restore of the four mutable containers instead of deep copies; cross-checked against fresh "
               "replays of every terminal state")


def _has(ctx, set_name, item):
    from mc.ctx import h64

    s = ctx.col.sets.get(set_name, set())
    return item in s or h64(item) in s


def replay(ctx, data):
    import logging

    from mc import exclusions as ex
    from mc import pyn

    logging.disable(logging.CRITICAL)
    pyn.reset_config()
    scratch = ctx.scratch()
    model = ex.Model(data["source"])
    placement = tuple(tuple(x) for x in data["markers"])
    only, no = tuple(data["only_cover"]), tuple(data["no_cover"])
    for cfg in exclusion_configs(model, data["source"]):
        if (cfg[2], cfg[3], cfg[4]) == (placement, only, no):
            hist = data.get("history") or None
            check_config(ctx.col, data["name"], data["source"], 1, scratch, cfg, 0, replay_history=hist)
            if hist:
                # the recorded history is one path; the full search of this configuration re-finds the rest
                check_config(ctx.col, data["name"], data["source"], 1, scratch, cfg, 1)
            return
    raise RuntimeError("configuration of the replay file is not in the enumeration")
