"""C01 -- instrumentation does not change the behaviour of the module under test.

Bounded-exhaustive differential exploration (E3).  For every program of the
``mc.progen`` grammar up to a size bound, the progen seeds and a few C01 extras
(printing, global / argument mutation, side-effecting attribute access,
``endswith``) x every argument pair of the program's input menu extended with
the "sharp" adversarial values of ``mc.values`` (NaN, -0.0, inf, ints beyond
2**53 and beyond 1e308, Decimal, Fraction, a one-shot iterator, user classes
with partial / raising comparison protocols, ``__bool__``-raising, ``__len__``-,
``__contains__``- and ``__iter__``-only objects, a tuple for
``str.startswith``) x ALL 8 subsets of {BRANCH, LINE, CHECKED} (dynamic constant
seeding always on, exactly what ``install_import_hook`` builds when no provider
is passed):

* the source is loaded once as a plain module (no hook) and once per subset
  through the REAL import hook under the REAL tracer (``mc.pyn.Sut``);
* ``f(a, b)`` is called with fresh copies of the arguments in both (the tracer
  entered on the calling thread, ``init_trace()`` first, as the executor does);
* compared: return value (type + NaN-aware structural equality; iterators by the
  list of remaining items), exception TYPE, captured stdout, post-state of the
  module globals and of the arguments, the operator log of the ``mc.values`` user
  objects, and what is left in one-shot iterator arguments.

Instrumenting (= importing through the hook) must never raise; the stdlib leg
copies ~40 pure-Python stdlib modules into the scratch directory under a new
name, imports them plain and instrumented with all three metrics, compares the
public namespace and runs a few smoke calls in both.

All instrumented work runs in a forked child of the (fresh) shard process:
instrumented code that crashes the interpreter (SIGSEGV) or never returns (CPU
budget per step, SIGXCPU) is a violation ``interpreter-crash:<signal>`` / ``hang``
of the metric subset and input the child was working on, and the work item is
repeated without that subset and its supersets.

Fingerprint: ``C01|<smallest metric subset showing it, "any" = all eight,
"seeding-only" = already with no coverage metric>|<construct>|<value classes>|
<signature>``.  ``construct`` is the tracer / seeding callback in which the
deviation happens (found by re-running the violating call with pass-through
wrappers around the callbacks, after all compared calls of the program: ``LT``,
``IN``, ``BOOL``, ``attr-access`` ...; ``...-runs-user-code`` when code of the
module under test ran inside the callback) or, when it happens in the
instrumented frame itself, the distinctive feature / predicate family of the
program (``startswith``, ``SLICE``, ``WITH``, ``LT+BOOL`` ...).  Value classes are
``any``/``most`` when (nearly) every input pair of the program shows the deviation.
Signatures: ``return-differs``, ``exception-differs:<plain>-><instr>``,
``raises-only-instrumented:<Exc>``, ``stdout-differs``, ``state-differs``,
``extra-operator:<dunder>``, ``missing-operator:<dunder>``, ``iterator-consumed``,
``instrumentation-raises:<Exc>``, ``interpreter-crash:<signal>``, ``hang``.
"""

from __future__ import annotations

import contextlib
import io
import itertools
import os
import re
import sys
import types

ID = "C01"
LEVEL = "exploration"

METRICS = ("BRANCH", "LINE", "CHECKED")
SUBSETS = tuple(tuple(m for i, m in enumerate(METRICS) if mask >> i & 1) for mask in range(8))
QUICK_SAMPLE = 6          # quick tier: size-3 programs with shard_of(name, QUICK_SAMPLE) == 0

# ------------------------------------------------------------------ C01 extra programs
# (name, tags, module source).  Effects the progen grammar never produces: stdout, global and
# argument mutation (so that these oracle legs are exercised "with effect"), attribute access
# with side effects (property / __getattr__), endswith.
EXTRAS = [
    ("print", "call", "def f(a, b):\n    print('v', a)\n    if a:\n        print('t')\n    return b\n"),
    ("global-mutation", "assign if",
     "G = 0\nL = []\n\n\ndef f(a, b):\n    global G\n    G += 1\n    if a == b:\n        L.append(G)\n    return G\n"),
    ("arg-mutation", "call if",
     "def f(a, b):\n    if isinstance(b, list):\n        b.append(a)\n        if a in b:\n            b.append(0)\n    return None\n"),
    ("property-side-effect", "class attr",
     "class P:\n    n = 0\n\n    @property\n    def p(self):\n        P.n += 1\n        print('get', P.n)\n        return P.n\n"
     "\n\ndef f(a, b):\n    x = P().p\n    return x\n"),
    ("getattr-side-effect", "class attr",
     "class Q:\n    n = 0\n\n    def __getattr__(self, name):\n        Q.n += 1\n        return Q.n\n"
     "\n\ndef f(a, b):\n    q = Q()\n    return (q.zz, Q.n)\n"),
    ("endswith", "endswith call attr if",
     "def f(a, b):\n    x = 0\n    if a.endswith(b):\n        x = 1\n    return x\n"),
    ("startswith-else", "startswith call attr if",
     "def f(a, b):\n    if a.startswith(b):\n        return 'y'\n    else:\n        return 'n'\n"),
    ("string-predicates", "isdigit call attr if",
     "def f(a, b):\n    x = 0\n    if a.isalpha():\n        x += 1\n    if a.islower():\n        x += 2\n    if a.isspace():\n        x += 4\n    return x\n"),
    ("store-attr-subscr", "class attr subscript",
     "class R:\n    pass\n\n\ndef f(a, b):\n    r = R()\n    r.v = a\n    d = {}\n    d[0] = b\n    d[1] = r.v\n    del r.v\n"
     "    s = [1, 2, 3]\n    s[0:1] = [a]\n    return (d, s[0:2])\n"),
    ("yield-values", "gen yield for",
     "def f(a, b):\n    for v in (a, b):\n        if v:\n            yield v\n    yield 0\n"),
    ("compare-value", "compare",
     "def f(a, b):\n    x = a < b\n    y = a == b\n    return (x, y, a in [b])\n"),
    ("while-compare", "while compare",
     "def f(a, b):\n    i = 0\n    while i < 3 and a != b:\n        i += 1\n    return i\n"),
    ("slice", "display", "def f(a, b):\n    s = [1, 2, 3, a]\n    return s[1:3]\n"),
    ("slice-loop", "display while",
     "def f(a, b):\n    s = [a, b, 0]\n    n = 0\n    while s and n < 5:\n        s = s[1:]\n        n += 1\n    return n\n"),
    ("super-call", "class attr call",
     "class B:\n    def __init__(self):\n        self.v = 1\n\n\nclass A(B):\n    def __init__(self, w):\n"
     "        super().__init__()\n        self.w = w\n\n\ndef f(a, b):\n    o = A(a)\n    return (o.v, o.w)\n"),
    ("kwcall", "call", "def g(p, k=0):\n    return (p, k)\n\n\ndef f(a, b):\n    return g(a, k=b)\n"),
    ("kwcall-after-comprehension", "listcomp call",
     "def g(p, k=0):\n    return (p, k)\n\n\ndef f(a, b):\n    return g([v for v in (1, 2)], k=b)\n"),
]

# ------------------------------------------------------------------ stdlib leg
STDLIB = [
    "bisect", "heapq", "textwrap", "fnmatch", "shlex", "colorsys", "string", "keyword", "reprlib",
    "copy", "glob", "stat", "genericpath", "posixpath", "getopt", "sched", "queue", "graphlib",
    "quopri", "base64", "cmd", "codeop", "linecache", "operator", "numbers", "calendar",
    "fractions", "statistics", "csv", "pprint", "difflib", "json.decoder", "json.encoder",
    "json.scanner", "html.parser", "configparser", "tokenize", "ast", "contextlib", "functools",
    "types", "abc", "dataclasses", "ipaddress",
]
STDLIB_QUICK = STDLIB[:34]

# smoke calls: expressions over ``m`` (the module), evaluated in the plain and in the instrumented copy
SMOKE = {
    "heapq": ["list(m.merge([1, 4], [2, 3]))", "m.nlargest(2, [3, 1, 4, 1, 5])", "m.nsmallest(2, [3, 1, 4], key=abs)"],
    "textwrap": ["m.wrap('the quick brown fox jumps over the lazy dog', 12)", "m.dedent('  a\\n   b\\n')",
                 "m.shorten('hello  world and more', 12)", "m.indent('a\\nb\\n', '> ')"],
    "fnmatch": ["m.translate('a*[!b]?.py')", "m.fnmatchcase('abc.py', 'a*.py')", "m.filter(['a.py', 'b.txt'], '*.py')"],
    "shlex": ["m.split('a \"b c\" d\\\\ e #x')", "m.quote(\"it's\")", "m.join(['a b', 'c'])"],
    "colorsys": ["m.rgb_to_hls(0.2, 0.4, 0.6)", "m.hsv_to_rgb(0.5, 0.5, 0.5)", "m.rgb_to_yiq(1, 0, 0)"],
    "string": ["m.capwords('hello  big world')", "m.Template('$a and ${b}').substitute(a=1, b=2)",
               "m.Formatter().format('{0!r:>5}-{x}', 'q', x=3)", "m.Template('$a $$ $c').safe_substitute(a=1)"],
    "keyword": ["m.iskeyword('for')", "m.issoftkeyword('match')"],
    "reprlib": ["m.repr(list(range(20)))", "m.repr({'a': [1, 2, 3, 4, 5, 6, 7, 8]})", "m.repr('x' * 100)"],
    "copy": ["m.deepcopy([1, [2, {'a': (3, 4)}]])", "m.copy({1: [2]})"],
    "glob": ["m.translate('**/*.py', recursive=True) if hasattr(m, 'translate') else None", "m.escape('a[b]*')",
             "m.has_magic('a*')"],
    "stat": ["m.filemode(0o100644)", "m.S_ISDIR(0o040755)"],
    "genericpath": ["m.commonprefix(['abc', 'abd'])"],
    "posixpath": ["m.normpath('/a/./b/../c//d')", "m.join('a', '/b', 'c')", "m.splitext('x/y.tar.gz')",
                  "m.commonpath(['/a/b/c', '/a/b/d'])", "m.relpath('/a/b', '/a/c')"],
    "getopt": ["m.getopt(['-a', '-b', 'v', '--long=3', 'rest'], 'ab:', ['long='])",
               "m.gnu_getopt(['x', '-a'], 'a')"],
    "graphlib": ["list(m.TopologicalSorter({'a': ['b'], 'b': ['c']}).static_order())"],
    "quopri": ["m.encodestring(b'a=b \\xff\\n')", "m.decodestring(b'a=3Db=FF')"],
    "base64": ["m.b32encode(b'hello')", "m.b32decode(b'NBSWY3DP')", "m.b85encode(b'hello world')",
               "m.a85decode(m.a85encode(b'abc'))"],
    "calendar": ["m.monthcalendar(2024, 2)", "m.isleap(1900)", "m.TextCalendar().formatmonth(2023, 1)"],
    "fractions": ["m.Fraction('3/4') + m.Fraction(1, 4)", "m.Fraction(1.5).limit_denominator(10)",
                  "m.Fraction(1, 3) < m.Fraction(1, 2)", "str(m.Fraction(-7, 3) // 2)"],
    "statistics": ["m.median([3, 1, 2])", "m.mean([1, 2, 3, 4])", "m.mode([1, 1, 2])", "m.pstdev([1.0, 2.0, 3.0])"],
    "pprint": ["m.pformat({'a': [1, 2, {'b': (3, 4)}], 'c': 'x' * 30}, width=20)", "m.isreadable([1, 'a'])"],
    "difflib": ["m.SequenceMatcher(None, 'abcd', 'bcde').ratio()", "list(m.unified_diff(['a', 'b'], ['a', 'c']))",
                "m.get_close_matches('appel', ['ape', 'apple', 'peach'])"],
    "json.decoder": ["m.py_scanstring('\"a\\\\n\\\\u00e9b\" rest', 1)", "m.JSONDecoder().decode('{\"a\": [1, 2.5, null]}')"],
    "json.encoder": ["m.py_encode_basestring_ascii('a\\n\\u00e9')", "m.JSONEncoder(indent=1).encode({'a': [1, None]})"],
    "html.parser": ["m.HTMLParser().feed('<a href=\"x\">t&amp;</a><!-- c -->')"],
    "configparser": ["(lambda c: (c.read_string('[s]\\na = 1\\nb: x\\n  y\\n'), sorted(c['s'].items()))[1])(m.ConfigParser())"],
    "tokenize": ["[(t.type, t.string) for t in m.generate_tokens(iter(['x = (1 +\\n', ' 2)\\n', '']).__next__)]"],
    "ast": ["m.literal_eval('[1, (2, -3.5), {\"a\": None}]')", "m.dump(m.parse('x = f(1)'))", "m.unparse(m.parse('a if b else [c for c in d]'))"],
    "operator": ["m.attrgetter('real')(3)", "m.itemgetter(1, 0)('ab')", "m.methodcaller('upper')('a')"],
    "functools": ["m.reduce(lambda p, q: p + q, [1, 2, 3], 10)", "m.cmp_to_key(lambda p, q: p - q)(1) < m.cmp_to_key(lambda p, q: p - q)(2)",
                  "m.partial(int, base=2)('101')"],
    "contextlib": ["(lambda s: [s.enter_context(m.nullcontext(3)), s.close()][0])(m.ExitStack())"],
    "types": ["m.SimpleNamespace(a=1).a", "m.new_class('K', (), {}).__name__"],
    "numbers": ["isinstance(3, m.Integral)"],
    "linecache": ["m.getline('/nonexistent-file', 1)"],
    "codeop": ["m.compile_command('x = 1') is not None", "m.compile_command('if x:') is None"],
    "sched": ["(lambda s: (s.enter(0, 1, print, ('ev',)), s.run(), s.empty())[2])(m.scheduler(lambda: 0, lambda d: None))"],
    "queue": ["(lambda q: (q.put(2), q.put(1), q.get(), q.qsize())[2:])(m.PriorityQueue())"],
    "cmd": ["m.Cmd().parseline('foo bar baz')"],
    "csv": ["m.Sniffer().has_header('a,b\\n1,2\\n3,4\\n')"],
    "ipaddress": ["str(m.ip_network('10.0.0.0/30').broadcast_address)", "m.ip_address('::1').is_loopback",
                  "[str(h) for h in m.ip_network('192.168.0.0/30').hosts()]"],
    "dataclasses": ["m.asdict(m.make_dataclass('D', ['x', ('y', int, 3)])(1))"],
    "abc": ["m.ABC.__name__"],
    "bisect": ["m.bisect_left([1, 2, 4], 3)"],
}


# ------------------------------------------------------------------ values / input menu
SHARP = [
    "float:nan", "float:-0.0", "float:inf", "int:2^53+1", "int:1e400", "Decimal:NaN", "Decimal:1.5",
    "Fraction:1/3", "iter:[1,2]", "list:[nan]", "tuple:(a,b)", "str:ab",
    "u:lt:bool", "u:lt+gt:bool", "u:lt+gt:raises", "u:eq:raises", "u:lt+le+eq+ne+gt+ge:bool",
    "u:bool-raises", "u:len-only:2",
    "u:contains-only", "u:iter-only",
]
# pairs beyond (v, v), (v, 1), (1, v)
CROSS = [
    ("int:2^53+1", "int:2^53"), ("int:2^53", "int:2^53+1"), ("int:1e400", "int:-1e400"),
    ("int:2^53+1", "float:9007199254740992.0"), ("float:0.0", "float:-0.0"), ("float:nan", "list:[nan]"),
    ("float:inf", "float:-inf"), ("Decimal:1.5", "float:1.5"), ("Fraction:1/3", "float:1.5"),
    ("Decimal:NaN", "float:nan"), ("str:ab", "tuple:(a,b)"), ("str:ab", "str:b"),
    ("u:lt+gt:bool", "u:lt+gt:raises"), ("u:lt+gt:raises", "u:lt+gt:bool"), ("u:lt:bool", "u:lt+gt:bool"),
    ("u:lt+gt:bool", "u:lt:bool"), ("u:eq:raises", "list:[1]"), ("u:lt:bool", "iter:[1,2]"),
    ("int:2", "iter:[1,2]"), ("u:eq:raises", "u:contains-only"),
]

_BY_LABEL = None


def by_label():
    global _BY_LABEL
    if _BY_LABEL is None:
        from mc import values
        _BY_LABEL = values.by_label("thorough")
    return _BY_LABEL


def make(label):
    """A fresh object for a value label (``src:<literal>`` or an ``mc.values`` label)."""
    if label.startswith("src:"):
        return eval(label[4:], {})  # noqa: S307
    return by_label()[label].make()


def cls_of(label):
    if label.startswith("src:"):
        v = eval(label[4:], {})  # noqa: S307
        return "none" if v is None else type(v).__name__
    return by_label()[label].coarse


def is_oneshot(label):
    return not label.startswith("src:") and by_label()[label].oneshot


def input_pairs(meta, source):
    """The input menu of a program: progen's own small menu + the sharp adversarial pairs.

    An argument the body of ``f`` never mentions is held at ``0`` (pairs that differ only there
    are the same execution)."""
    from mc import progen

    body = source.split("def f(a, b):", 1)[1] if "def f(a, b):" in source else source
    uses_a = bool(re.search(r"\ba\b", body))
    uses_b = bool(re.search(r"\bb\b", body))
    pairs = [("src:" + x, "src:" + y) for x, y in progen.input_menu_src(meta, "small")]
    for v in SHARP:
        pairs += [(v, v), (v, "src:1"), ("src:1", v)]
    pairs += CROSS
    out, seen = [], set()
    for la, lb in pairs:
        if not uses_a:
            la = "src:0"
        if not uses_b:
            lb = "src:0"
        if (la, lb) not in seen:
            seen.add((la, lb))
            out.append((la, lb))
    return out, uses_a, uses_b


# ------------------------------------------------------------------ canonical form of observed values
def canon(x, depth=0):
    """Structural, type-tagged, NaN-aware, address-free description; never calls a logged dunder.

    One-shot iterators are described by what is left in them (at most 64 items; generators, which cannot
    be copied, are drained for that)."""
    from decimal import Decimal
    from fractions import Fraction

    from mc.values import UserBase

    if depth > 8:
        return ("deep", type(x).__name__)
    t = type(x)
    if x is None or t is bool:
        return repr(x)
    if t is int:
        return ("int", x)
    if t is float or t is complex:
        return (t.__name__, repr(x))
    if t is str:
        return ("str", x)
    if t is bytes:
        return ("bytes", x.hex())
    if t is bytearray:
        return ("bytearray", bytes(x).hex())
    if t is Decimal or t is Fraction:
        return (t.__name__, str(x))
    if t is list or t is tuple:
        return (t.__name__, tuple(canon(e, depth + 1) for e in x))
    if t is set or t is frozenset:
        return (t.__name__, tuple(sorted((canon(e, depth + 1) for e in x), key=repr)))
    if t is dict:
        return ("dict", tuple((canon(k, depth + 1), canon(v, depth + 1)) for k, v in x.items()))
    if t is range:
        return ("range", repr(x))
    if isinstance(x, UserBase):
        return ("user", t.__name__, tuple(sorted((k, repr(canon(v, depth + 1))) for k, v in vars(x).items()
                                                 if k != "_role")))
    if isinstance(x, BaseException):
        return ("exception", t.__name__)
    if isinstance(x, types.ModuleType):
        return ("module", x.__name__.split("_c01")[0])
    if isinstance(x, (types.FunctionType, types.BuiltinFunctionType, types.MethodType, type)):
        return (t.__name__, getattr(x, "__qualname__", "?"))
    if hasattr(t, "__next__"):
        items, end = [], "end"
        try:
            import copy
            x = copy.copy(x)     # list / tuple / str iterators: look at what is left without consuming it
        except Exception:  # noqa: BLE001   (generators cannot be copied: they are drained)
            pass
        try:
            for e in itertools.islice(x, 64):
                items.append(canon(e, depth + 1))
        except Exception as exc:  # noqa: BLE001
            end = "raises:" + type(exc).__name__
        return ("iterator", t.__name__, tuple(items), end)
    d = getattr(x, "__dict__", None)
    if isinstance(d, dict):
        return ("object", t.__qualname__, tuple((k, repr(canon(v, depth + 1))) for k, v in sorted(d.items())))
    return ("object", t.__qualname__)


def canon_globals(module):
    return tuple(sorted((k, repr(canon(v))) for k, v in vars(module).items() if not k.startswith("__")))


# ------------------------------------------------------------------ one observed call
_ADDR = re.compile(r"0x[0-9a-fA-F]+")


def observe(module, la, lb, tracer=None, fn="f"):
    """Call ``module.f(a, b)`` on fresh arguments; everything the property lets one compare."""
    from mc import values

    a, b = make(la), make(lb)
    values.set_role(a, "a")
    values.set_role(b, "b")
    values.oplog_clear()
    buf = io.StringIO()
    outcome = None
    exc_obj = None
    with contextlib.redirect_stdout(buf):
        try:
            if tracer is not None:
                tracer.init_trace()
                with tracer:
                    outcome = ("ret", repr(canon(getattr(module, fn)(a, b))))
            else:
                outcome = ("ret", repr(canon(getattr(module, fn)(a, b))))
        except KeyboardInterrupt:
            raise
        except BaseException as exc:  # noqa: BLE001
            outcome = ("exc", type(exc).__name__)
            exc_obj = exc
    log = values.oplog_snapshot()
    post_a, post_b = repr(canon(a)), repr(canon(b))
    return {"outcome": outcome, "stdout": _ADDR.sub("0x?", buf.getvalue()), "oplog": log, "post": (post_a, post_b),
            "globals": canon_globals(module), "exc": exc_obj}


def compare(plain, instr, la, lb):
    """Signatures of every way the instrumented observation deviates from the plain one."""
    sigs = []
    po, io_ = plain["outcome"], instr["outcome"]
    consumed = any(is_oneshot(lab) and p != q
                   for lab, p, q in zip((la, lb), plain["post"], instr["post"]))
    if consumed:
        sigs.append("iterator-consumed")
    exc_differs = False
    if po[0] == "ret" and io_[0] == "exc":
        sigs.append(f"raises-only-instrumented:{io_[1]}")
        exc_differs = True
    elif po[0] == "exc" and io_[0] == "ret":
        sigs.append(f"exception-differs:{po[1]}->none")
        exc_differs = True
    elif po[0] == "exc" and po[1] != io_[1]:
        sigs.append(f"exception-differs:{po[1]}->{io_[1]}")
        exc_differs = True
    elif po[0] == "ret" and po != io_:
        sigs.append("return-differs")
    if plain["stdout"] != instr["stdout"]:
        sigs.append("stdout-differs")
    state = plain["globals"] != instr["globals"] or any(
        p != q for lab, p, q in zip((la, lb), plain["post"], instr["post"]) if not is_oneshot(lab))
    if state:
        sigs.append("state-differs")
    if consumed:
        # what follows a membership test that advanced the iterator is downstream of that one deviation
        sigs = [s for s in sigs if s == "iterator-consumed" or s.startswith("extra-operator")]
    pl, il = list(plain["oplog"]), list(instr["oplog"])
    if pl != il:
        rest = list(pl)
        extra = []
        for e in il:
            if e in rest:
                rest.remove(e)
            else:
                extra.append(e)
        for d in sorted({d for _r, d in extra}):
            sigs.append(f"extra-operator:{d}")
        if not extra and rest and not exc_differs and not consumed:
            for d in sorted({d for _r, d in rest}):
                sigs.append(f"missing-operator:{d}")
        if not extra and not rest:
            sigs.append("operator-order-differs")
    return sigs


# ------------------------------------------------------------------ attribution (fingerprint only)
CALLBACKS = {
    "executed_compare_predicate": None, "executed_bool_predicate": "BOOL",
    "executed_in_presence_predicate": "IN_PRESENCE", "executed_exception_match": "EXC_MATCH",
    "track_line_visit": "line-visit", "track_generic": "checked-generic", "track_memory_access": "memory-access",
    "track_attribute_access": "attr-access", "track_jump": "checked-jump", "track_call": "checked-call",
    "track_return": "checked-return", "executed_code_object": "code-object",
}
SEEDING = {"add_value": "seeding-add_value", "add_value_for_strings": "seeding-string-function"}


class Attribution:
    """Pass-through wrappers around the tracer / seeding callbacks that note what happens inside them.

    Used only to *name* the construct in a fingerprint after a deviation has been established on the
    untouched classes."""

    def __init__(self, user_dir=None):
        self.events = []
        self._saved = []
        self.user_dir = user_dir

    def _wrap(self, owner, name, label):
        from mc import values
        import operator

        orig = owner.__dict__[name]
        events = self.events
        user_dir = self.user_dir

        def wrapper(self_, *args, **kw):
            lab = label
            if lab is None:
                cmp_op = args[3] if len(args) > 3 else kw.get("cmp_op")
                lab = getattr(cmp_op, "name", str(cmp_op))
            start = len(values.OPLOG)
            its = [v for v in args[:2] if type(v).__name__.endswith("iterator")]
            hints = [operator.length_hint(v, -1) for v in its]
            raised = None
            ucalls = []

            def prof(frame, event, _arg):
                # code of the module under test running inside a tracer / seeding callback
                if event == "call" and user_dir and frame.f_code.co_filename.startswith(user_dir):
                    ucalls.append(frame.f_code.co_name)

            old_prof = sys.getprofile()
            sys.setprofile(prof)
            try:
                return orig(self_, *args, **kw)
            except BaseException as exc:  # noqa: BLE001
                raised = type(exc).__name__
                raise
            finally:
                sys.setprofile(old_prof)
                ops = [d for _r, d in values.OPLOG[start:]]
                cons = [operator.length_hint(v, -1) for v in its] != hints
                if ops or cons or raised or ucalls:
                    events.append((lab, ops, cons, raised, ucalls))

        wrapper.__name__ = name
        wrapper.__wrapped__ = orig
        self._saved.append((owner, name, orig))
        setattr(owner, name, wrapper)

    def __enter__(self):
        from pynguin.analyses.constants import DynamicConstantProvider
        from pynguin.instrumentation.tracer import ExecutionTracer

        for name, label in CALLBACKS.items():
            self._wrap(ExecutionTracer, name, label)
        for name, label in SEEDING.items():
            self._wrap(DynamicConstantProvider, name, label)
        return self

    def __exit__(self, *exc):
        for owner, name, orig in reversed(self._saved):
            setattr(owner, name, orig)
        return False

    def construct_for(self, sig):
        kind, _, arg = sig.partition(":")
        if kind == "extra-operator":
            for lab, ops, _c, _r, _u in self.events:
                if arg in ops:
                    return lab
        elif kind == "iterator-consumed":
            for lab, _o, cons, _r, _u in self.events:
                if cons:
                    return lab
        elif kind in ("raises-only-instrumented", "exception-differs"):
            want = arg.split("->")[-1]
            for lab, _o, _c, raised, _u in reversed(self.events):
                if raised == want:
                    return lab
        if kind in ("return-differs", "stdout-differs", "state-differs", "exception-differs",
                    "raises-only-instrumented"):
            # code of the module under test that ran inside a callback (property, __getattr__, ...)
            for lab, _o, _c, _r, ucalls in self.events:
                if ucalls:
                    return lab + "-runs-user-code"
        return None


_CMP = {"<": "LT", "<=": "LE", "==": "EQ", "!=": "NE", ">": "GT", ">=": "GE"}
_STR_FUNCS = None


def program_family(source):
    """Predicate family of a program, from its bytecode: the fallback construct label."""
    import dis

    from mc import progen

    global _STR_FUNCS
    if _STR_FUNCS is None:
        from pynguin.analyses.constants import DynamicConstantProvider
        _STR_FUNCS = set(DynamicConstantProvider.STRING_FUNCTION_LOOKUP) | {"startswith", "endswith"}
    fam = []

    def add(x):
        if x not in fam:
            fam.append(x)

    for co in progen.code_objects(compile(source, "<c01>", "exec")):
        prev = None
        for ins in dis.get_instructions(co):
            n = ins.opname
            if n == "COMPARE_OP":
                add(_CMP.get(ins.argrepr.replace("bool(", "").replace(")", ""), "CMP"))
            elif n == "CONTAINS_OP":
                add("IN")
            elif n == "IS_OP":
                add("IS")
            elif n in ("POP_JUMP_IF_NONE", "POP_JUMP_IF_NOT_NONE"):
                add("NONE")
            elif n in ("POP_JUMP_IF_TRUE", "POP_JUMP_IF_FALSE"):
                if prev not in ("COMPARE_OP", "CONTAINS_OP", "IS_OP", "CHECK_EXC_MATCH"):
                    add("BOOL")
            elif n == "FOR_ITER":
                add("FOR")
            elif n == "CHECK_EXC_MATCH":
                add("EXC_MATCH")
            elif n == "LOAD_ATTR" and ins.argval in _STR_FUNCS:
                add(ins.argval)
            elif n.startswith("MATCH_"):
                add("MATCH")
            elif n == "LOAD_FAST_AND_CLEAR":
                add("COMPREHENSION")
            elif n in ("BEFORE_WITH", "BEFORE_ASYNC_WITH"):
                add("WITH")
            elif n in ("BINARY_SLICE", "STORE_SLICE"):
                add("SLICE")
            elif n == "LOAD_SUPER_ATTR":
                add("SUPER")
            if n not in ("CACHE", "EXTENDED_ARG"):
                prev = n
    if not fam:
        return "straight-line"
    # distinctive features first: a deviation that is not attributed to a tracer callback is, in a small
    # program, almost always about them
    strs = [x for x in fam if x in _STR_FUNCS] or [x for x in fam if x in ("COMPREHENSION", "WITH", "SLICE", "SUPER")]
    if strs:
        return "+".join(strs)
    if len(fam) > 3:
        return "mixed"
    return "+".join(fam)


def minimal_subset(showing):
    """Label of the smallest metric subset among those that show a deviation ('any' = all eight)."""
    showing = {tuple(s) for s in showing}
    if len(showing) == len(SUBSETS):
        return "any", ()
    best = min(showing, key=lambda s: (len(s), [METRICS.index(m) for m in s]))
    return ("+".join(best) if best else "seeding-only"), best


# ------------------------------------------------------------------ one program
def load_plain(name, path):
    import importlib.util

    spec = importlib.util.spec_from_file_location(name, path)
    mod = importlib.util.module_from_spec(spec)
    sys.modules[name] = mod          # as the import system does (enum / dataclasses look the module up)
    try:
        spec.loader.exec_module(mod)
    except BaseException:
        sys.modules.pop(name, None)
        raise
    return mod


def subset_tag(subset):
    return "".join(m[0] for m in subset) or "N"


def mark(progress, *parts):
    """Progress marker in shared memory: what the forked child is about to do (read after a crash)."""
    if progress is not None:
        import resource
        import time

        b = "|".join(parts).encode("utf-8", "replace")[:500]
        progress.seek(0)
        progress.write(b + b"\0" * (512 - len(b)))
        # CPU budget of the step (load independent): a hang ends in SIGXCPU instead of blocking the check
        budget = CALL_CPU_BUDGET if parts[-1] == "call" else ITEM_CPU_BUDGET
        _soft, hard = resource.getrlimit(resource.RLIMIT_CPU)
        resource.setrlimit(resource.RLIMIT_CPU, (int(time.process_time()) + 1 + budget, hard))


def check_program(col, scratch, name, source, meta, pairs=None, sample_every=0, skip=frozenset(),
                  progress=None):
    """Plain vs. instrumented under all 8 subsets for every input pair of one program."""
    from mc import progen, pyn

    pyn.reset_config()
    rank0 = (meta.get("size") or 99) * 1000
    base = f"{name}_c01"
    files = []
    plain_path = progen.write_program(scratch, base + "_p", source)
    files.append(plain_path)
    data0 = {"kind": "program", "name": name, "source": source, "meta_constructs": meta.get("constructs", []),
             "size": meta.get("size")}
    try:
        plain = load_plain(base + "_p", plain_path)
    except Exception as exc:  # noqa: BLE001
        col.count("programs_not_loadable")
        col.note("program_not_loadable_example", f"{name}: {exc!r}")
        return
    suts = {}
    for subset in SUBSETS:
        if subset_tag(subset) in skip:
            col.count("subsets_skipped_after_interpreter_crash")
            continue
        sut = pyn.Sut(source, scratch, name=f"{base}_i{subset_tag(subset)}", coverage=subset)
        files.append(sut.path)
        mark(progress, subset_tag(subset), "-", "-", "import")
        try:
            sut.__enter__()
        except BaseException as exc:  # noqa: BLE001
            if isinstance(exc, KeyboardInterrupt):
                raise
            with contextlib.suppress(Exception):
                sut.__exit__(None, None, None)
            suts[subset] = exc
            continue
        suts[subset] = sut
    failed = {s: e for s, e in suts.items() if isinstance(e, BaseException)}
    if failed:
        by_exc = {}
        for s, e in failed.items():
            by_exc.setdefault(type(e).__name__, []).append(s)
        for en, ss in by_exc.items():
            lab, _ = minimal_subset(ss)
            col.violation(f"C01|{lab}|{program_family(source)}|-|instrumentation-raises:{en}",
                          f"importing {name} through the instrumentation hook with {lab} raised "
                          f"{failed[ss[0]]!r}; the plain import succeeds\n{source}",
                          dict(data0, a=None, b=None), rank=rank0)
    live = {s: x for s, x in suts.items() if not isinstance(x, BaseException)}
    try:
        if pairs is None:
            pairs, uses_a, uses_b = input_pairs(meta, source)
        else:
            _p, uses_a, uses_b = input_pairs(meta, source)
        shape = progen.dis_signature(compile(source, "<c01>", "exec"))
        pending = []
        for idx, (la, lb) in enumerate(pairs):
            p = observe(plain, la, lb)
            col.count("plain_calls")
            ca, cb = (cls_of(la) if uses_a else "-"), (cls_of(lb) if uses_b else "-")
            col.distinct("outcomes", p["outcome"][0] + ":" + (p["outcome"][1] if p["outcome"][0] == "exc" else
                                                               p["outcome"][1][:24]))
            col.distinct("nontrivial", (shape, ca, cb, p["outcome"][0], p["outcome"][1] if p["outcome"][0] == "exc" else ""))
            if p["oplog"]:
                col.count("plain_calls_with_user_operators")
            if p["stdout"]:
                col.count("plain_calls_with_stdout")
            by_sig = {}
            for subset, sut in live.items():
                mark(progress, subset_tag(subset), la, lb, "call")
                i = observe(sut.module, la, lb, tracer=sut.tracer)
                col.count("evaluations")
                col.count("evaluations_" + (subset_tag(subset)))
                for sig in compare(p, i, la, lb):
                    by_sig.setdefault(sig, []).append(subset)
                    col.count("deviating_evaluations")
            for sig, showing in by_sig.items():
                pending.append((idx, la, lb, ca, cb, sig, showing, p))
            if sample_every and not by_sig:
                col.sample({"program": name, "source": source, "a": la, "b": lb,
                            "plain_outcome": list(p["outcome"])[:2], "operator_log": [list(e) for e in p["oplog"]],
                            "subsets_compared": len(live), "agrees": True}, every=sample_every)
        # effect guards: the instrumentation really ran
        for subset, sut in live.items():
            tr = sut.tracer.get_trace()
            if "LINE" in subset and tr.covered_line_ids:
                col.count("effect_LINE")
            if "BRANCH" in subset and tr.executed_predicates:
                col.count("effect_BRANCH")
            if "CHECKED" in subset and tr.executed_instructions:
                col.count("effect_CHECKED")
            dcp = getattr(getattr(sut._hook, "hook", None), "_dynamic_constant_provider", None)  # noqa: SLF001
            if dcp is not None and len(dcp._pool) > 0:  # noqa: SLF001
                col.count("effect_SEEDING")
        # a deviation that shows for every input pair of the menu does not depend on the values
        if len(pairs) > 1:
            groups = {}
            for entry in pending:
                groups.setdefault((entry[5], tuple(entry[6])), []).append(entry)
            pending = []
            for grp in groups.values():
                if len(grp) == len(pairs) or (len(pairs) >= 6 and 3 * len(grp) >= 2 * len(pairs)):
                    word = "any" if len(grp) == len(pairs) else "most"
                    idx, la, lb, _ca, _cb, sig, showing, p = grp[0]
                    pending.append((idx, la, lb, word, word, sig, showing, p))
                else:
                    pending.extend(grp)
            pending.sort(key=lambda e: e[0])
        # attribution + reporting (extra calls happen after every compared call of this program)
        fam = None
        for idx, la, lb, ca, cb, sig, showing, p in pending:
            lab, best = minimal_subset(showing)
            construct = None
            sut = live.get(best if lab != "any" else SUBSETS[-1]) or next(iter(live.values()))
            mark(progress, subset_tag(best if lab != "any" else SUBSETS[-1]), la, lb, "call")
            with Attribution(user_dir=scratch) as attr:
                observe(sut.module, la, lb, tracer=sut.tracer)
                construct = attr.construct_for(sig)
                eaten = attr.construct_for("iterator-consumed")
            if eaten and sig.split(":")[0] in ("return-differs", "exception-differs", "state-differs",
                                               "raises-only-instrumented"):
                # the callback advanced a one-shot iterator argument (both runs end with it exhausted, so the
                # post-state alone does not show it); what follows is downstream of that one deviation
                sig, construct = "iterator-consumed", eaten
            if construct is None:
                fam = fam or program_family(source)
                construct = fam
            classes = f"{ca},{cb}"
            if sig.startswith("extra-operator"):
                # which operand carried the operator does not distinguish defects: name the user classes only
                users = sorted({c_ for c_ in (ca, cb) if c_.startswith("user")})
                classes = "+".join(users) or classes
            fp = f"C01|{lab}|{construct}|{classes}|{sig}"
            col.violation(fp, describe(name, source, la, lb, lab, sig, p),
                          dict(data0, a=la, b=lb, expect=fp, full_menu=ca in ("any", "most")), rank=rank0 + idx)
    finally:
        for sut in live.values():
            with contextlib.suppress(Exception):
                sut.__exit__(None, None, None)
        sys.modules.pop(base + "_p", None)
        for f in files:
            with contextlib.suppress(OSError):
                os.remove(f)


def describe(name, source, la, lb, lab, sig, p):
    return (f"{name}: f({la}, {lb}) instrumented with {lab} metrics (+ dynamic seeding): {sig}; "
            f"plain outcome {p['outcome'][0]} {p['outcome'][1][:60]}, plain operator log {p['oplog']}\n{source}")


# ------------------------------------------------------------------ stdlib leg
def stdlib_source(modname):
    import sysconfig

    base = sysconfig.get_paths()["stdlib"]
    for path in (os.path.join(base, *modname.split(".")) + ".py",
                 os.path.join(base, *modname.split("."), "__init__.py")):
        if os.path.exists(path):
            with open(path, encoding="utf-8") as fh:
                return path, fh.read()
    return None, None


def namespace_shape(module):
    return tuple(sorted((k, type(v).__name__) for k, v in vars(module).items() if not k.startswith("__")))


def smoke(module, expr, tracer=None):
    from mc import values

    values.oplog_clear()
    buf = io.StringIO()
    with contextlib.redirect_stdout(buf):
        try:
            if tracer is not None:
                tracer.init_trace()
                with tracer:
                    out = ("ret", repr(canon(eval(expr, {"m": module}))))  # noqa: S307
            else:
                out = ("ret", repr(canon(eval(expr, {"m": module}))))  # noqa: S307
        except KeyboardInterrupt:
            raise
        except BaseException as exc:  # noqa: BLE001
            out = ("exc", type(exc).__name__)
    return out, buf.getvalue()


def check_stdlib(col, scratch, modname, skip=frozenset(), progress=None):
    from mc import progen, pyn

    origin, source = stdlib_source(modname)
    if source is None:
        col.count("stdlib_unavailable")
        return
    pyn.reset_config()
    base = "c01std_" + modname.replace(".", "_")
    lab = "+".join(METRICS)
    data = {"kind": "stdlib", "module": modname}
    files = [progen.write_program(scratch, base + "_p", source)]
    try:
        try:
            plain = load_plain(base + "_p", files[0])
        except Exception as exc:  # noqa: BLE001
            col.count("stdlib_plain_import_failed")
            col.note("stdlib_plain_import_failed_example", f"{modname}: {type(exc).__name__}")
            return
        col.count("stdlib_modules")
        n_code = sum(1 for _ in progen.code_objects(compile(source, origin, "exec")))
        if subset_tag(METRICS) in skip:
            return
        sut = pyn.Sut(source, scratch, name=base + "_i", coverage=METRICS)
        files.append(sut.path)
        col.count("evaluations")
        mark(progress, subset_tag(METRICS), "-", "-", "import")
        try:
            sut.__enter__()
        except BaseException as exc:  # noqa: BLE001
            if isinstance(exc, KeyboardInterrupt):
                raise
            with contextlib.suppress(Exception):
                sut.__exit__(None, None, None)
            col.violation(f"C01|{lab}|stdlib:{modname}|-|instrumentation-raises:{type(exc).__name__}",
                          f"importing a copy of stdlib module {modname} through the instrumentation hook raised "
                          f"{exc!r}; the plain import of the same copy succeeds", data, rank=10 ** 6)
            return
        try:
            col.count("stdlib_code_objects", n_code)
            col.count("stdlib_code_objects_instrumented", len(sut.props.existing_code_objects))
            col.distinct("nontrivial", ("stdlib", modname))
            if namespace_shape(plain) != namespace_shape(sut.module):
                diff = sorted(set(namespace_shape(plain)) ^ set(namespace_shape(sut.module)))[:6]
                col.violation(f"C01|{lab}|stdlib:{modname}|-|state-differs",
                              f"module namespace of instrumented {modname} differs from the plain import: {diff}",
                              data, rank=10 ** 6)
            for expr in SMOKE.get(modname, ()):
                mark(progress, subset_tag(METRICS), expr, "-", "call")
                po, pout = smoke(plain, expr)
                io_, iout = smoke(sut.module, expr, tracer=sut.tracer)
                col.count("evaluations")
                col.count("stdlib_smoke_calls")
                col.distinct("outcomes", "stdlib:" + po[0] + ":" + po[1][:24])
                sig = None
                if po[0] == "ret" and io_[0] == "exc":
                    sig = f"raises-only-instrumented:{io_[1]}"
                elif po[0] == "exc" and po[1] != (io_[1] if io_[0] == "exc" else "none"):
                    sig = f"exception-differs:{po[1]}->{io_[1] if io_[0] == 'exc' else 'none'}"
                elif po != io_:
                    sig = "return-differs"
                elif pout != iout:
                    sig = "stdout-differs"
                if sig:
                    col.violation(f"C01|{lab}|stdlib:{modname}|-|{sig}",
                                  f"{modname}: {expr} -> plain {po}, instrumented {io_}",
                                  dict(data, expr=expr), rank=10 ** 6)
        finally:
            with contextlib.suppress(Exception):
                sut.__exit__(None, None, None)
    finally:
        sys.modules.pop(base + "_p", None)
        for f in files:
            with contextlib.suppress(OSError):
                os.remove(f)


# ------------------------------------------------------------------ job list / shards
def extras():
    from mc import progen

    out = []
    entries = list(EXTRAS)
    # every condition of the grammar once in the smallest program that has it (the quick tier only samples
    # the size-3 programs in which the rich conditions first appear)
    for i, (cond, tags, _rich) in enumerate(progen.CONDS):
        entries.append((f"cond-{i:02d}", " ".join(sorted(tags | {"if"})),
                        f"def f(a, b):\n    x = 0\n    if {cond}:\n        x = 1\n    return x\n"))
    for label, tags, src in entries:
        meta = {"constructs": sorted(tags.split()), "size": src.count("\n"), "depth": None, "kind": "extra",
                "func": "f", "params": ("a", "b"), "executable": True, "body": src.split("\n")}
        out.append((f"extra_{label.replace('-', '_')}", src, meta))
    return out


def job_list(tier):
    """Deterministic list of work items: ('stdlib', mod) | ('program', name, source, meta)."""
    from mc import progen

    jobs = [("stdlib", m) for m in (STDLIB_QUICK if tier == "quick" else STDLIB)]
    progs = list(progen.seeds()) + extras()
    bound = 2 if tier == "quick" else 3
    progs += list(progen.programs(bound, 2))
    n_sampled = 0
    if tier == "quick":
        for name, source, meta in progen.programs(3, 2):
            if meta["size"] == 3 and progen.shard_of(name, QUICK_SAMPLE) == 0:
                progs.append((name, source, meta))
                n_sampled += 1
    jobs += [("program", n, s, m) for n, s, m in progs]
    return jobs, n_sampled


def warm_up():
    """Import everything a forked child needs, once, in the (fresh) shard process."""
    from mc import pyn

    pyn.reset_config()
    import pynguin.instrumentation.machinery  # noqa: F401
    import pynguin.instrumentation.tracer  # noqa: F401
    by_label()


JOB_TIMEOUT = 1800       # wall-clock backstop per work item (SIGALRM); the real limits are CPU budgets:
ITEM_CPU_BUDGET = 240    # CPU seconds for importing / instrumenting one module (largest observed: ast, ~30 s)
CALL_CPU_BUDGET = 20     # CPU seconds for one instrumented call (largest observed: well below 1 s)


def isolated(col, items):
    """Run work items in a forked child, one child for as many items as survive.

    ``items``: list of ``(fn, args, crash_info)``; the child calls ``fn(sub_collector, *args, skip=...,
    progress=...)`` for one item after the other and streams the collectors back.  A child killed by a
    signal (the instrumented code crashed the interpreter, or hung until the alarm) is a violation
    ``interpreter-crash:<signal>`` for the item it was working on and the metric subset / input named by
    its progress marker; that item is then repeated, in a new child, without that subset and its supersets.
    ``crash_info(tag, la, lb, phase)`` -> (construct, value classes, description, data, rank).
    (fork + exit costs ~0.3 s of CPU on this machine, hence not one child per item.)"""
    import faulthandler
    import mmap
    import pickle
    import resource
    import signal
    import struct
    import traceback

    from mc.ctx import Collector

    nxt = 0
    skip = set()
    crashes_here = 0
    while nxt < len(items):
        progress = mmap.mmap(-1, 512)
        r, w = os.pipe()
        sys.stdout.flush()
        sys.stderr.flush()
        me = os.getpid()
        pid = os.fork()
        if pid == 0:
            status = 0
            try:
                os.close(r)
                faulthandler.disable()
                resource.setrlimit(resource.RLIMIT_CORE, (0, 0))
                out = os.fdopen(w, "wb")
                for i in range(nxt, len(items)):
                    if os.getppid() != me:
                        break
                    fn, args, _info = items[i]
                    sub = Collector()
                    mark(progress, "?", "-", "-", "harness")
                    signal.alarm(JOB_TIMEOUT)
                    try:
                        fn(sub, *args, skip=frozenset(skip) if i == nxt else frozenset(), progress=progress)
                        payload = pickle.dumps(("ok", sub))
                    except BaseException:  # noqa: BLE001
                        payload = pickle.dumps(("err", traceback.format_exc()))
                    signal.alarm(0)
                    out.write(struct.pack("<Q", len(payload)) + payload)
                    out.flush()
                out.close()
            except BaseException:  # noqa: BLE001
                status = 3
            finally:
                os._exit(status)
        os.close(w)
        done_before = nxt
        with os.fdopen(r, "rb") as fh:
            while True:
                head = fh.read(8)
                if len(head) < 8:
                    break
                (n,) = struct.unpack("<Q", head)
                payload = fh.read(n)
                if len(payload) < n:
                    break
                kind, obj = pickle.loads(payload)  # noqa: S301
                if kind == "err":
                    with contextlib.suppress(OSError):
                        os.kill(pid, signal.SIGKILL)
                    os.waitpid(pid, 0)
                    raise RuntimeError("harness failure in isolated child:\n" + obj)
                col.merge(obj)
                nxt += 1
                skip = set()
                crashes_here = 0
                if os.getppid() == 1:
                    with contextlib.suppress(OSError):
                        os.kill(pid, signal.SIGKILL)
                    os.waitpid(pid, 0)
                    raise RuntimeError("the check's main process is gone")
        _pid, status, usage = os.wait4(pid, 0)
        col.count("child_cpu_ms", int((usage.ru_utime + usage.ru_stime) * 1000))
        col.count("children_forked")
        if os.WIFEXITED(status) and os.WEXITSTATUS(status) == 0 and nxt == len(items):
            return
        if not os.WIFSIGNALED(status):
            raise RuntimeError(f"isolated child ended with status {status} after {nxt - done_before} items")
        signame = signal.Signals(os.WTERMSIG(status)).name
        died = "hang" if signame in ("SIGXCPU", "SIGALRM") else f"interpreter-crash:{signame}"
        marker = bytes(progress[:]).rstrip(b"\0").decode("utf-8", "replace").split("|")
        if len(marker) != 4 or marker[3] == "harness" or marker[0] in skip or crashes_here > len(SUBSETS):
            raise RuntimeError(f"isolated child killed by {signame} outside an instrumented step: {marker}")
        tag, la, lb, phase = marker
        crashed = next(ss for ss in SUBSETS if subset_tag(ss) == tag)
        construct, classes, what, data, rank = items[nxt][2](tag, la, lb, phase)
        lab = "+".join(crashed) if crashed else "seeding-only"
        col.violation(f"C01|{lab}|{construct}|-|{died}",
                      f"{what}: the interpreter died with {signame} ({classes}) during the instrumented {phase} "
                      f"with {lab} metrics (+ dynamic seeding); the plain module runs normally", data, rank=rank)
        col.count("interpreter_crashes")
        crashes_here += 1
        skip |= {subset_tag(ss) for ss in SUBSETS if set(crashed) <= set(ss)}


def program_crash_info(name, source, meta):
    def info(tag, la, lb, phase):
        _pairs, uses_a, uses_b = input_pairs(meta, source)
        if phase == "import":
            classes, a, b = "-", None, None
        else:
            classes = f"{cls_of(la) if uses_a else '-'},{cls_of(lb) if uses_b else '-'}"
            a, b = la, lb
        data = {"kind": "program", "name": name, "source": source, "meta_constructs": meta.get("constructs", []),
                "size": meta.get("size"), "a": a, "b": b}
        return (program_family(source), classes, f"{name}: f({la}, {lb})\n{source}", data,
                (meta.get("size") or 99) * 1000)
    return info


def stdlib_crash_info(modname):
    def info(tag, la, lb, phase):
        return (f"stdlib:{modname}", "-", f"stdlib module {modname} ({la})",
                {"kind": "stdlib", "module": modname}, 10 ** 6)
    return info


# heavy stdlib modules first within a shard so that the tail is made of small programs
def shard(col, tier, k, nshards):
    import shutil
    import tempfile

    from mc import progen

    sys.dont_write_bytecode = True
    warm_up()
    scratch = tempfile.mkdtemp(prefix="c01_", dir="/dev/shm" if os.path.isdir("/dev/shm") else None)
    sys.path.insert(0, scratch)
    try:
        jobs, _n = job_list(tier)
        first = True
        items = []
        for i, job in enumerate(jobs):
            if i % nshards != k:
                continue
            if job[0] == "stdlib":
                items.append((check_stdlib, (scratch, job[1]), stdlib_crash_info(job[1])))
                continue
            _kind, name, source, meta = job
            if first:
                # determinism gate: the same observation twice
                first = False
                path = progen.write_program(scratch, name + "_c01_gate", source)
                o1 = observe(load_plain(name + "_c01_gate", path), "u:lt+gt:bool", "src:1")
                o2 = observe(load_plain(name + "_c01_gate", path), "u:lt+gt:bool", "src:1")
                sys.modules.pop(name + "_c01_gate", None)
                os.remove(path)
                if {k_: v for k_, v in o1.items() if k_ != "exc"} != {k_: v for k_, v in o2.items() if k_ != "exc"}:
                    raise RuntimeError(f"determinism gate failed for {name}")
            col.count("programs")
            col.count("programs_" + meta["kind"])
            code = compile(source, f"<{name}>", "exec")
            ev = progen.construct_evidence(code)
            for t in meta["constructs"]:
                col.distinct("constructs_declared", t)
                if t in ev or t in ("endswith",):
                    col.distinct("constructs_evidenced", t)
            for op in progen.opcodes(code):
                col.distinct("opcodes", op)
            items.append((check_program, (scratch, name, source, meta, None,
                                          97 if meta["kind"] == "grammar" else 13),
                          program_crash_info(name, source, meta)))
        isolated(col, items)
    finally:
        with contextlib.suppress(ValueError):
            sys.path.remove(scratch)
        shutil.rmtree(scratch, ignore_errors=True)


# ------------------------------------------------------------------ entry points
def run(ctx):
    from mc import par, progen

    tier = "quick" if ctx.quick else "thorough"
    nshards = max(1, ctx.workers) * (1 if ctx.quick else 4)
    order = list(range(nshards))
    if ctx.seed:
        order = order[ctx.seed % nshards:] + order[:ctx.seed % nshards]
    par.run_shards("props.c01_instr_transparent:shard", [(tier, k, nshards) for k in order], ctx.workers, ctx)

    jobs, n_sampled = job_list(tier)
    c = ctx.col.counters
    n_prog = sum(1 for j in jobs if j[0] == "program")
    ctx.require(c.get("programs", 0) == n_prog, f"programs checked {c.get('programs')} != enumerated {n_prog}")
    ctx.require(c.get("programs_not_loadable", 0) == 0,
                f"a corpus program is not importable: {ctx.col.notes.get('program_not_loadable_example')}")
    n_std = sum(1 for j in jobs if j[0] == "stdlib")
    ctx.require(c.get("stdlib_modules", 0) >= n_std - 3,
                f"only {c.get('stdlib_modules')} of {n_std} stdlib modules importable under a new name "
                f"({ctx.col.notes.get('stdlib_plain_import_failed_example')})")
    per = {subset_tag(s): c.get("evaluations_" + subset_tag(s), 0) for s in SUBSETS}
    ctx.require(all(v > 0 for v in per.values()), f"a metric subset was never evaluated: {per}")
    if not any("instrumentation-raises" in fp for fp in ctx.col.violations) and not c.get("interpreter_crashes"):
        # (a subset whose import raises or that crashed the interpreter is reported and has no calls)
        ctx.require(len(set(per.values())) == 1, f"metric subsets evaluated unevenly: {per}")
    for key in ("effect_LINE", "effect_BRANCH", "effect_CHECKED", "effect_SEEDING", "plain_calls_with_user_operators",
                "plain_calls_with_stdout", "stdlib_smoke_calls"):
        ctx.require(c.get(key, 0) > 0, f"vacuous: {key} never observed")
    ctx.require(len(ctx.col.sets.get("outcomes", ())) >= 20, "vacuous: too few distinct outcomes")
    declared = ctx.col.sets.get("constructs_declared", set())
    evidenced = ctx.col.sets.get("constructs_evidenced", set())
    ctx.require(declared and declared == evidenced,
                f"vacuity: {len(declared - evidenced)} declared constructs never seen in the bytecode")
    if not ctx.quick:
        ctx.require(c.get("programs_grammar", 0) == sum(progen.count(3, 2).values()), "grammar bound not covered")
    ctx.note("bounds", {
        "tier": tier, "programs": n_prog, "grammar_bound": "size<=2 depth<=2 all" + (
            f" + size-3 programs with shard_of(name,{QUICK_SAMPLE})==0 ({n_sampled} of {progen.count(3, 2)[3]})"
            if ctx.quick else "; size<=3 depth<=2 all"),
        "seeds": len(progen.seeds()), "extras": len(extras()), "stdlib_modules": n_std,
        "sharp_values": SHARP, "cross_pairs": len(CROSS), "metric_subsets": 8})
    ctx.note("evaluations_per_subset", per)
    ctx.note("child_cpu_seconds", round(c.get("child_cpu_ms", 0) / 1000))
    ctx.exhaustive = not ctx.quick
    ctx.rule = ("one evaluation = one call f(a, b) of an instrumented module (one metric subset) compared with the "
                "same call of the plain module (or one stdlib import / smoke call); non-trivial = distinct "
                "(bytecode shape of the program incl. operators, value class of a, value class of b, plain outcome "
                "kind / exception type)")
    ctx.assume("an argument that the body of f never mentions is held at 0")
    ctx.assume("exceptions are compared by type only; an exception message may mention module names")
    ctx.assume("what follows a consumed one-shot iterator in the same call (different return value) is reported "
               "once, as iterator-consumed")
    ctx.assume("CPython 3.12; dynamic seeding provider = the default one install_import_hook creates")


def replay(ctx, data):
    import shutil
    import tempfile

    sys.dont_write_bytecode = True
    warm_up()
    scratch = tempfile.mkdtemp(prefix="c01r_", dir="/dev/shm" if os.path.isdir("/dev/shm") else None)
    sys.path.insert(0, scratch)
    try:
        if data.get("kind") == "stdlib":
            isolated(ctx.col, [(check_stdlib, (scratch, data["module"]), stdlib_crash_info(data["module"]))])
        else:
            meta = {"constructs": data.get("meta_constructs", []), "size": data.get("size"), "kind": "replay"}
            pairs = None if data.get("a") is None or data.get("full_menu") else [(data["a"], data["b"])]
            isolated(ctx.col, [(check_program, (scratch, data["name"], data["source"], meta, pairs, 0),
                                program_crash_info(data["name"], data["source"], meta))])
    finally:
        with contextlib.suppress(ValueError):
            sys.path.remove(scratch)
        shutil.rmtree(scratch, ignore_errors=True)
