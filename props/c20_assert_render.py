"""C20 — rendered assertions are valid Python and hold for the observed value.

Bounded-exhaustive value enumeration (E3) against the real decision and render
path. For every value of the stated space

* the value is put where the real ``RemoteAssertionTraceObserver`` looks (bound
  variable ``var_0``; public field ``var_0.x`` of a SUT object; public static
  field of the SUT module / of a SUT class) and the observer's public
  ``after_statement_execution`` is called, so the *decision* to assert and the
  assertion kind (Float / Object / IsInstance / TypeName / CollectionLength) are
  the real ones (``_handle`` -> ``_check_reference`` -> ``_check_value``);
* every assertion of the resulting trace is rendered with the real
  ``assertion_to_cst``, turned into source with ``cst.Module(...).code``,
  compiled, and executed with the observed object bound, in the module namespace
  of the exported test file. That namespace is produced by the real
  ``TestSuiteWriter.write`` on a suite against the scratch SUT module and by
  executing the written file (one representative assertion of the same kind is
  attached, as the import block may depend on the rendered assertions; two
  reachable variants: ``plain`` = what the writer emits when no statement
  raises and the SUT does not use ``random``; ``pytest`` = what it emits with
  a seed fixture, i.e. with ``import pytest``).

Oracle (property text): rendering does not raise, the code compiles, the
assertion passes. For every violation the same code is also evaluated in the
namespace the real ``TestCaseExecutor._build_namespace`` gives the assertion
*filter* (``RemoteAssertionVerificationObserver``): ``filter=dropped`` means
the default pipeline would silently discard the assertion before export,
``filter=kept`` means it reaches the exported file and fails there,
``filter=crash`` means rendering raises inside the filter and the writer.

An end-to-end leg binds this hybrid to the real pipeline: for every atom, type
and length value and a float list the real ``AssertionGenerator`` (real
executor, real filter pass) and the real ``TestSuiteWriter`` (black formatting
on) produce a test file, which is executed; its outcome must equal the outcome
the hybrid predicts, otherwise the run is a harness error.
"""

from __future__ import annotations

import itertools
import math
import os

ID = "C20"
LEVEL = "exploration"

SUT_NAME = "c20sut"
ALIAS = SUT_NAME + "_"
NSHARDS = 13
NSHARDS_E2E = 3

SUT_SRC = '''
import enum as _enum


class Color(_enum.Enum):
    RED = 1
    GREEN = 2


class Num(_enum.IntEnum):
    ONE = 1


class Perm(_enum.Flag):
    R = 1
    W = 2


class _Priv(_enum.Enum):
    X = 1


class Mode(_enum.StrEnum):
    FAST = "fast"


class LegacyStr(str, _enum.Enum):
    A = "a"


class Outer:
    class Inner(_enum.Enum):
        A = 1

    class InnerCls:
        pass


class Plain:
    pass


class _Hidden:
    pass


class Sized:
    def __init__(self, n):
        self._n = n

    def __len__(self):
        return self._n


class LenRaises:
    def __len__(self):
        raise ValueError("no len")


class Celsius(float):
    pass


class MyInt(int):
    pass


class MyStr(str):
    pass


class MyList(list):
    pass


def make_local():
    class Local:
        pass

    return Local()


_BOX = [None]


def get():
    return _BOX[0]


def ident(x):
    return x


class Holder:
    def __init__(self):
        self.x = _BOX[0]


class StaticHolder:
    pass
'''

# ------------------------------------------------------------------ value space
# An atom is (label, class used in fingerprints, expression). Expressions are evaluated
# with ``S`` = the scratch SUT module, ``nan``/``inf`` and the builtins.
ATOMS = [
    ("int:0", "int", "0"),
    ("int:1", "int", "1"),
    ("int:-1", "int", "-1"),
    ("int:2^53+1", "int", "2**53+1"),
    ("int:-10^30", "int", "-10**30"),
    ("bool:True", "bool", "True"),
    ("bool:False", "bool", "False"),
    ("None", "None", "None"),
    ("str:empty", "str", "''"),
    ("str:a", "str", "'a'"),
    ("str:squote", "str", "\"it's\""),
    ("str:dquote", "str", "'say \"hi\"'"),
    ("str:bothquotes", "str", "'\\'\"'"),
    ("str:backslash", "str", "'\\\\'"),
    ("str:nul", "str", "'\\x00'"),
    ("str:newline", "str", "'\\n'"),
    ("str:nonbmp", "str", "'\\U0001F600'"),
    ("str:surrogate", "str", "'\\ud800'"),
    ("str:braces", "str", "'{var_0}'"),
    ("bytes:empty", "bytes", "b''"),
    ("bytes:a", "bytes", "b'a'"),
    ("bytes:squote", "bytes", "b\"'\""),
    ("bytes:dquote", "bytes", "b'\"'"),
    ("bytes:backslash", "bytes", "b'\\\\'"),
    ("bytes:nul", "bytes", "b'\\x00'"),
    ("bytes:newline", "bytes", "b'\\n'"),
    ("bytes:ff", "bytes", "b'\\xff'"),
    ("complex:1+2j", "complex", "complex(1.0, 2.0)"),
    ("complex:0j", "complex", "complex(0.0, 0.0)"),
    ("complex:-1j", "complex", "complex(0.0, -1.0)"),
    ("complex:1.5-2.5j", "complex", "complex(1.5, -2.5)"),
    ("complex:-0re", "complex:negzero", "complex(-0.0, 0.0)"),
    ("complex:-0im", "complex:negzero", "complex(0.0, -0.0)"),
    ("complex:-0-0", "complex:negzero", "complex(-0.0, -0.0)"),
    ("complex:nan-re", "complex:nan", "complex(nan, 0.0)"),
    ("complex:nan-im", "complex:nan", "complex(0.0, nan)"),
    ("complex:inf-re", "complex:inf", "complex(inf, 0.0)"),
    ("complex:-inf-im", "complex:inf", "complex(0.0, -inf)"),
    ("enum:Color.RED", "enum:toplevel", "S.Color.RED"),
    ("enum:Color.GREEN", "enum:toplevel", "S.Color.GREEN"),
    ("enum:Num.ONE", "enum:intenum", "S.Num.ONE"),
    ("enum:Perm.R", "enum:flag", "S.Perm.R"),
    ("enum:Perm.R|W", "enum:flag-composite", "S.Perm.R | S.Perm.W"),
    ("enum:_Priv.X", "enum:private-class", "S._Priv.X"),
    ("enum:Outer.Inner.A", "enum:nested-class", "S.Outer.Inner.A"),
    ("enum:SafeUUID.safe", "enum:foreign-module", "__import__('uuid').SafeUUID.safe"),
    ("enum:Mode.FAST", "enum:str-mixin", "S.Mode.FAST"),
    ("enum:LegacyStr.A", "enum:str-mixin", "S.LegacyStr.A"),
    ("float:1.5", "float-elem", "1.5"),
    ("float:nan", "float-elem", "nan"),
]
ATOM_INDEX = {a[0]: i for i, a in enumerate(ATOMS)}

# reduced sets for the products that would otherwise explode (stated in ctx.rule)
CORE_ATOMS = ["int:-1", "bool:True", "None", "str:bothquotes", "bytes:backslash", "complex:1+2j",
              "enum:Color.RED", "enum:Outer.Inner.A", "float:1.5"]
DICT2_KEYS = ["int:0", "bool:True", "str:squote", "bytes:nul", "complex:-0re", "enum:Color.RED",
              "enum:_Priv.X", "None"]
DICT2_VALS = ["int:-10^30", "str:backslash", "complex:nan-re", "enum:Perm.R|W", "float:1.5", "None"]


def A(label):
    return ["a", ATOM_INDEX[label]]


def level1():
    """All containers over the atoms: list/tuple of 0,1,2; set/frozenset of 0,1,2; dict of 0,1 (all
    key x value) and 2 entries (reduced keys x reduced values)."""
    atoms = [["a", i] for i in range(len(ATOMS))]
    out = []
    for kind in ("list", "tuple"):
        out.append([kind, []])
        out += [[kind, [x]] for x in atoms]
        out += [[kind, [x, y]] for x in atoms for y in atoms]
    for kind in ("set", "frozenset"):
        out.append([kind, []])
        out += [[kind, [x]] for x in atoms]
        out += [[kind, [x, y]] for x, y in itertools.combinations(atoms, 2)]
    out.append(["dict", []])
    out += [["dict", [[k, v]]] for k in atoms for v in atoms]
    ks = [A(k) for k in DICT2_KEYS]
    vs = [A(v) for v in DICT2_VALS]
    out += [["dict", [[k1, v1], [k2, v2]]] for k1, k2 in itertools.combinations(ks, 2)
            for v1 in vs for v2 in vs]
    return out


def is_hashable_tree(t):
    if t[0] == "a":
        return True
    if t[0] in ("tuple", "frozenset"):
        return all(is_hashable_tree(c) for c in t[1])
    return False


def core_level1():
    """Representatives of every container kind: empty, one benign, one nasty element."""
    out = []
    for kind in ("list", "tuple", "set", "frozenset"):
        out.append([kind, []])
        out.append([kind, [A("int:1")]])
        out.append([kind, [A("complex:-0re")]])
        out.append([kind, [A("enum:Color.RED"), A("str:squote")]])
    out.append(["dict", []])
    out.append(["dict", [[A("str:a"), A("int:1")]]])
    out.append(["dict", [[A("enum:_Priv.X"), A("bytes:nul")]]])
    return out


def level2(l1, full=True):
    """Depth-2 values: every level-1 value wrapped once in every container kind that can hold it,
    plus all 2-element lists/tuples (and sets/frozensets/dicts where hashable) over the core."""
    out = []
    src = l1 if full else core_level1()
    for x in src:
        out.append(["list", [x]])
        out.append(["tuple", [x]])
        out.append(["dict", [[A("str:a"), x]]])
        if is_hashable_tree(x):
            out.append(["set", [x]])
            out.append(["frozenset", [x]])
            out.append(["dict", [[x, A("int:0")]]])
    core = [A(a) for a in CORE_ATOMS] + core_level1()
    nested = [c for c in core if c[0] != "a"]
    for kind in ("list", "tuple"):
        out += [[kind, [x, y]] for x in core for y in core if x[0] != "a" or y[0] != "a"]
    hcore = [c for c in core if is_hashable_tree(c)]
    for kind in ("set", "frozenset"):
        out += [[kind, [x, y]] for x, y in itertools.combinations(hcore, 2)
                if x[0] != "a" or y[0] != "a"]
    out += [["dict", [[A("int:0"), x], [A("str:a"), y]]] for x in nested for y in nested]
    # beyond the bound: probes of the is_assertable recursion cut-off (depth 3..6)
    deep = A("int:1")
    for _ in range(6):
        deep = ["list", [deep]]
        out.append(deep)
    return out


def build(tree, S):
    k = tree[0]
    if k == "a":
        return eval(ATOMS[tree[1]][2], _eval_ns(S))  # noqa: S307 - fixed table
    if k == "dict":
        return {build(kk, S): build(vv, S) for kk, vv in tree[1]}
    items = [build(c, S) for c in tree[1]]
    return {"list": list, "tuple": tuple, "set": set, "frozenset": frozenset}[k](items)


def tree_expr(tree):
    k = tree[0]
    if k == "a":
        return ATOMS[tree[1]][2]
    if k == "dict":
        return "{" + ", ".join(f"{tree_expr(a)}: {tree_expr(b)}" for a, b in tree[1]) + "}"
    inner = ", ".join(tree_expr(c) for c in tree[1])
    if k == "list":
        return f"[{inner}]"
    if k == "tuple":
        return f"({inner}{',' if len(tree[1]) == 1 else ''})"
    return f"{k}([{inner}])"


def tree_size(tree):
    if tree[0] == "a":
        return 1
    if tree[0] == "dict":
        return 1 + sum(tree_size(a) + tree_size(b) for a, b in tree[1])
    return 1 + sum(tree_size(c) for c in tree[1])


def tree_atoms(tree):
    if tree[0] == "a":
        yield tree[1]
    elif tree[0] == "dict":
        for a, b in tree[1]:
            yield from tree_atoms(a)
            yield from tree_atoms(b)
    else:
        for c in tree[1]:
            yield from tree_atoms(c)


def tree_shape(tree):
    return "atom" if tree[0] == "a" else tree[0]


def _eval_ns(S):
    return {"S": S, "nan": math.nan, "inf": math.inf}


# floats --------------------------------------------------------------------
def float_space(tier):
    xs = [0.0, -0.0, 1.5, -1.5, 1e308, -1e308, 5e-324, -5e-324, math.inf, -math.inf, math.nan,
          -math.nan, 1e16, 1e22, 1e-5, 0.1, 1e-7, 123456789.123456789, 2.0 ** 53, 2.0 ** 53 + 2,
          0.005, 0.01, 0.015, 1.7976931348623157e308, 2.2250738585072014e-308]
    for c in (0.0, 1.0, -1.0, 1e16, 1e22, 0.01):
        xs += [math.nextafter(c, math.inf), math.nextafter(c, -math.inf)]
    step = 1 if tier == "thorough" else 8
    ks = sorted(set(range(-1074, 1024, step)) | {-1074, -1073, -1023, -1022, -1021, -1, 0, 1, 52, 53,
                                                  54, 63, 64, 1022, 1023})
    for k in ks:
        p = math.ldexp(1.0, k)
        for v in (p, math.nextafter(p, math.inf), math.nextafter(p, 0.0)):
            xs += [v, -v]
    seen, out = set(), []
    for x in xs:
        h = "nan" if x != x and math.copysign(1, x) > 0 else "-nan" if x != x else x.hex()
        if h not in seen:
            seen.add(h)
            out.append(h)
    return out


def float_from(h):
    if h == "nan":
        return math.nan
    if h == "-nan":
        return -math.nan
    return float.fromhex(h)


def float_class(x):
    if x != x:
        return "nan"
    if math.isinf(x):
        return "inf" if x > 0 else "-inf"
    if x == 0:
        return "-0.0" if math.copysign(1, x) < 0 else "0.0"
    mag = "subnormal" if abs(x) < 2.2250738585072014e-308 else "finite"
    return ("-" if x < 0 else "") + mag


# objects whose type / length is asserted ---------------------------------------
TYPE_VALUES = [
    ("sut:Plain", "S.Plain()"),
    ("sut:nested-class", "S.Outer.InnerCls()"),
    ("sut:local-class", "S.make_local()"),
    ("sut:private-class", "S._Hidden()"),
    ("sut:float-subclass", "S.Celsius(1.5)"),
    ("sut:float-subclass-negzero", "S.Celsius(-0.0)"),
    ("sut:int-subclass", "S.MyInt(3)"),
    ("sut:str-subclass", "S.MyStr('ab')"),
    ("sut:list-subclass", "S.MyList([1])"),
    ("sut:len-raises", "S.LenRaises()"),
    ("sut:enum-class-object", "S.Color"),
    ("stdlib:Decimal", "__import__('decimal').Decimal('1.5')"),
    ("stdlib:Fraction", "__import__('fractions').Fraction(1, 3)"),
    ("stdlib:OrderedDict", "__import__('collections').OrderedDict(a=1)"),
    ("stdlib:deque", "__import__('collections').deque([1, 2])"),
    ("stdlib:date", "__import__('datetime').date(2020, 1, 2)"),
    ("stdlib:ValueError", "ValueError('x')"),
    ("builtin:object", "object()"),
    ("builtin:bytearray", "bytearray(b'a')"),
    ("builtin:range", "range(3)"),
    ("builtin:frozenset", "frozenset({1})"),
    ("builtin:memoryview", "memoryview(b'ab')"),
    ("builtin:slice", "slice(1, 2)"),
    ("builtin:dict_keys", "{1: 2}.keys()"),
    ("builtin:dict_values", "{1: 2}.values()"),
    ("builtin:list_iterator", "iter([1])"),
    ("builtin:generator", "(i for i in [1])"),
    ("builtin:ellipsis", "..."),
    ("builtin:NotImplemented", "NotImplemented"),
    ("builtin:mappingproxy", "type('T', (), {}).__dict__"),
    ("builtin:list-of-float", "[1.5]"),
    ("builtin:tuple-of-object", "(object(),)"),
]
LENGTH_VALUES = [(f"len{n}:{name}", expr.format(n=n)) for n in range(4) for name, expr in (
    ("list-of-float", "[1.5] * {n}"), ("frozenset", "frozenset(range({n}))"),
    ("sut-sized", "S.Sized({n})"), ("bytearray", "bytearray({n})"), ("range", "range({n})"),
    ("dict-float-values", "{{i: 1.5 for i in range({n})}}"), ("sut-str-subclass", "S.MyStr('x' * {n})"),
    ("deque", "__import__('collections').deque(range({n}))"))]
LENGTH_VALUES.append(("len-negative:sut-sized", "S.Sized(-1)"))

ROUTES = ("direct", "field", "modstatic", "clsstatic")


# ------------------------------------------------------------------ environment
class Env:
    """Per-process binding to the real pynguin: SUT, observer, render, namespaces."""

    def __init__(self, scratch, instrument=False):
        from mc import pyn
        import pynguin.configuration as config

        self.scratch = scratch
        os.makedirs(scratch, exist_ok=True)
        pyn.reset_config(SUT_NAME, scratch)
        config.configuration.test_case_output.filter_assertions_in_subprocess = False
        self.sut = pyn.Sut(SUT_SRC, scratch, name=SUT_NAME, instrument=instrument)
        self.sut.__enter__()
        self.S = self.sut.module
        self.pyn = pyn
        self.executor = self.sut.executor()
        self.exec_ns = self.executor._build_namespace()  # noqa: SLF001 - the filter's namespace
        self._export_ns = {}
        self.file_header = {}
        self._atom_cache = {}

    def close(self):
        self.sut.__exit__(None, None, None)

    # -- the exported file's namespace, produced by the real writer
    def two_statement_suite(self, holder=False):
        import pynguin.ga.testcasechromosome as tcc
        import pynguin.ga.testsuitechromosome as tsc

        ctor = f"{ALIAS}.Holder()" if holder else f"{ALIAS}.get()"
        t = self.pyn.test_case(f"var_0 = {ctor}", f"var_1 = {ALIAS}.ident(var_0)")
        ch = tcc.TestCaseChromosome(t)
        s = tsc.TestSuiteChromosome()
        s.add_test_case_chromosome(ch)
        return s, ch, t

    def write_suite(self, suite, seed=None, black=False):
        from pathlib import Path
        from pynguin.testcase.export import TestSuiteWriter

        out = os.path.join(self.scratch, "out")
        path = TestSuiteWriter().write(suite, SUT_NAME, Path(out), self.scratch,
                                       format_with_black=black, seed=seed,
                                       subject_properties=self.sut.props)
        return path.read_text()

    def exec_file(self, src):
        import random

        saved = random.Random.seed
        g = {"__name__": "test_" + SUT_NAME}
        try:
            with self.sut.tracer, self.sut.tracer.temporarily_disable():
                exec(compile(src, "<exported test file>", "exec"), g)  # noqa: S102
        finally:
            random.Random.seed = saved
        return g

    def export_namespaces(self, kind):
        """The exported file's globals for a test carrying an assertion of ``kind``: the writer's
        import block may depend on the assertions it renders, so one representative per kind."""
        out = {}
        for variant, seed in (("plain", None), ("pytest", 0)):
            if (variant, kind) not in self._export_ns:
                g, header = self._export_namespace(seed, kind)
                self._export_ns[variant, kind] = g
                self.file_header[f"{variant}/{kind}"] = header
            out[variant] = self._export_ns[variant, kind]
        return out

    def _export_namespace(self, seed, kind):
        import pynguin.assertion.assertion as ass

        self.S._BOX[0] = 0
        suite, _, t = self.two_statement_suite()
        t.statements()[0].assertions.append({
            "Float": ass.FloatAssertion("var_0", 1.5),
            "Object": ass.ObjectAssertion("var_0", 0),
            "IsInstance": ass.IsInstanceAssertion("var_0", "builtins", "int"),
            "TypeName": ass.TypeNameAssertion("var_0", "builtins", "int"),
            "CollectionLength": ass.CollectionLengthAssertion("var_0", 0),
        }[kind])
        src = self.write_suite(suite, seed=seed)
        g = self.exec_file(src)
        header = [ln for ln in src.splitlines() if ln.startswith(("import ", "from "))]
        for k in [k for k in g if k.startswith("test_")]:
            del g[k]
        return g, header

    # -- the real decision
    def decide(self, route, value):
        """Return (assertions, locals, cleanup) as the real trace observer decides them."""
        from pynguin.assertion.assertiontraceobserver import RemoteAssertionTraceObserver

        S = self.S
        obs = RemoteAssertionTraceObserver()
        st = self.pyn.stmt(f"var_0 = {ALIAS}.get()", bound_variable="var_0")
        if route == "direct":
            local = {"var_0": value}
        elif route == "field":
            S._BOX[0] = value
            local = {"var_0": S.Holder()}
        elif route == "modstatic":
            S.STATIC = value
            local = {"var_0": S.Plain()}
        elif route == "clsstatic":
            S.StaticHolder.CS = value
            local = {"var_0": S.StaticHolder()}
        else:
            raise AssertionError(route)
        ns = dict(local)
        ns[ALIAS] = S
        try:
            obs.after_statement_execution(st, None, ns, None)
            asserts = list(obs.get_trace().get_assertions(0))
        except BaseException:
            self.cleanup(route)
            raise
        return asserts, local

    def cleanup(self, route):
        S = self.S
        if route == "modstatic" and hasattr(S, "STATIC"):
            del S.STATIC
        if route == "clsstatic" and "CS" in vars(S.StaticHolder):
            del S.StaticHolder.CS

    # -- the real render + evaluation in the export namespaces
    def check(self, assertion, local):
        """Return a verdict dict; ``stage == "ok"`` iff the property holds for this assertion."""
        import libcst as cst
        from pynguin.assertion.assertion_to_ast import assertion_to_cst

        try:
            node = assertion_to_cst(assertion)
            code = cst.Module(body=[node]).code
        except Exception as exc:  # noqa: BLE001
            return {"stage": "render", "sig": _sig(exc), "ns": "both", "filter": "crash", "code": None}
        try:
            co = compile(code, "<assertion>", "exec")
        except Exception as exc:  # noqa: BLE001
            return {"stage": "compile", "sig": _sig(exc), "ns": "both", "filter": "dropped",
                    "code": code}
        fails = {}
        for name, g in self.export_namespaces(kind_of(assertion)).items():
            exc = _run(co, g, local)
            if exc is not None:
                fails[name] = _sig(exc)
        if not fails:
            return {"stage": "ok", "code": code}
        filt = "kept" if _run(co, self.exec_ns, local) is None else "dropped"
        ns = "both" if len(fails) == 2 else next(iter(fails)) + "-only"
        sig = fails.get("pytest") or fails["plain"]
        return {"stage": "exec", "sig": sig, "ns": ns, "filter": filt, "code": code}


def _run(co, g, local):
    try:
        exec(co, g, dict(local))  # noqa: S102
    except BaseException as exc:  # noqa: BLE001
        return exc
    return None


def _violation(col, fp, what, data, rank=None):
    """Record a violation with a printable (ASCII) description: values contain lone surrogates."""
    col.violation(fp, what.encode("ascii", "backslashreplace").decode("ascii"), data, rank=rank)


def _sig(exc):
    name = type(exc).__name__
    if isinstance(exc, NameError):
        return f"NameError({getattr(exc, 'name', None) or '-'})"
    if isinstance(exc, AssertionError):
        return "AssertionError"
    if type(exc) is SyntaxError:
        return "SyntaxError"
    msg = str(exc).splitlines()[0][:60] if str(exc) else ""
    msg = "".join(c if c.isalnum() or c in " .-_" else "_" for c in msg)
    msg = "".join("N" if c.isdigit() else c for c in msg)  # no positions / counts in fingerprints
    return f"{name}({msg})"


def kind_of(a):
    return type(a).__name__.replace("Assertion", "")


# ------------------------------------------------------------------ checking one case
def value_class_for(env, leg, spec, assertion, verdict):
    """Coarse class for the fingerprint: the culprit atom's class where one exists."""
    import builtins

    k = kind_of(assertion)
    if k == "Float":
        if verdict["sig"].startswith("NameError"):
            return "float:any"  # the value plays no role in this failure
        return "float:" + float_class(float(assertion.value))
    if k in ("IsInstance", "TypeName"):
        if "<locals>" in assertion.qualname:
            return "sut:local-class" if assertion.module == SUT_NAME else "local-class"
        if assertion.module == "builtins" and not hasattr(builtins, assertion.qualname):
            return "builtins:type-without-builtin-name"
        return f"{assertion.module.replace(SUT_NAME, 'sut')}.{assertion.qualname}"
    if k == "CollectionLength":
        return f"len:{assertion.length if assertion.length >= 0 else 'negative'}"
    if leg != "object":
        return "object"
    # ObjectAssertion on an enumerated tree: the first atom that fails on its own in the same
    # way (same stage and signature; else same stage)
    atoms = list(tree_atoms(spec))
    for same_sig in (True, False):
        for idx in atoms:
            av = atom_verdict(env, idx)
            if av is not None and av["stage"] == verdict["stage"] and (
                    not same_sig or av["sig"] == verdict["sig"]):
                return ATOMS[idx][1]
    return "container:" + tree_shape(spec)


def atom_verdict(env, idx):
    if idx not in env._atom_cache:
        import pynguin.assertion.assertion as ass
        value = eval(ATOMS[idx][2], _eval_ns(env.S))  # noqa: S307
        if isinstance(value, float):
            env._atom_cache[idx] = None
        else:
            env._atom_cache[idx] = env.check(ass.ObjectAssertion("var_0", value), {"var_0": value})
    return env._atom_cache[idx]


def make_value(env, leg, spec):
    if leg == "object":
        return build(spec, env.S)
    if leg == "float":
        return float_from(spec)
    return eval(spec, _eval_ns(env.S))  # noqa: S307 - fixed tables TYPE_VALUES / LENGTH_VALUES


def spec_text(leg, spec):
    if leg == "object":
        return tree_expr(spec)
    if leg == "float":
        return f"float {spec} = {float_from(spec)!r}"
    return spec


def check_case(col, env, leg, spec, route, rank):
    """One (value, route): real decision, then the oracle on every decided assertion."""
    value = make_value(env, leg, spec)
    try:
        asserts, local = env.decide(route, value)
    except Exception as exc:  # noqa: BLE001
        _violation(col, f"C20|decide|{leg}|{route}|{_sig(exc)}",
                      f"trace observer raised for {spec_text(leg, spec)} via {route}: {exc!r}",
                      {"leg": leg, "spec": spec, "route": route}, rank=rank)
        return []
    out = []
    try:
        col.count("evaluations")
        col.count(f"cases_{leg}")
        if not asserts:
            col.count("decided_no_assertion")
        for a in asserts:
            k = kind_of(a)
            col.count("assertions_checked")
            col.count(f"kind_{k}")
            col.distinct("kinds", k)
            verdict = env.check(a, local)
            if k == "IsInstance" and verdict.get("sig", "").startswith("NameError"):
                verdict["sig"] = "NameError(type-name)"
            out.append((a, verdict))
            if verdict["stage"] == "ok":
                col.count("assertions_passed")
                if col.distinct("nontrivial", (k, verdict["code"])):
                    col.sample({"value": spec_text(leg, spec), "route": route, "assertion": repr(a),
                                "code": verdict["code"].strip()}, every=997)
                continue
            cls = value_class_for(env, leg, spec, a, verdict)
            fp = (f"C20|{k}|{cls}|{verdict['stage']}:{verdict['sig']}|ns={verdict['ns']}"
                  f"|filter={verdict['filter']}")
            _violation(col, fp, f"{a!r} decided for {spec_text(leg, spec)} via {route}: "
                              f"{verdict['stage']} -> {verdict['sig']}"
                              + (f"; code: {verdict['code'].strip()}" if verdict["code"] else "")
                              + f"; fails in export namespace(s): {verdict['ns']}; assertion filter: "
                              + verdict["filter"],
                          {"leg": leg, "spec": spec, "route": route, "assertion": repr(a)}, rank=rank)
    finally:
        env.cleanup(route)
    return out


def all_cases(tier):
    """The whole stated space as (leg, spec, routes, rank) in a fixed order."""
    cases = []
    l1 = level1()
    for i in range(len(ATOMS)):
        cases.append(("object", ["a", i], ROUTES, 1))
    for t in l1:
        cases.append(("object", t, ("field", "modstatic") if tree_size(t) <= 2 else ("field",),
                      tree_size(t)))
    for t in level2(l1, full=(tier == "thorough")):
        cases.append(("object", t, ("field",), tree_size(t)))
    for h in float_space(tier):
        cases.append(("float", h, ("direct", "field"), 1))
    for h in float_space("quick")[:40]:
        cases.append(("float", h, ("modstatic", "clsstatic"), 1))
    for _, expr in TYPE_VALUES:
        cases.append(("type", expr, ROUTES, 1))
    for _, expr in LENGTH_VALUES:
        cases.append(("length", expr, ROUTES, 1))
    return cases


def job(col, kind, *args):
    (shard if kind == "main" else shard_e2e)(col, *args)


def shard(col, scratch, tier, seed, idx, nshards):
    env = Env(os.path.join(scratch, f"s{idx}"))
    try:
        cases = all_cases(tier)
        mine = cases[idx::nshards]
        if seed:
            import random
            random.Random(seed).shuffle(mine)
        for leg, spec, routes, rank in mine:
            for route in routes:
                check_case(col, env, leg, spec, route, rank)
        for k, v in sorted(env.file_header.items()):
            if k.startswith("plain/"):
                col.note("export_file_imports_" + k, v)
    finally:
        env.close()


# ------------------------------------------------------------------ end-to-end conformance
def e2e_cases():
    cases = [("object", ["a", i], h) for i in range(len(ATOMS)) for h in (False, True)]
    cases += [("object", t, True) for t in core_level1()]
    cases += [("float", h, hold) for h in float_space("quick")[:30] for hold in (False, True)]
    cases += [("type", e, hold) for _, e in TYPE_VALUES for hold in (False, True)]
    cases += [("length", e, True) for _, e in LENGTH_VALUES]
    return cases


def shard_e2e(col, scratch, idx, nshards):
    """Real AssertionGenerator + real writer + run the file; compare with the hybrid's prediction."""
    import logging
    import threading

    import pynguin.assertion.assertiongenerator as ag

    # the real pipeline logs "Bug in Pynguin!" and dumps thread tracebacks for the expected
    # render crashes; keep the check's output readable
    logging.disable(logging.CRITICAL)
    threading.excepthook = lambda args: None
    os.dup2(os.open(os.devnull, os.O_WRONLY), 2)  # pynguin re-enables logging itself
    env = Env(os.path.join(scratch, f"e{idx}"), instrument=True)
    try:
        for leg, spec, holder in e2e_cases()[idx::nshards]:
            with env.sut.tracer, env.sut.tracer.temporarily_disable():
                value = make_value(env, leg, spec)
            env.S._BOX[0] = value
            suite, ch, t = env.two_statement_suite(holder)
            col.count("e2e_cases")
            col.count("traces_validated_against_impl")
            crashed = None
            try:
                ag.AssertionGenerator(env.executor).visit_test_case_chromosome(ch)
                kept = list(t.statements()[0].assertions)
                src = env.write_suite(suite, seed=None, black=True)
                g = env.exec_file(src)
                exc = None
                with env.sut.tracer, env.sut.tracer.temporarily_disable():
                    try:
                        g["test_0"]()
                    except BaseException as e:  # noqa: BLE001
                        exc = e
                actual = "pass" if exc is None else "fail:" + _sig(exc)
            except Exception as exc:  # noqa: BLE001
                crashed = exc
                kept = list(t.statements()[0].assertions)
                actual = "pipeline-crash:" + _sig(exc)
            # prediction from the hybrid
            route = "field" if holder else "direct"
            with env.sut.tracer, env.sut.tracer.temporarily_disable():
                res = check_case(_Null(), env, leg, spec, route, 1)
            if any(v["stage"] == "render" for _, v in res):
                pred = "pipeline-crash"
            else:
                bad = [v for _, v in res if v["stage"] != "ok" and v["filter"] == "kept"
                       and v["ns"] in ("both", "plain-only")]
                pred = "fail" if bad else "pass"
            col.distinct("e2e_outcomes", actual.split(":")[0])
            col.count("e2e_kept_assertions", len(kept))
            if actual == "pass" and kept:
                col.count("e2e_passing_tests_with_assertions")
            if actual.split(":")[0] != pred:
                col.count("e2e_mismatch")
                col.note("e2e_first_mismatch",
                         f"{spec_text(leg, spec)} holder={holder}: real pipeline {actual}, hybrid "
                         f"predicts {pred}; kept={kept!r} crashed={crashed!r}")
            if actual != "pass":
                col.count("e2e_user_visible_failures")
    finally:
        env.close()


class _Null:
    """Collector stub: the e2e leg re-uses check_case only for its verdicts."""

    def count(self, *a, **k): pass
    def distinct(self, *a, **k): return False
    def sample(self, *a, **k): pass
    def note(self, *a, **k): pass
    def violation(self, *a, **k): pass


# ------------------------------------------------------------------ entry points
def run(ctx):
    from mc.par import run_shards

    scratch = ctx.scratch("c20_")
    n, ne = NSHARDS, NSHARDS_E2E
    run_shards("props.c20_assert_render:job",
               [("e2e", scratch, i, ne) for i in range(ne)]
               + [("main", scratch, ctx.tier, ctx.seed, i, n) for i in range(n)], ctx.workers, ctx)
    c = ctx.col.counters
    cases = all_cases(ctx.tier)
    expected = sum(len(r) for _, _, r, _ in cases)
    ctx.require(c.get("evaluations", 0) == expected,
                f"not every case ran: {c.get('evaluations')} of {expected}")
    ctx.require(len(ctx.col.sets.get("kinds", ())) == 5,
                f"vacuous: assertion kinds seen {len(ctx.col.sets.get('kinds', ()))} of 5")
    ctx.require(c.get("assertions_passed", 0) > 1000 and c.get("decided_no_assertion", 0) > 0,
                "vacuous: no passing assertions or the negative decision never taken")
    ctx.require(c.get("e2e_mismatch", 0) == 0,
                "hybrid namespace disagrees with the real pipeline: "
                + str(ctx.col.notes.get("e2e_first_mismatch")))
    ctx.require(c.get("e2e_passing_tests_with_assertions", 0) >= 50,
                "vacuous e2e leg: too few exported tests with assertions ran green")
    ctx.note("space", {"atoms": len(ATOMS), "level1": len(level1()),
                       "object_values": sum(1 for x in cases if x[0] == "object"),
                       "floats": len(float_space(ctx.tier)), "type_values": len(TYPE_VALUES),
                       "length_values": len(LENGTH_VALUES), "value_route_pairs": expected})
    ctx.exhaustive = True
    ctx.rule = ("every value of the stated space x its routes (bound variable / object field / module "
                "static / class static) through the real trace observer; every decided assertion "
                "rendered by assertion_to_cst, compiled and executed in both namespaces the real "
                f"TestSuiteWriter can emit. Space: {len(ATOMS)} atoms; all lists/tuples of 0-2 atoms, all "
                "sets/frozensets of 0-2 atoms, all dicts of 0-1 entries and 2-entry dicts over 8 keys "
                "x 6 values; depth 2: every such container (quick tier: each of 19 core containers) "
                "wrapped once more in every container kind that can "
                "hold it, plus all 2-element containers over a 9-atom/19-container core; nesting "
                "probes to depth 6; floats: specials, every 8th (thorough: every) power of two with "
                "both neighbours and both signs; 32 typed objects; lengths 0..3 x 8 collection kinds. "
                "non-trivial = distinct (assertion kind, rendered source) that passed")
    ctx.assume("the exported file's namespace is taken from the two import layouts the writer emits "
               "for a non-raising test (seed fixture absent / present); assertions are executed with "
               "the file's globals and {var_0: object} as locals instead of inside test_0")
    ctx.assume("filter verdicts use TestCaseExecutor._build_namespace() in-process "
               "(filter_assertions_in_subprocess=False)")


def replay(ctx, data):
    env = Env(os.path.join(ctx.scratch("c20_"), "r"))
    try:
        spec = data["spec"]
        check_case(ctx.col, env, data["leg"], spec, data["route"], 1)
    finally:
        env.close()
