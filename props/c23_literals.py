"""C23 — literal values round-trip through generated source.

Render leg (E3, bounded-exhaustive over a stated value set): every value goes
through the real ``literal_to_cst`` (scalars also directly through
``_int_to_cst`` / ``_float_to_cst`` / ``_complex_to_cst``); the expression must
render without raising, be a valid Python expression, evaluate (builtins only)
to a value of the same type that is equal under a sign-of-zero- and NaN-aware
structural equality, and ``parse_literal(expr, raw)`` must, for every ``raw``
for which it returns non-``None``, return that same value.

Generate/mutate leg (E2, stateless choice-tree exploration): ``generate_literal(t)``
for every literal type under the ``ChoiceRNG`` seam (every RNG draw is an
explorer-owned choice point, all executions with at most ``d`` non-default
answers), for 4 corner configurations of the ``test_creation`` limits, with an
empty and with an adversarially seeded constant provider, with and without a
reference pool; then ``mutate_literal`` from every distinct expression the
generate exploration produced (bound ``d-1``) and from a fixed list of parsed
seed-style literals. Oracle: never raises; result is a valid expression that
evaluates to an instance of ``t`` (int accepted for float, int/float for
complex: the numeric tower).
"""

from __future__ import annotations

import builtins
import itertools
import math
import string

ID = "C23"
LEVEL = "exploration"

NAN, INF = math.nan, math.inf


# ------------------------------------------------------------------ structural equality
def canon(v):
    """Hashable structural key: type-exact, sign of zero significant, all NaNs equal."""
    t = type(v)
    if t is float:
        if v != v:
            return ("float", "nan")
        return ("float", v.hex())
    if t is complex:
        return ("complex", canon(v.real), canon(v.imag))
    if t in (bool, int, str, bytes) or v is None:
        return (t.__name__, v)
    if t in (list, tuple):
        return (t.__name__, tuple(canon(x) for x in v))
    if t is set:
        return ("set", frozenset(canon(x) for x in v))
    if t is dict:
        return ("dict", frozenset((canon(k), canon(x)) for k, x in v.items()))
    return ("other", t.__name__, repr(v))


def diff_kind(a, b):
    """Why canon(a) != canon(b): 'type', 'sign-of-zero', 'nan', 'value'."""
    ca, cb = canon(a), canon(b)
    if ca == cb:
        return None
    if _typeshape(a) != _typeshape(b):
        return "type"
    if _erase(a, zero=True) == _erase(b, zero=True):
        return "sign-of-zero"
    return "value"


def _typeshape(v):
    t = type(v)
    if t in (list, tuple):
        return (t.__name__, tuple(_typeshape(x) for x in v))
    if t is set:
        return ("set", frozenset(_typeshape(x) for x in v))
    if t is dict:
        return ("dict", frozenset((_typeshape(k), _typeshape(x)) for k, x in v.items()))
    return t.__name__


def _erase(v, zero):
    t = type(v)
    if t is float:
        if v != v:
            return ("float", "nan")
        return ("float", abs(v).hex() if v == 0 else v.hex())
    if t is complex:
        return ("complex", _erase(v.real, zero), _erase(v.imag, zero))
    if t in (list, tuple):
        return (t.__name__, tuple(_erase(x, zero) for x in v))
    if t is set:
        return ("set", frozenset(_erase(x, zero) for x in v))
    if t is dict:
        return ("dict", frozenset((_erase(k, zero), _erase(x, zero)) for k, x in v.items()))
    return canon(v)


# ------------------------------------------------------------------ value space (render leg)
def float_space(tier):
    xs = [0.0, -0.0, 1.5, -1.5, 1e308, -1e308, 5e-324, -5e-324, INF, -INF, NAN, -NAN, 1e16, 1e22,
          1e-5, 0.1, 1e-7, 123456789.123456789, 2.0 ** 53, 2.0 ** 53 + 2, 1e15, 1e17, 9.999999999999999e22,
          1.7976931348623157e308, 2.2250738585072014e-308, 1.0, -1.0, 2.0, 100.0, 1e100, 1e-100]
    for c in (0.0, 1.0, -1.0, 1e16, 1e22, 1e-4):
        xs += [math.nextafter(c, INF), math.nextafter(c, -INF)]
    step = 1 if tier == "thorough" else 8
    ks = sorted(set(range(-1074, 1024, step)) | {-1074, -1073, -1023, -1022, -1021, -1, 0, 1, 52, 53,
                                                  54, 63, 64, 1022, 1023})
    for k in ks:
        p = math.ldexp(1.0, k)
        for v in (p, math.nextafter(p, INF), math.nextafter(p, 0.0)):
            xs += [v, -v]
    seen, out = set(), []
    for x in xs:
        key = ("nan", math.copysign(1, x)) if x != x else x.hex()
        if key not in seen:
            seen.add(key)
            out.append(x)
    return out


INTS = [0, 1, -1, 2, 255, -256, 2 ** 53, 2 ** 53 + 1, -2 ** 63, 2 ** 64, 10 ** 30, -10 ** 30, 10 ** 400,
        -10 ** 400]
COMPONENTS = [0.0, -0.0, 1.0, -1.0, 1.5, -2.5, INF, -INF, NAN, 5e-324, -5e-324, 1e308, 1e22, 1e16, 0.1]
STRS = ["", "a", "ab", "it's", 'say "hi"', "'\"", "'''", '"""', "\\", "\\'", "\x00", "\n", "\r\n", "\t",
        "\x7f", "\x85", " ", "é", "\U0001F600", "\ud800", "{x}", "%s", " ", "#", "\\N{DASH}"]
BYTESS = [b"", b"a", b"'", b'"', b"'\"", b"\\", b"\x00", b"\n", b"\xff", b"\x80abc", b"\\x00"]

# atoms used inside containers: (class label, value)
CORE = [("int", 0), ("int", -1), ("int", 2 ** 53 + 1), ("bool", True), ("bool", False), ("None", None),
        ("float", 1.5), ("float:-0.0", -0.0), ("float", 0.0), ("float:inf", INF), ("float:inf", -INF),
        ("float:nan", NAN), ("float", 5e-324), ("complex", complex(1, 2)),
        ("complex:negzero", complex(-0.0, 0.0)), ("complex:nonfinite", complex(NAN, -INF)),
        ("str", ""), ("str", "it's"), ("str", "'\""), ("str", "\\"), ("str", "\x00"), ("str", "\n"),
        ("str", "\U0001F600"), ("bytes", b""), ("bytes", b"\x00"), ("bytes", b"'")]
KEYS2 = [0, 3, 7, 16, 17, 24]      # indices into CORE used for 2-entry dicts (keys)
VALS2 = [1, 7, 11, 14, 19]         # ... and values


def scalar_class(v):
    t = type(v)
    if t is float:
        if v != v:
            return "float:nan"
        if math.isinf(v):
            return "float:inf"
        if v == 0:
            return "float:-0.0" if math.copysign(1, v) < 0 else "float:0.0"
        return "float:subnormal" if abs(v) < 2.2250738585072014e-308 else "float"
    if t is complex:
        parts = (v.real, v.imag)
        if any(p == 0 and math.copysign(1, p) < 0 for p in parts):
            return "complex:negzero"
        if any(p != p or math.isinf(p) for p in parts):
            return "complex:nonfinite"
        return "complex"
    if t is int:
        return "int:huge" if abs(v) > 2 ** 64 else "int"
    return "None" if v is None else t.__name__


# container trees: ["a", core_idx] | [kind, [children]] | ["dict", [[k, v], ...]]
def level1():
    atoms = [["a", i] for i in range(len(CORE))]
    out = []
    for kind in ("list", "tuple"):
        out.append([kind, []])
        out += [[kind, [x]] for x in atoms]
        out += [[kind, [x, y]] for x in atoms for y in atoms]
    out.append(["set", []])
    out += [["set", [x]] for x in atoms]
    out += [["set", [x, y]] for x, y in itertools.combinations(atoms, 2)]
    out.append(["dict", []])
    out += [["dict", [[k, v]]] for k in atoms for v in atoms]
    ks = [["a", i] for i in KEYS2]
    vs = [["a", i] for i in VALS2]
    out += [["dict", [[k1, v1], [k2, v2]]] for k1, k2 in itertools.combinations(ks, 2)
            for v1 in vs for v2 in vs]
    return out


def hashable_tree(t):
    return t[0] == "a" or (t[0] == "tuple" and all(hashable_tree(c) for c in t[1]))


def core_level1():
    a = lambda i: ["a", i]  # noqa: E731
    out = []
    for kind in ("list", "tuple", "set"):
        out += [[kind, []], [kind, [a(1)]], [kind, [a(7)]], [kind, [a(11), a(17)]]]
    out += [["dict", []], ["dict", [[a(16), a(7)]]], ["dict", [[a(14), a(24)]]]]
    return out


def level2(l1, full):
    out = []
    for x in (l1 if full else core_level1()):
        out.append(["list", [x]])
        out.append(["tuple", [x]])
        out.append(["dict", [[["a", 17], x]]])
        if hashable_tree(x):
            out.append(["set", [x]])
            out.append(["dict", [[x, ["a", 7]]]])
    core = [["a", i] for i in (1, 7, 11, 14, 18)] + core_level1()
    for kind in ("list", "tuple"):
        out += [[kind, [x, y]] for x in core for y in core if x[0] != "a" or y[0] != "a"]
    hcore = [c for c in core if hashable_tree(c)]
    out += [["set", [x, y]] for x, y in itertools.combinations(hcore, 2) if x[0] != "a" or y[0] != "a"]
    return out


def build(tree):
    k = tree[0]
    if k == "a":
        return CORE[tree[1]][1]
    if k == "dict":
        return {build(a): build(b) for a, b in tree[1]}
    return {"list": list, "tuple": tuple, "set": set}[k](build(c) for c in tree[1])


def tree_atoms(tree):
    if tree[0] == "a":
        yield tree[1]
    elif tree[0] == "dict":
        for a, b in tree[1]:
            yield from tree_atoms(a)
            yield from tree_atoms(b)
    else:
        for c in tree[1]:
            yield from tree_atoms(c)


def tree_size(tree):
    return 1 + sum(1 for _ in tree_atoms(tree)) if tree[0] != "a" else 1


def render_cases(tier):
    """(spec, rank): spec is JSON-able: ["int", "123"], ["float", hex|"nan"|"-nan"], ["complex", re, im],
    ["str", codepoints], ["bytes", list], ["const", "True"|"False"|"None"], ["tree", tree]."""
    cases = [(["int", str(i)], 1) for i in INTS]
    cases += [(["float", _fhex(x)], 1) for x in float_space(tier)]
    cases += [(["complex", _fhex(a), _fhex(b)], 1) for a in COMPONENTS for b in COMPONENTS]
    cases += [(["str", [ord(c) for c in s]], 1) for s in STRS]
    cases += [(["bytes", list(b)], 1) for b in BYTESS]
    cases += [(["const", n], 1) for n in ("True", "False", "None")]
    l1 = level1()
    cases += [(["tree", t], tree_size(t)) for t in l1]
    cases += [(["tree", t], tree_size(t)) for t in level2(l1, full=(tier == "thorough"))]
    return cases


def _fhex(x):
    if x != x:
        return "nan" if math.copysign(1, x) > 0 else "-nan"
    return x.hex()


def _fval(h):
    return NAN if h == "nan" else -NAN if h == "-nan" else float.fromhex(h)


def spec_value(spec):
    k = spec[0]
    if k == "int":
        return int(spec[1])
    if k == "float":
        return _fval(spec[1])
    if k == "complex":
        return complex(_fval(spec[1]), _fval(spec[2]))
    if k == "str":
        return "".join(chr(c) for c in spec[1])
    if k == "bytes":
        return bytes(spec[1])
    if k == "const":
        return {"True": True, "False": False, "None": None}[spec[1]]
    return build(spec[1])


# ------------------------------------------------------------------ render oracle
EVAL_NS = {"__builtins__": builtins}


def _violation(col, fp, what, data, rank=None):
    """Record a violation with a printable (ASCII) description: values contain lone surrogates."""
    col.violation(fp, what.encode("ascii", "backslashreplace").decode("ascii"), data, rank=rank)


def _sig(exc):
    msg = str(exc).splitlines()[0][:50] if str(exc) else ""
    msg = "".join(c if c.isalnum() or c in " .-_" else "_" for c in msg)
    msg = "".join("N" if c.isdigit() else c for c in msg)  # no positions / counts in fingerprints
    return f"{type(exc).__name__}({msg})"


def render_check(fn, value, raws):
    """Apply the oracle to ``fn(value)``; return a list of (signature, detail) failures."""
    import libcst as cst
    from pynguin.testcase import literalgen

    try:
        expr = fn(value)
        code = cst.Module(body=[]).code_for_node(expr)
    except Exception as exc:  # noqa: BLE001
        return [(f"render-raises:{_sig(exc)}", repr(exc))], None
    try:
        co = compile(code, "<literal>", "eval")
    except Exception as exc:  # noqa: BLE001
        return [("invalid-expression", f"{code!r}: {exc!r}")], code
    try:
        got = eval(co, dict(EVAL_NS))  # noqa: S307 - source produced by the code under test
    except Exception as exc:  # noqa: BLE001
        return [(f"eval-raises:{type(exc).__name__}", f"{code!r}: {exc!r}")], code
    fails = []
    d = diff_kind(value, got)
    if d is not None:
        fails.append((f"eval-differs:{d}", f"{code!r} evaluates to {got!r}"))
    for raw in raws:
        try:
            back = literalgen.parse_literal(expr, raw)
        except Exception as exc:  # noqa: BLE001
            fails.append((f"parse-raises:{type(exc).__name__}",
                          f"parse_literal({code!r}, {getattr(raw, '__name__', raw)}): {exc!r}"))
            continue
        if back is None:
            continue
        d = diff_kind(value, back)
        if d is not None:
            fails.append((f"parse-differs:{d}",
                          f"parse_literal({code!r}, {getattr(raw, '__name__', raw)}) = {back!r}"))
    return fails, code


RAWS = [bool, int, float, complex, str, bytes, list, tuple, set, dict, None]


def check_render_case(col, spec, rank, atom_fail):
    from pynguin.testcase import literalgen

    value = spec_value(spec)
    fns = [("literal_to_cst", literalgen.literal_to_cst)]
    t = type(value)
    if spec[0] != "tree":
        direct = {int: "_int_to_cst", float: "_float_to_cst", complex: "_complex_to_cst"}.get(t)
        if direct and t is not bool:
            fns.append((direct, getattr(literalgen, direct)))
    raws = [r for r in RAWS if not (r is None and value is None)]
    for name, fn in fns:
        col.count("evaluations")
        col.count("render_evaluations")
        fails, code = render_check(fn, value, raws if name == "literal_to_cst" else [t])
        if not fails:
            if code is not None and col.distinct("nontrivial", ("render", code)):
                col.sample({"leg": "render", "value": repr(value)[:80], "code": code[:120]}, every=499)
            col.count("render_ok")
            continue
        for sig, detail in fails:
            if spec[0] == "tree":
                cls = None
                for idx in tree_atoms(spec[1]):
                    if sig in atom_fail.get(idx, ()):
                        cls = CORE[idx][0]
                        break
                cls = cls or "container:" + spec[1][0]
            else:
                cls = scalar_class(value)
            _violation(col, f"C23|render|{name}|{cls}|{sig}",
                          f"{name}({value!r}): {detail}", {"leg": "render", "spec": spec}, rank=rank)


def core_atom_failures():
    """signature sets of the core atoms on their own (culprit attribution inside containers)."""
    from pynguin.testcase import literalgen

    out = {}
    for i, (_, v) in enumerate(CORE):
        fails, _ = render_check(literalgen.literal_to_cst, v, [r for r in RAWS if r is not None])
        out[i] = {s for s, _ in fails}
    return out


def shard_render(col, tier, seed, idx, n):
    cases = render_cases(tier)[idx::n]
    if seed:
        import random
        random.Random(seed).shuffle(cases)
    atom_fail = core_atom_failures()
    for spec, rank in cases:
        check_render_case(col, spec, rank, atom_fail)


# ------------------------------------------------------------------ generate / mutate leg
TYPES = ["bool", "int", "float", "complex", "str", "bytes", "list", "tuple", "set", "dict"]
ACCEPT = {"float": (float, int), "complex": (complex, float, int)}
CONFIGS = {
    "default": {},
    "min": {"max_int": 0, "max_delta": 0, "string_length": 0, "bytes_length": 0, "collection_size": 0},
    "one": {"max_int": 1, "max_delta": 1, "string_length": 1, "bytes_length": 1, "collection_size": 1},
    "max": {"max_int": 2 ** 63, "max_delta": 2 ** 63, "string_length": 40, "bytes_length": 40,
            "collection_size": 10},
}
POOL_CONSTANTS = [0, -1, 2 ** 53 + 1, -10 ** 30,
                  -0.0, INF, -INF, NAN, 5e-324, 1e22,
                  complex(-0.0, -0.0), complex(NAN, INF), complex(1, 2),
                  "'", '"', "\\", "\x00", "\n", "\U0001F600",
                  b"'", b"\x00", b"\\"]
PRINTABLE_MENU = "0'\"\\\n\x0c"
# parsed seed-style start expressions for mutate_literal (source text per type)
PARSED_STARTS = {
    "bool": ["True", "False"],
    "int": ["0", "-5", "1_000", "0x10", "0o7", "0b1", "+5", "--5", "10" * 200],
    "float": ["0.0", "-0.0", "1e3", "1_0.5", ".5", "5.", "1e308", "-1e308", "5e-324", "float('inf')",
              "-float('inf')", "float('nan')"],
    "complex": ["complex(1.0, 2.0)", "complex(-0.0, -0.0)", "complex(float('inf'), 0.0)", "1j", "1+2j",
                "complex(1, 2)", "complex(1e308, 1e308)", "complex(1)"],
    "str": ["''", "'a'", "\"it's\"", "'\\\\'", "'\\x00'", "'a' 'b'", "r'\\n'", "f'x'", "'''a\nb'''",
            "'\\U0001F600'"],
    "bytes": ["b''", "b'a'", "b'\\x00'", "rb'\\n'", "b'a' b'b'"],
    "list": ["[]", "[1]", "[1, 2]", "[1, 2,]", "[[1], 'a']", "[*()]", "list()"],
    "tuple": ["()", "(1,)", "(1, 2)", "1,", "1, 2", "(1, 2,)", "((1,),)", "tuple()"],
    "set": ["set()", "{1}", "{1, 2}", "{1, 2,}", "frozenset()", "set([1])"],
    "dict": ["{}", "{'a': 1}", "{'a': 1, 'b': 2}", "{'a': 1,}", "{**{}}", "dict()"],
}
POOL_NAMES = {"var_0": 7, "var_1": "s"}


def _pytype(name):
    return getattr(builtins, name)


def apply_config(name):
    from mc import pyn

    cfg = pyn.reset_config("c23sut", "")
    for k, v in CONFIGS[name].items():
        setattr(cfg.test_creation, k, v)
    return cfg


def make_provider(kind):
    from pynguin.analyses import constants

    if kind == "empty":
        return constants.EmptyConstantProvider()
    pool = constants.ConstantPool()
    for c in POOL_CONSTANTS:
        pool.add_constant(c)
    return constants.DelegatingConstantProvider(pool, constants.EmptyConstantProvider(), 1.0)


def make_pool(kind):
    import libcst as cst

    return [cst.Name(n) for n in POOL_NAMES] if kind == "refs" else []


def make_rng(ch):
    from mc.rng import ChoiceRNG

    class PrintableRNG(ChoiceRNG):
        """ChoiceRNG whose draws from ``string.printable`` range over the adversarial characters."""

        def choice(self, seq):
            if seq is string.printable or seq == string.printable:
                return PRINTABLE_MENU[self._index("choice-printable", len(PRINTABLE_MENU))]
            return super().choice(seq)

    return PrintableRNG(ch, thresholds=())


def _site(exc):
    """innermost frame inside literalgen (where the failure is raised from)."""
    tb, site = exc.__traceback__, "?"
    while tb is not None:
        if tb.tb_frame.f_code.co_filename.endswith("literalgen.py"):
            site = tb.tb_frame.f_code.co_name
        tb = tb.tb_next
    return site


def eval_literal(tname, code, cache):
    """Verdict for one produced expression of requested type ``tname``: None or (sig, detail)."""
    key = (tname, code)
    if key in cache:
        return cache[key]
    accept = ACCEPT.get(tname, (_pytype(tname),))
    try:
        co = compile(code, "<literal>", "eval")
    except Exception as exc:  # noqa: BLE001
        res = ("invalid-expression", f"{code[:80]!r}: {exc!r}")
    else:
        ns = dict(EVAL_NS)
        ns.update(POOL_NAMES)
        try:
            v = eval(co, ns)  # noqa: S307
        except Exception as exc:  # noqa: BLE001
            res = (f"eval-raises:{type(exc).__name__}", f"{code[:80]!r}: {exc!r}")
        else:
            res = None if isinstance(v, accept) else (f"wrong-type:{type(v).__name__}",
                                                      f"{code[:80]!r} evaluates to {v!r}")
    cache[key] = res
    return res


def explore_job(col, job, bound, start_bound, mut_bound, collect=None):
    """One (config, type, provider, pool) job: generate exploration, then mutate explorations."""
    import libcst as cst
    from mc.explore import explore_deviations
    from mc.rng import installed
    from pynguin.testcase import literalgen

    cfgname, tname, pkind, poolkind = job
    apply_config(cfgname)
    provider, pool, raw = make_provider(pkind), make_pool(poolkind), _pytype(tname)
    mod = cst.Module(body=[])
    cache: dict = {}
    starts: dict = {}
    tag = f"cfg={cfgname}|provider={pkind}|pool={poolkind}"

    def judge(op, ch, out, start_code=None, start_kind=None, start_choices=None):
        col.count("evaluations")
        col.count(f"{op}_executions")
        col.count("traces_validated_against_impl")
        data = {"leg": op, "job": list(job), "choices": ch.choices, "start": start_code,
                "start_kind": start_kind, "start_choices": start_choices}
        rank = len(ch.points) + ch.deviations + (len(start_choices) if start_choices else 0)
        where = f"{op}_literal({tname}) [{tag}]" + (f" from {start_code!r}" if start_code else "")
        if out[0] == "raise":
            exc, site = out[1], out[2]
            _violation(col, f"C23|{op}|raises:{type(exc).__name__}@{site}|cfg={cfgname}",
                          f"{where} raises {exc!r} in {site}", data, rank=rank)
            return None
        code = mod.code_for_node(out[1])
        col.distinct(f"{op}_codes", (tname, code))
        if col.distinct("nontrivial", (op, tname, code)):
            col.sample({"leg": op, "type": tname, "config": cfgname, "code": code[:100],
                        "choices": ch.choices[:12]}, every=293)
        res = eval_literal(tname, code, cache)
        if res is not None:
            _violation(col, f"C23|{op}|{res[0]}|type={tname}|cfg={cfgname}", f"{where}: {res[1]}", data,
                          rank=rank)
        return code

    def gen_run(ch):
        with installed(make_rng(ch)):
            try:
                return ("ok", literalgen.generate_literal(raw, provider, pool))
            except Exception as exc:  # noqa: BLE001
                return ("raise", exc, _site(exc))

    def on_gen(ch, out):
        code = judge("generate", ch, out)
        if code is not None and ch.deviations <= start_bound and code not in starts:
            starts[code] = (out[1], ch.choices)

    n, capped = explore_deviations(gen_run, bound, on_gen)
    if capped:
        col.count("capped")

    def mutate_from(start_code, start_node, start_kind, start_choices=None):
        def mut_run(ch):
            with installed(make_rng(ch)):
                try:
                    return ("ok", literalgen.mutate_literal(start_node, raw, provider, pool))
                except Exception as exc:  # noqa: BLE001
                    return ("raise", exc, _site(exc))

        def on_mut(ch, out):
            judge("mutate", ch, out, start_code, start_kind, start_choices)

        explore_deviations(mut_run, mut_bound, on_mut)
        col.count("mutate_starts")

    for code, (node, choices) in starts.items():
        mutate_from(code, node, "generated", choices)
    if pkind == "empty" and poolkind == "none":
        for src in PARSED_STARTS[tname]:
            mutate_from(src, cst.parse_expression(src), "parsed")
    if collect is not None:
        collect.update(starts)


def jobs(tier):
    out = []
    for cfg in CONFIGS:
        for t in TYPES:
            for pk in ("empty", "seeded"):
                pools = ("none", "refs") if t in ("list", "tuple", "set", "dict") else ("none",)
                for pool in pools:
                    out.append((cfg, t, pk, pool))
    return out


def bounds(tier):
    return (2, 1, 2) if tier == "quick" else (3, 2, 2)


def shard_explore(col, tier, idx, n):
    b, sb, mb = bounds(tier)
    for job in jobs(tier)[idx::n]:
        explore_job(col, job, b, sb, mb)
        col.count("jobs")


def job_entry(col, kind, *args):
    (shard_render if kind == "render" else shard_explore)(col, *args)


# ------------------------------------------------------------------ entry points
def run(ctx):
    from mc.par import run_shards
    from mc import rng

    nr, ne = 4, 12
    run_shards("props.c23_literals:job_entry",
               [("explore", ctx.tier, i, ne) for i in range(ne)]
               + [("render", ctx.tier, ctx.seed, i, nr) for i in range(nr)], ctx.workers, ctx)
    c = ctx.col.counters
    ncases = len(render_cases(ctx.tier))
    ctx.require(c.get("render_evaluations", 0) >= ncases, "render leg incomplete")
    ctx.require(c.get("jobs", 0) == len(jobs(ctx.tier)), "explore leg incomplete")
    ctx.require(c.get("render_ok", 0) > 100, "vacuous: nothing rendered correctly")
    ctx.require(c.get("capped", 0) == 0, "exploration capped")
    for op in ("generate", "mutate"):
        ctx.require(len(ctx.col.sets.get(f"{op}_codes", ())) > 50, f"vacuous: few distinct {op} results")
    b, sb, mb = bounds(ctx.tier)
    ctx.note("render_values", ncases)
    ctx.note("jobs", len(jobs(ctx.tier)))
    ctx.note("deviation_bounds", {"generate": b, "mutate_starts_from_generate": sb, "mutate": mb})
    ctx.note("configs", {k: {kk: str(vv) for kk, vv in v.items()} for k, v in CONFIGS.items()})
    ctx.note("rng_menus", dict(rng.MENUS, **{"choice(string.printable)": repr(PRINTABLE_MENU),
                                            "uniform(0,1)": "0.51, 0.0, 1-2^-53, 0.25, 0.75"}))
    ctx.exhaustive = True
    ctx.rule = ("render: every value of the stated set (14 ints, all adversarial floats incl. every "
                "8th/every power of two with neighbours and both signs, 15x15 complex components, 25 "
                "strs, 11 bytes, bool/None, all list/tuple/set of 0-2 and dicts of 0-1 (+ reduced "
                "2-entry) over 26 core atoms, depth-2 wrappers) through literal_to_cst and the scalar "
                "helpers, parse_literal with all 11 raw types; generate/mutate: all executions with <= "
                "d non-default RNG answers for 4 configs x 10 types x {empty, seeded} provider x "
                "{no pool, reference pool}; mutate from every distinct generated expression "
                "(bound d-1) and 80 parsed literals. non-trivial = distinct rendered / generated / "
                "mutated source texts")
    ctx.assume("reference-pool variables are bound to hashable primitives when generated collections "
               "are evaluated (lenient reading: a set literal referencing an unhashable variable is "
               "not counted against the literal generator)")
    ctx.assume("numeric tower: an int literal is accepted for float, int/float for complex")
    ctx.assume("all NaNs are considered equal (sign/payload of NaN not compared)")


def replay(ctx, data):
    if data["leg"] == "render":
        check_render_case(ctx.col, data["spec"], 1, core_atom_failures())
        return
    import libcst as cst
    from mc.explore import Chooser
    from mc.rng import installed
    from pynguin.testcase import literalgen

    cfgname, tname, pkind, poolkind = data["job"]
    apply_config(cfgname)
    provider, pool, raw = make_provider(pkind), make_pool(poolkind), _pytype(tname)
    op = data["leg"]
    try:
        if op == "mutate":
            if data.get("start_choices") is not None:
                with installed(make_rng(Chooser(data["start_choices"]))):
                    start = literalgen.generate_literal(raw, provider, pool)
            else:
                start = cst.parse_expression(data["start"])
        with installed(make_rng(Chooser(data["choices"]))):
            if op == "generate":
                expr = literalgen.generate_literal(raw, provider, pool)
            else:
                expr = literalgen.mutate_literal(start, raw, provider, pool)
    except Exception as exc:  # noqa: BLE001
        _violation(ctx, f"C23|{op}|raises:{type(exc).__name__}@{_site(exc)}|cfg={cfgname}",
                      f"replay: raises {exc!r}", data)
        return
    code = cst.Module(body=[]).code_for_node(expr)
    res = eval_literal(tname, code, {})
    if res is not None:
        _violation(ctx, f"C23|{op}|{res[0]}|type={tname}|cfg={cfgname}", f"replay: {res[1]}", data)
