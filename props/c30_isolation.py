"""C30 — test executions are isolated and restore process state.

Leg 1 (E1, explicit-state): every sequence of <= k test cases from a 17-call
alphabet (print, raise, SystemExit, close/replace stdout, os.close(1), disable
logging / remove handlers, reseed / draw / create random generators, mutate a
module global or class attribute, pure call) is run through ONE real
TestCaseExecutor (after generator._patch_random(), as the real pipeline does).
After every execution the process snapshot (stdout/stderr identity and
liveness, fds 0-2, logging.disable level and root handlers, the state of
pynguin's own RNG) must equal the initial snapshot, and for the calls without
hidden state the result projection (exception types, covered lines, branch
outcomes, observed return value) must be the same after every prefix.

Leg 2 (E4): the abandoned-thread schedules of the C32 harness (shared
machinery, prop="C30"): a timed-out test's thread that unwinds while a later
test runs must not lose or truncate the later result and must not leave the
process streams redirected.
"""

from __future__ import annotations

import itertools

from mc import par, pyn

ID = "C30"
LEVEL = "model_checking"

SUT = '''
import logging
import os
import random
import sys

G = 0


class K:
    attr = 0


def prints(x):
    print("hello", x)
    sys.stderr.write("err")
    return 1


def raises(x):
    raise ValueError(x)


def exits(x):
    raise SystemExit(3)


def closes_stdout(x):
    sys.stdout.close()
    return 1


def closes_fd1(x):
    os.close(1)
    return 1


def replaces_stdout(x):
    sys.stdout = open(os.devnull, "w")
    sys.stderr = sys.stdout
    return 1


def disables_logging(x):
    logging.disable(logging.CRITICAL)
    return 1


def disables_and_logs(x):
    logging.disable(logging.CRITICAL)
    logging.getLogger("c30_sut").warning("while disabled %s", x)
    logging.getLogger("pynguin.c30probe").error("while disabled")
    return 1


def logs(x):
    log = logging.getLogger("c30_sut")
    if not log.isEnabledFor(logging.WARNING):
        raise RuntimeError("warning level filtered out")
    log.warning("hello %s", x)
    return 1


def removes_handlers(x):
    root = logging.getLogger()
    for h in list(root.handlers):
        root.removeHandler(h)
    return 1


def reseeds(x):
    random.seed(5)
    return random.random()


def draws(x):
    return random.random()


def new_rng(x):
    return random.Random().random()


RNG_FIXED = random.Random(2024)      # module-level instance that is only ever seeded explicitly
RNG_DEFAULT = random.Random()        # module-level instance seeded by default


def draws_fixed(x):
    return RNG_FIXED.random()


def draws_default(x):
    return RNG_DEFAULT.random()


def mutates_global(x):
    global G
    G += 1
    return G


def mutates_class(x):
    K.attr += 1
    return K.attr


def pure(x):
    if x > 1:
        return "a"
    return "b"
'''

CALLS = ["prints(1)", "raises(1)", "exits(1)", "closes_stdout(1)", "closes_fd1(1)",
         "replaces_stdout(1)", "disables_logging(1)", "disables_and_logs(1)", "logs(1)", "removes_handlers(1)", "reseeds(1)",
         "draws(1)", "new_rng(1)", "draws_fixed(1)", "draws_default(1)", "mutates_global(1)", "mutates_class(1)", "pure(2)", "pure(0)"]
# calls whose own result depends on state they (or process globals) carry across tests
HIDDEN_STATE = ("mutates_global", "mutates_class", "removes_handlers")


def snapshot():
    import logging
    import os
    import sys

    import pynguin.utils.randomness as randomness

    def fd(n):
        try:
            st = os.fstat(n)
            return (st.st_dev, st.st_ino, st.st_mode)
        except OSError:
            return None

    root = logging.getLogger()
    return {
        "stdout_is_original": sys.stdout is sys.__stdout__,
        "stderr_is_original": sys.stderr is sys.__stderr__,
        "stdout_closed": bool(getattr(sys.__stdout__, "closed", False)),
        "fd0": fd(0), "fd1": fd(1), "fd2": fd(2),
        "logging_disable": root.manager.disable,
        # behavioural view of the logging state: what loggers answer, not only the stored level
        # (Logger.isEnabledFor caches its answers; logging.disable() clears those caches)
        "logging_enabled_for": tuple(
            logging.getLogger(n).isEnabledFor(lv)
            for n in ("", "c30_sut", "pynguin", "pynguin.c30probe")
            for lv in (logging.DEBUG, logging.INFO, logging.WARNING, logging.ERROR, logging.CRITICAL)),
        "root_handlers": tuple(id(h) for h in root.handlers),
        "pynguin_rng": hash(randomness.RNG.getstate()),
    }


def project(sut, result, observer_value):
    tr = result.execution_trace
    return {"timeout": bool(result.timeout),
            "exceptions": sorted((pos, type(e).__name__) for pos, e in result.exceptions.items()),
            "lines": sorted(sut.props.lineids_to_linenos(tr.covered_line_ids)),
            "branches": sorted((p, "T") for p, d in tr.true_distances.items() if d == 0.0)
            + sorted((p, "F") for p, d in tr.false_distances.items() if d == 0.0),
            "value": observer_value}


def shard(col, first_calls, depth):
    import logging
    import shutil
    import tempfile
    import textwrap

    import pynguin.generator as gen
    import pynguin.testcase.execution as ex

    scratch = tempfile.mkdtemp(prefix="c30_", dir="/dev/shm")
    try:
        pyn.reset_config()
        gen._patch_random()  # noqa: SLF001  (the real pipeline patches before loading the SUT)
        handler = logging.StreamHandler(open("/dev/null", "w"))  # noqa: SIM115
        logging.getLogger().addHandler(handler)
        with pyn.Sut(textwrap.dedent(SUT), scratch, name="c30_sut", coverage=("BRANCH", "LINE")) as sut:

            class ValueObserver(ex.RemoteExecutionObserver):
                """Records repr(var_0) after the statement (the harness's own observer)."""

                def __init__(self):
                    super().__init__()
                    self.value = None

                def before_test_case_execution(self, test_case):
                    self.value = None

                def before_statement_execution(self, statement, node, exec_ctx):
                    return node

                def after_statement_execution(self, statement, executor, exec_ctx, exception):
                    if exception is None and "var_0" in exec_ctx:
                        self.value = repr(exec_ctx["var_0"])

                def after_test_case_execution(self, executor, test_case, result):
                    pass

            def fresh_executor():
                e = sut.executor()
                o = ValueObserver()
                e.add_remote_observer(o)
                return e, o

            # solo reference per call, each on a fresh module state is impossible (one import);
            # instead the reference for a hidden-state-free call is its result as FIRST test.
            solo = {}
            seqs = set()
            for first in first_calls:
                for n in range(0, depth):
                    for rest in itertools.product(range(len(CALLS)), repeat=n):
                        seqs.add((first,) + rest)
            for seq in sorted(seqs):
                executor, obs = fresh_executor()
                for pos, ci in enumerate(seq):
                    call = CALLS[ci]
                    fn = call.split("(")[0]
                    tc = pyn.test_case(f"var_0 = {sut.name}_.{call}")
                    before = snapshot()
                    try:
                        result = executor.execute(tc)
                    except Exception as exc:  # noqa: BLE001
                        col.violation(f"C30|seq|{fn}|execute-raises:{type(exc).__name__}",
                                      f"{[CALLS[i] for i in seq]}: {exc!r}",
                                      {"leg": 1, "sequence": list(seq)}, rank=len(seq))
                        break
                    col.count("transitions")
                    col.count("traces_validated_against_impl")
                    now = snapshot()
                    data = {"leg": 1, "sequence": list(seq[:pos + 1])}
                    for key, val in now.items():
                        if val != before[key]:
                            col.violation(f"C30|state|{fn}|{key}-changed",
                                          f"after {[CALLS[i] for i in seq[:pos + 1]]}: {key} {before[key]} -> {val}",
                                          data, rank=pos + 1)
                    proj = project(sut, result, obs.value)
                    col.distinct("states", (tuple(seq[:pos + 1]), repr(proj)))
                    col.distinct("outcomes", repr(proj))
                    if fn not in HIDDEN_STATE:
                        ref = solo.setdefault(call, proj) if pos == 0 else solo.get(call)
                        if ref is None:
                            e2, o2 = fresh_executor()
                            solo[call] = ref = project(sut, e2.execute(tc), o2.value)
                        if proj != ref and pos > 0:
                            prev = CALLS[seq[pos - 1]].split("(")[0]
                            diff = sorted(k for k in proj if proj[k] != ref[k])
                            col.violation(f"C30|order|{fn}-after-{prev}|result-differs:{'+'.join(diff)}",
                                          f"{call} after {[CALLS[i] for i in seq[:pos]]}: {proj} vs solo {ref}",
                                          data, rank=pos + 1)
                _repair(handler)
                col.sample({"sequence": [CALLS[i] for i in seq]}, every=53)
        logging.getLogger().removeHandler(handler)
    finally:
        shutil.rmtree(scratch, ignore_errors=True)


def _repair(handler):
    """Undo damage so that the next sequence of the shard starts clean (not part of the oracle)."""
    import logging
    import os
    import sys

    from pynguin.testcase.execution_isolation import OutputSuppressionContext as Osc

    sys.stdout, sys.stderr = sys.__stdout__, sys.__stderr__
    logging.disable(logging.NOTSET)
    root = logging.getLogger()
    if handler not in root.handlers:
        root.addHandler(handler)
    if getattr(Osc._null_file, "closed", False):  # noqa: SLF001
        Osc._null_file = open(os.devnull, mode="w")  # noqa: SLF001, SIM115


# ------------------------------------------------------------------ leg 3: the exporter's watchdog
WATCHDOG_STMTS = {
    "sleep": "import time; time.sleep(0.4)",
    "sleep+print": "import time; time.sleep(0.4); print('late')",
    "disable+sleep": "import logging, time; logging.disable(logging.CRITICAL); time.sleep(0.4)",
    "quick": "x = 1",
    "quick-disable": "import logging; logging.disable(logging.CRITICAL)",
}


def shard_watchdog(col, name):
    """The exporter re-executes statements in a watchdog thread (``export._exec_statement_guarded``).  For
    every statement of a small menu x {watchdog expires (thread abandoned), watchdog does not expire}: the
    process state (logging disable level, root handlers, sys.stdout/err) after the call returned AND after
    the abandoned thread has finished must be what it was before.  The oracle does not depend on timing:
    whether the thread was abandoned only decides which path was exercised (counted)."""
    import logging
    import sys
    import threading
    import time

    import pynguin.testcase.export as export

    logging.disable(logging.NOTSET)
    for tmo, label in ((0.05, "expires"), (30.0, "in-time")):
        before = (logging.root.manager.disable, list(logging.root.handlers), sys.stdout, sys.stderr)
        old = export._STATEMENT_EXECUTION_TIMEOUT  # noqa: SLF001
        export._STATEMENT_EXECUTION_TIMEOUT = tmo  # noqa: SLF001
        threads_before = set(threading.enumerate())
        try:
            finished, _exc = export._exec_statement_guarded(WATCHDOG_STMTS[name], {}, None)  # noqa: SLF001
        finally:
            export._STATEMENT_EXECUTION_TIMEOUT = old  # noqa: SLF001
        col.count("transitions")
        col.count("traces_validated_against_impl")
        col.count("watchdog_abandoned" if not finished else "watchdog_in_time")
        col.distinct("states", ("watchdog", name, label, finished))
        data = {"leg": 3, "statement": name, "watchdog": label}

        def check(when, before=before, data=data, name=name, label=label):
            now = (logging.root.manager.disable, list(logging.root.handlers), sys.stdout, sys.stderr)
            diffs = [k for k, a, b in zip(("logging-disable", "root-handlers", "stdout", "stderr"), before, now)
                     if a != b]
            if diffs:
                col.violation(f"C30|export-watchdog|{name}|{label}|{when}|" + "+".join(diffs),
                              f"_exec_statement_guarded({WATCHDOG_STMTS[name]!r}), watchdog {label}: "
                              f"{when}: changed {diffs} (disable level {before[0]} -> {now[0]})", data)
            logging.disable(before[0])
            logging.root.handlers[:] = before[1]
            sys.stdout, sys.stderr = before[2], before[3]

        check("after-return")
        for t in set(threading.enumerate()) - threads_before:
            t.join(10.0)
        time.sleep(0.01)
        check("after-abandoned-thread-finished")



def run(ctx):
    from props import c32_timeout

    depth = 2 if ctx.quick else 3
    par.run_shards("props.c30_isolation:shard", [([i], depth) for i in range(len(CALLS))],
                   ctx.workers, ctx)
    # leg 2: abandoned-thread schedules (shared with C32), reported under the C30 families
    bound = 2 if ctx.quick else 3
    horizon = 9 if ctx.quick else 11
    max_execs = 6000 if ctx.quick else 120000
    seqs = [0, 3, 6] if ctx.quick else list(range(len(c32_timeout.SEQUENCES)))
    par.run_shards("props.c32_timeout:shard",
                   [(i, bound, h, max_execs, "C30") for i in seqs for h in (horizon, horizon + 1)],
                   ctx.workers, ctx)
    # leg 3: the exporter's statement watchdog
    par.run_shards("props.c30_isolation:shard_watchdog", [(n,) for n in WATCHDOG_STMTS], ctx.workers, ctx)
    ctx.require(ctx.col.counters.get("watchdog_abandoned", 0) >= 2 and ctx.col.counters.get("watchdog_in_time", 0) >= 2,
                "vacuous: the watchdog leg did not exercise both the expiring and the in-time path")
    ctx.require(len(ctx.col.sets.get("outcomes", ())) > 8, "vacuous: too few distinct results")
    ctx.require(ctx.col.counters.get("schedules_zombie_overlaps_next_test", 0) > 0,
                "vacuous: zombie leg never overlapped a later test")
    ctx.exhaustive = ctx.col.counters.get("capped_sequences", 0) == 0
    ctx.note("leg1_depth", depth)
    ctx.note("leg1_alphabet", CALLS)
    ctx.rule = (f"leg 1: all sequences of <= {depth} calls from the 19-call alphabet through one executor, "
                "process snapshot compared after every execution, result projection compared with the "
                f"call's first-position result; leg 2: all schedules with <= {bound} deviations of the "
                "timeout/abandon protocol (see C32) judged for lost later results and leaked redirection")
    ctx.assume("the reference result of a hidden-state-free call is its result as the first test of an executor")


def replay(ctx, data):
    from mc.ctx import Collector
    col = Collector()
    if data.get("leg") == 1:
        shard(col, [data["sequence"][0]], len(data["sequence"]))
        ctx.merge(col)
    elif data.get("leg") == 3:
        shard_watchdog(col, data["statement"])
        ctx.merge(col)
    else:
        from props import c32_timeout
        c32_timeout.replay(ctx, data)
